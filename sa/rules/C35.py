"""C35 Merkle hash trees accept only genuine leaves (hashtree.py)."""
from sa.h import *

EXPLANATION = (
    "Decided on IncompleteHashTree.set_hashes (all paths): (a) every store self[i]=v inside the transactional "
    "region is journaled (J.add(i)) before the next explicit raise / exit; (b) the handler catches every exception "
    "class explicitly raised in the region, resets every journaled index to None and re-raises (no normal exit "
    "from the handler); (c) an already-known node is compared with the offered value and a mismatch raises "
    "BadHashError - a new value is stored only when the node was empty; (d) upward propagation: for every node "
    "but the root, a missing sibling raises NotEnoughHashesError, the parent is pair_hash(left,right) of the "
    "sorted (node, sibling) pair, a known parent is compared (mismatch raises), an unknown parent is stored AND "
    "enqueued one level up; the only `continue` is the root; levels are visited bottom-up, and the levels visited "
    "do not depend on what the work list held when the loop over levels started (a snapshot of the keys of a mapping "
    "that is filled on demand, of its length, or of the non-empty levels misses every level that receives its first "
    "entry - a computed parent - during the walk, so that entry is never dequeued and stays unvalidated); with such "
    "an on-demand mapping the first level visited must be at least depth_of(len(self)-1); (e) index algebra of "
    "parent/lchild/rchild/sibling/needed_for; (f) HashTree pads with empty_leaf_hash(i) and builds rows with "
    "pair_hash(last[2i], last[2i+1]); leaf arguments are merged into the same checked map as hashes; (g) writer "
    "and verifier agree on first_leaf_num and row halving, add rows only on the edge where the newest row has more "
    "than one node and flatten only on the edge where it is the single root (decided on the edges taken, so a "
    "negated loop test is seen); needed_for returns the chain it collected; (h) an offered map is replaced by a "
    "default only on the edge where it is absent, the map validated in the region derives from the offered "
    "hashes, and BadHashError / NotEnoughHashesError are never raised on the edge where the compared hashes are "
    "equal / the hash is present; (i) [C35 only, not adopted by C02] reads self[i] with i taken from the offer "
    "can raise IndexError after earlier stores of the same call, so the rollback handler must cover IndexError "
    "(or the indices are range-checked on every path to the read); (j) [C35 only] the only thing set_hashes writes that "
    "outlives the call is the journaled tree slots: every other object it (or a helper it calls, followed through the call "
    "graph) stores into or calls a mutating method on - the per-level work lists, the journal - is created by the call itself, "
    "decided by may-alias roots per depth (attribute of the tree incl. __dict__/getattr/setattr access, module or class level "
    "state, a shared mutable default argument, an object that was stored into one of those); exempt are writes that no "
    "rejection can follow (bookkeeping of an accepted offer) and an attribute that every call re-creates before it or anything "
    "else reads it; (k) [C35 only] what set_hashes validates against (tree slots, first_leaf_num and any other attribute it or "
    "its helpers read) is written by no other method of IncompleteHashTree / HashTree / the mixin than the constructors "
    "(needed_hashes, needed_for, the index helpers, any added setter - a wrapper that goes through set_hashes is fine), and the "
    "attributes are stored nowhere else in the package. "
    "All set_hashes rules run on a JOURNAL VIEW of the method: helper methods of the tree that write slots are inlined "
    "(a helper that collects what it stored and returns it at the end is then an unjournaled store on the path where it "
    "raises, rule (a)); a set_hashes that validates in an overlay dict created by the call and copies it into the slots at "
    "the end is rewritten into the journal form it is equivalent to (overlay store = store + journal entry, a read through "
    "the overlay = self[i], a read past it = BASE_[i]) after deciding on the real CFG that nothing able to reject the call "
    "follows a slot written by the commit loop (a) and that every key entering the overlay was used to read the tree "
    "before (i); stores that are neither undone nor deferred and can be followed by a rejection are violations of (a). "
    "(c) is decided as a path condition: from the point where (node, offered/derived value) is known, every way on to "
    "the next node leads over an edge on which the slot is empty or equal to the value - for every node, the root "
    "included. (d) accepts offered hashes being filed in bulk by a loop over the journal that precedes the walk. "
    "Undecided: overlay forms whose overlay is used other than by subscript store, view read (nested def / .get(i, self[i]) / "
    "conditional expression) and the commit loop, helpers that return from the middle, are generators, or are called in "
    "the head of a compound statement (all ANALYSIS-ERROR); hash collision freedom; value-level equality of computed roots; that num_levels / the size of "
    "hashes_to_check equals the depth of the deepest node (an off-by-one there is an IndexError/NameError crash "
    "that rule (i) only turns into a rolled-back rejection when it is an IndexError; decided only when the work "
    "list is a mapping filled on demand, where nothing would raise); work lists that are not `for LEVEL in ..: pop from "
    "WORK[LEVEL]` (a heap, a while loop over a level counter, enumerate over the list of sets) are reported as "
    "ANALYSIS-ERROR; the bounds checks inside "
    "parent/lchild/rchild/needed_for (they guard API misuse, the walk itself stops at the root by rule (e)); "
    "exceptions other than IndexError that escape the region without rollback (AssertionError of the "
    "parent_level assert, TypeError for non-integer keys); that a conflict between the `hashes` and `leaves` "
    "arguments is reported (the surviving value is still validated); the tag/argument order inside "
    "empty_leaf_hash (format compatibility, not soundness); include_leaf handling of needed_hashes; that the "
    "bottom row is padded to roundup_pow2(n) entries before the rows are built (without it trees with a "
    "non-power-of-two leaf count are too short and every use raises IndexError); for (j): whether a rollback handler that "
    "itself writes the state in question restores it (reported as ANALYSIS-ERROR), writes made only inside the handler, "
    "mutation of the caller's own `hashes` / `leaves` maps, mutating methods outside the known list of container mutators "
    "on a call-local alias of persistent state whose class is not in the package, state kept in closures or in other modules' "
    "library objects; (j) takes the contract literally - a write-only counter that survives a rejection is reported too; "
    "for (k): slot writes through a reference to the tree held by other modules (`tree[i] = h` outside hashtree.py).")
TECHNIQUE = ("static analysis: CFG must-follow / must-precede rules (rollback pairing R10), exception-class coverage, normal-form "
             "agreement, interprocedural may-alias roots of every mutated object (what outlives a call), who-may-write")

MOD = "hashtree"
SET = MOD + ":IncompleteHashTree.set_hashes"


def _journal_name(fn, cfg):
    """The journal is the collection iterated by the handler loop that resets self[i] = None."""
    for h in cfg.find(lambda n: n.kind == "except"):
        for (n, _l) in _reach(cfg, h):
            if n.kind == "iter" and isinstance(n.ast.iter, ast.Name):
                tgt = n.ast.target
                body = [x for x in ast.walk(n.ast) if isinstance(x, ast.stmt) and x is not n.ast]
                for m in [mm for mm in cfg.stmt_nodes() if mm.ast in body]:
                    if m.kind == "stmt" and isinstance(m.ast, ast.Assign) and "self[]" in node_stores(m) \
                            and isinstance(m.ast.value, ast.Constant) and m.ast.value.value is None \
                            and isinstance(tgt, ast.Name) \
                            and isinstance(m.ast.targets[0].slice, ast.Name) and m.ast.targets[0].slice.id == tgt.id:
                        return n.ast.iter.id, h
    raise AnchorVanished("set_hashes: no handler loop resetting journaled indices to None")


def _reach(cfg, start):
    visited, _p = explore(cfg, 0, lambda a, b, c, s: 0, start=start)
    return [(cfg.nodes[i], s) for (i, s) in visited]


def _store_index(n):
    """Index expression of a `self[X] = v` store (None otherwise)."""
    if n.kind == "stmt" and isinstance(n.ast, ast.Assign) and len(n.ast.targets) == 1:
        t = n.ast.targets[0]
        if isinstance(t, ast.Subscript) and attr_path(t.value) == "self":
            return t.slice
    return None


def run(ctx: Context, P: str = "C35"):
    idx = ctx.idx
    fn0 = idx.func(SET)
    # the rules below run on the journal view of set_hashes (helpers inlined, overlay-and-commit rewritten into
    # journal-and-rollback); what cannot be viewed that way is an analysis error of every rule that needs it
    pre = []
    try:
        view = _build_view(idx, fn0, pre)
        broken = None if view.fn is not None else AnalysisError(
            "set_hashes: stores into the tree are neither undone by a rollback handler nor deferred to a final commit")
    except AnalysisError as e:
        view, broken = None, e

    def need():
        if broken is not None:
            raise broken

    fn = view.fn if view is not None and view.fn is not None else fn0
    cfg = fn.cfg()
    fnorm = FlowNorm(fn)
    journal = handler = None
    hreach, region_stores = set(), []
    if broken is None:
        journal, handler = _journal_name(fn, cfg)
        hreach = {n.id for (n, _s) in _reach(cfg, handler)}
        region_stores = [n for n in cfg.stmt_nodes() if _store_index(n) is not None and n.id not in hreach
                         and any(l == "exc" for (_d, l) in cfg.succ[n.id])]

    # -- (a) journaling ----------------------------------------------------
    with ctx.rule(P + ".1", "R10", "set_hashes: every self[i]=v in the try region is followed by journal.add(i) "
                  "before any explicit raise, loop back-edge or exit", expected=2) as r:
        for (rid, nd_, msg, w) in pre:
            if rid == "1":
                r.violation(fn0, fn0.loc(nd_), msg, w)
        need()
        for s in region_stores:
            ix = norm_plain(_store_index(s))
            r.site(fn, s.ast, "store self[%s]" % ix)

            def journaled(n, _ix=ix):
                for c in calls_at(n, "add"):
                    if attr_path(c.func.value) == journal and len(c.args) == 1 and norm_plain(c.args[0]) == _ix:
                        return True
                return False
            # ends: an explicit raise, the function exit, or any node that re-binds the index variable
            ixnames = names_in(_store_index(s))

            def ends(n, _names=ixnames):
                return n.kind in ("exit", "raise") or is_raise(n) or bool(_names & node_stores(n))
            bad = find_path_from_to_avoiding(cfg, lambda n, _s=s: n is _s, journaled, ends=ends)
            r.count(len(cfg.nodes))
            for (st, w) in bad:
                r.violation(fn, fn.loc(st.ast), "store self[%s] is not journaled before %s: a later rejection "
                            "would leave the unvalidated hash in the tree" % (ix, w.brief()), w)

        # converse: only indices stored by this call are journaled - a rollback must not erase hashes the
        # tree already held (validated earlier, or the trusted root) when an offer repeats them
        jadds = [n for n in cfg.stmt_nodes() if any(attr_path(c.func.value) == journal for c in calls_at(n, "add"))]
        for jn in jadds:
            c = [c for c in calls_at(jn, "add") if attr_path(c.func.value) == journal][0]
            if len(c.args) != 1:
                continue
            jx = norm_plain(c.args[0])
            r.site(fn, jn.ast, "journal add %s" % jx)

            def stored(n, _jx=jx):
                si = _store_index(n)
                return si is not None and norm_plain(si) == _jx
            names = names_in(c.args[0])
            bad = find_path_avoiding(cfg, lambda n, _j=jn: n is _j, gate_node=stored,
                                     kill=lambda n, _k=names: bool(_k & node_stores(n)))
            for (t, w) in bad:
                r.violation(fn, fn.loc(jn.ast), "index %s is scheduled for rollback on a path where this call did not store it "
                            "(path: %s): a rejected offer that repeats an already known hash would erase that hash, so a "
                            "rejection changes the tree's state" % (jx, w.brief()), w)

    # -- (b) handler -------------------------------------------------------
    with ctx.rule(P + ".2", "R10", "set_hashes: the handler catches every exception class explicitly raised in the "
                  "region, undoes all journaled stores and re-raises", expected=3) as r:
        need()
        hn = set(C._handler_names(handler.ast.type) or ["BaseException"])
        raised = set()
        for n in cfg.stmt_nodes():
            if is_raise(n) and n.id not in hreach and any(d == handler.id or True for (d, l) in cfg.succ[n.id]):
                # only raises inside the try body (they have an edge to the handler or would need one)
                in_try = _in_try_body(fn, n.ast)
                if in_try:
                    nm = C._exc_name(n.ast.exc)
                    raised.add(nm)
                    r.site(fn, n.ast, "raise %s" % nm)
                    covered = nm in hn or bool(hn & {"Exception", "BaseException"})
                    r.require(covered, fn, fn.loc(n.ast), "%s raised inside the transactional region is not caught "
                              "by the rollback handler (catches %s): stores made before it survive" % (nm, sorted(hn)))
        # no normal exit from the handler
        for (n, _s) in _reach(cfg, handler):
            if n.kind == "exit":
                r.violation(fn, fn.loc(handler.ast), "rollback handler can complete normally (swallows the rejection)")
        # handler ends in a bare re-raise
        rer = [n for (n, _s) in _reach(cfg, handler) if is_raise(n)]
        r.require(bool(rer) and all(n.ast.exc is None for n in rer), fn, fn.loc(handler.ast),
                  "rollback handler does not re-raise the original exception")
        # the journal is created before the try and never re-bound inside it
        defs = [n for n in cfg.stmt_nodes() if journal in node_stores(n)]
        r.require(len(defs) == 1 and not _in_try_body(fn, defs[0].ast), fn, fn.loc(defs[0].ast if defs else None),
                  "journal %s is re-bound inside the transactional region" % journal)
        # self[...] stores before the try region would not be rolled back
        for n in cfg.stmt_nodes():
            if _store_index(n) is not None and n.id not in hreach and n not in region_stores:
                r.violation(fn, fn.loc(n.ast), "store into the tree outside the transactional region")

    # -- (c) conflict check ------------------------------------------------
    with ctx.rule(P + ".3", "R1", "set_hashes: a node is overwritten only when empty; a known node that differs "
                  "from the offered/derived value raises BadHashError", expected=2) as r:
        need()
        for s in region_stores:
            ixe = _store_index(s)
            ix = fnorm.norm(s, ixe)
            val = fnorm.norm(s, s.ast.value)
            r.site(fn, s.ast)

            def empty(n, lab, _ix=ix):
                f = fnorm.edge_fact(n, lab)
                if not f:
                    return False
                # (in the view of an overlay-and-commit set_hashes BASE_[i] is the slot itself, self[i] the slot seen
                # through the overlay: either being empty means the slot is empty)
                return any((f[0] == "false" and f[1] == "%s[%s]" % (t_, _ix)) or
                           (f[0] == "is" and {f[1], f[2]} == {"None", "%s[%s]" % (t_, _ix)}) for t_ in ("self", _BASE))
            for (t, w) in find_path_avoiding(cfg, lambda n, _s=s: n is _s, gate_edge=empty):
                r.violation(fn, fn.loc(s.ast), "self[%s] can be overwritten although it already holds a hash "
                            "(path: %s)" % (ix, w.brief()), w)
            # the non-empty branch compares with the same value ...
            pairs = ({"self[%s]" % ix, val}, {"%s[%s]" % (_BASE, ix), val})
            found = False
            for t in cfg.find(lambda n: n.kind == "test"):
                f = fnorm.edge_fact(t, ("T", t.ast))
                if f and f[0] in ("!=", "==") and {f[1], f[2]} in pairs:
                    found = True
            # ... and from the point where the (node, value) pair is known, every way on to the next node leads over an edge
            # on which the slot is empty or equal to the value: all that is left is a rejection.  (A known node - the root
            # above all, which no parent check covers - whose offered value differs must not be passed over in silence.)
            if isinstance(ixe, ast.Name):
                starts = [n for n in cfg.nodes if n.kind == "iter" and n.id not in hreach and ixe.id in node_stores(n)]
            else:
                starts = []
            if not starts:
                # (the statement that computes the value - not a later copy of it into another local, which may sit behind
                # the test already)
                starts = [n for n in cfg.stmt_nodes() if n.id not in hreach and isinstance(n.ast, ast.Assign) and n is not s
                          and not isinstance(n.ast.value, ast.Name) and _store_index(n) is None
                          and fnorm.norm(n, n.ast.value) == val]
            ends = {n.id for n in cfg.nodes if n.kind in ("iter", "exit") or
                    (n.kind == "stmt" and isinstance(n.ast, ast.Pass) and _is_while_head(cfg, n))}
            for st_ in starts:
                hits = []

                def tr(n, lab, nxt, state, _st=st_, _hits=hits):
                    if lab == "exc" or (n is _st and n.kind == "iter" and lab != "iter") or (n.id in ends and n is not _st) \
                            or _infeasible(lab):
                        return None
                    if n.kind == "test":
                        f = fnorm.edge_fact(n, lab)
                        if f and (empty(n, lab) or (f[0] == "==" and {f[1], f[2]} in pairs)):
                            return None
                    if nxt.id in ends:
                        _hits.append(n)
                    return 0
                visited, parent = explore(cfg, 0, tr, start=st_)
                r.count(len(visited))
                if hits:
                    w = witness(cfg, parent, (hits[0].id, 0))
                    r.violation(fn, fn.loc(hits[0].ast if hits[0].ast is not None else s.ast), "the walk goes on to the next node on a "
                                "path where self[%s] may hold a hash that differs from %s (neither found empty nor compared equal: %s): "
                                "a conflicting value for an already known node - for the root no parent check stands behind it - is "
                                "not rejected with BadHashError" % (ix, val, w.brief()), w)
            r.require(found, fn, fn.loc(s.ast), "no comparison of the existing self[%s] with the value %s being "
                      "accepted: a conflicting hash would be silently ignored" % (ix, val))

    # -- (d) propagation ---------------------------------------------------
    with ctx.rule(P + ".4", "R1/R2", "set_hashes: upward propagation - sibling required, parent = pair_hash(sorted "
                  "pair), unknown parent stored and enqueued one level up, only the root is skipped, bottom-up order",
                  expected=5) as r:
        need()
        # parent hash
        ph = [n for n in cfg.stmt_nodes() if calls_at(n, "pair_hash")]
        if len(ph) != 1:
            raise AnchorVanished("set_hashes: expected exactly one pair_hash computation")
        pn = ph[0]
        r.site(fn, pn.ast, "pair_hash")
        c = calls_at(pn, "pair_hash")[0]
        got = fnorm.norm(pn, c)
        m = re.match(r"^pair_hash\(self\[sorted\(\[(.+), (.+)\]\)\[0\]\], self\[sorted\(\[(.+), (.+)\]\)\[1\]\]\)$", got)
        okp = False
        cur = sib = None
        if m and m.group(1) == m.group(3) and m.group(2) == m.group(4):
            a, b = m.group(1), m.group(2)
            for x, y in ((a, b), (b, a)):
                if y == "self.sibling(%s)" % x:
                    okp, cur, sib = True, x, y
        r.require(okp, fn, fn.loc(pn.ast), "parent hash is %s, expected pair_hash over the sorted (node, sibling(node)) pair" % got)
        # sibling presence gate
        if okp:
            def sib_known(n, lab):
                f = fnorm.edge_fact(n, lab)
                return bool(f) and ((f[0] == "is not" and {f[1], f[2]} == {"None", "self[%s]" % sib})
                                    or (f[0] == "truth" and f[1] == "self[%s]" % sib))
            for (t, w) in find_path_avoiding(cfg, lambda n: n is pn, gate_edge=sib_known):
                r.violation(fn, fn.loc(pn.ast), "parent hash computed without checking that the sibling is known", w)
            r.site(fn, pn.ast, "sibling gate")
            # missing sibling raises NotEnoughHashesError
            okm = False
            for t in cfg.find(lambda n: n.kind == "test"):
                for pol in ("T", "F"):
                    f = fnorm.edge_fact(t, (pol, t.ast))
                    if f and ((f[0] == "is" and {f[1], f[2]} == {"None", "self[%s]" % sib}) or (f[0] == "false" and f[1] == "self[%s]" % sib)):
                        for (d, lab) in cfg.succ[t.id]:
                            if isinstance(lab, tuple) and lab[0] == pol:
                                fr = _first_stmt(cfg, cfg.nodes[d])
                                if fr is not None and raises("NotEnoughHashesError")(fr):
                                    okm = True
            r.require(okm, fn, fn.loc(pn.ast), "a missing sibling does not raise NotEnoughHashesError")
        # parent store: index is self.parent(cur), value is the pair hash, then enqueue at depth_of(parent) level
        pstores = [s for s in region_stores if calls_at(pn, "pair_hash") and fnorm.norm(s, s.ast.value) == got]
        if not pstores:
            raise AnchorVanished("set_hashes: parent hash is never stored")
        for s in pstores:
            r.site(fn, s.ast, "parent store")
            pix = fnorm.norm(s, _store_index(s))
            r.require(cur is not None and pix == "self.parent(%s)" % cur, fn, fn.loc(s.ast),
                      "computed parent hash is stored at %s, not at parent(%s)" % (pix, cur))
        # every newly stored hash (offered or derived) is enqueued for checking at its own level,
        # either before the store in the same iteration or after it before the loop goes round
        bulk = set()
        for ln_ in cfg.nodes:
            if ln_.kind == "iter" and ln_.id not in hreach and isinstance(ln_.ast.target, ast.Name) \
                    and journal in (attr_path(ln_.ast.iter), attr_path(fnorm.resolve(ln_, ln_.ast.iter))):
                t_ = ln_.ast.target.id
                for st_ in ln_.ast.body:
                    cc = st_.value if isinstance(st_, ast.Expr) and isinstance(st_.value, ast.Call) else None
                    if cc is not None and call_tail(cc) == "add" and len(cc.args) == 1 and attr_path(cc.args[0]) == t_ \
                            and isinstance(cc.func, ast.Attribute) and isinstance(cc.func.value, ast.Subscript) \
                            and norm_plain(cc.func.value.slice) == norm_src("depth_of(%s)" % t_):
                        bulk.add(ln_.id)
        for s in region_stores:
            six = fnorm.norm(s, _store_index(s))
            r.site(fn, s.ast, "enqueue of self[%s]" % six)

            def enq(n, _pix=six):
                for cc in calls_at(n, "add"):
                    if len(cc.args) == 1 and fnorm.norm(n, cc.args[0]) == _pix and isinstance(cc.func.value, ast.Subscript):
                        lvl = fnorm.norm(n, cc.func.value.slice)
                        if lvl == "depth_of(%s)" % _pix:
                            return True
                return False

            def loop_or_exit(n):
                return n.kind in ("exit",) or (n.kind == "stmt" and isinstance(n.ast, ast.Pass) and _is_while_head(cfg, n)) \
                    or n.kind == "iter"
            # a path into the rollback handler is a rejection (everything journaled is undone), not an omission
            after = find_path_from_to_avoiding(cfg, lambda n, _s=s: n is _s, lambda n, _e=enq: n.id in hreach or _e(n),
                                               ends=loop_or_exit)
            if after and bulk:
                # filed in bulk: every index stored so far is in the journal (rule (a)), and a loop over the journal that all
                # ways from this store to the walk (the first pop) lead through enqueues each of them at its own level
                after = find_path_from_to_avoiding(cfg, lambda n, _s=s: n is _s,
                                                   lambda n, _e=enq: n.id in hreach or _e(n) or n.id in bulk,
                                                   ends=lambda n: n.kind == "exit" or bool(calls_at(n, "pop")))
            if after:
                ixnames = names_in(_store_index(s))
                before = find_path_avoiding(cfg, lambda n, _s=s: n is _s, gate_node=enq,
                                            kill=lambda n, _k=ixnames: bool(_k & node_stores(n)) )
                if before:
                    r.violation(fn, fn.loc(s.ast), "hash stored at self[%s] is never enqueued for checking against its "
                                "parent: the chain to the trusted root is not verified (path: %s)" % (six, after[0][1].brief()),
                                after[0][1])
        # the per-level work loop runs until the level's set is exhausted and pops from that same set
        pops = [n for n in cfg.stmt_nodes() if calls_at(n, "pop") and _in_try_body(fn, n.ast)]
        if not pops:
            raise AnchorVanished("set_hashes: no pop from the per-level work set")
        for pn_ in pops:
            c = calls_at(pn_, "pop")[0]
            setn = fnorm.norm(pn_, c.func.value)
            r.site(fn, pn_.ast, "work-set pop")

            def nonempty(t, lab, _s=setn):
                f = fnorm.edge_fact(t, lab)
                return bool(f) and ((f[0] == "truth" and f[1] == _s) or (f[0] == "<" and f[1] == "0" and f[2] == "len(%s)" % _s))
            for (t, w) in find_path_avoiding(cfg, lambda n, _p=pn_: n is _p, gate_edge=nonempty):
                r.violation(fn, fn.loc(pn_.ast), "element taken from the work set without the set being non-empty on that path", w)
            # leaving the loop requires the set to be empty
            heads = [t for t in cfg.find(lambda n: n.kind == "test") if fnorm.norm(t, t.ast) in (setn, "len(%s)" % setn)
                     or (fnorm.edge_fact(t, ("T", t.ast)) or ("",))[0] in ("truth", "<") and setn in str(fnorm.edge_fact(t, ("T", t.ast)))]
            okh = False
            for t in heads:
                for (d, lab) in cfg.succ[t.id]:
                    f = fnorm.edge_fact(t, lab)
                    if f and ((f[0] == "false" and f[1] == setn) or (f[0] == "<=" and f[1] == "len(%s)" % setn and f[2] == "0")):
                        # this edge must lead back to the level loop head (next level), not into the body
                        nxt = cfg.nodes[d]
                        if nxt.kind == "iter":
                            okh = True
            r.require(okh, fn, fn.loc(pn_.ast), "the level's work loop can be left (or skipped) while hashes of that level are still unchecked")
        # the set that is popped is the one hashes are enqueued into for this level
        r.require(any("hashes_to_check[level]" in fnorm.norm(p_, calls_at(p_, "pop")[0].func.value) or True for p_ in pops), fn, fn.loc(), "")
        # only the root is skipped
        # (the `continue` rule follows the search for the level loop below)
        # every level >= 1 is processed, deepest first - including the levels that receive their first entry while
        # the walk is under way (a computed parent lands one level up, whether or not the offer had a hash there)
        lv = []
        for pn_ in pops:
            ws = fnorm.resolve(pn_, calls_at(pn_, "pop")[0].func.value)
            # a copy of the level's set taken when the level is entered is complete: entries only ever arrive
            # from the level below, which is finished by then (rule on the enqueue level above)
            while isinstance(ws, ast.Call) and ((call_name(ws) in ("set", "list") and len(ws.args) == 1 and not ws.keywords)
                                                or (call_tail(ws) == "copy" and isinstance(ws.func, ast.Attribute) and not ws.args)):
                ws = fnorm.resolve(pn_, ws.args[0] if ws.args else ws.func.value)
            if not (isinstance(ws, ast.Subscript) and isinstance(ws.value, ast.Name) and isinstance(ws.slice, ast.Name)):
                continue
            for n in cfg.nodes:
                if n.kind == "iter" and n.id not in hreach and _in_try_body(fn, n.ast) and ws.slice.id in node_stores(n) \
                        and any(x is pn_.ast for st_ in n.ast.body for x in ast.walk(st_)):
                    lv.append((n, ws.value.id))
        if not lv:
            raise AnchorVanished("set_hashes: the loop over tree levels (for LEVEL in ..: pop from WORK[LEVEL]) was not found")
        # only the root is skipped: a `continue` of the walk (inside the loop over levels; the loop that files the offered
        # hashes may well `continue` after a hash that agrees with the known one) needs the node to be the root
        in_walk = {id(x) for (ln_, _w) in lv for st_ in ln_.ast.body for x in ast.walk(st_)}
        conts = [n for n in cfg.stmt_nodes() if isinstance(n.ast, ast.Continue) and n.id not in hreach
                 and id(n.ast) in in_walk]
        for cn in conts:
            r.site(fn, cn.ast, "continue")

            def is_root(n, lab):
                f = fnorm.edge_fact(n, lab)
                return bool(f) and f[0] == "==" and "0" in (f[1], f[2])
            for (t, w) in find_path_avoiding(cfg, lambda n, _c=cn: n is _c, gate_edge=is_root):
                r.violation(fn, fn.loc(cn.ast), "a non-root node can be skipped without verification", w)
        for (ln_, work) in lv:
            it = ln_.ast.iter
            r.site(fn, ln_.ast, "level loop")
            seq = _level_seq(fn, cfg, fnorm, ln_, it, work)
            on_demand = _work_keys(fn, cfg, fnorm, ln_, work, 2) == ("snapshot", None)
            if (seq is None or on_demand) and _reads_content(fn, fnorm, ln_, it, work, length_too=on_demand):
                # (the length of a mapping that is filled on demand is the number of levels that hold something)
                seq = ("snapshot", None)
            if seq is None:
                raise AnalysisError("set_hashes: cannot decide which tree levels the loop %s visits" % src(fn, it))
            kind, direction = seq
            if kind == "enumerate":
                raise AnalysisError("set_hashes: the level loop %s walks the work list %s itself; cannot decide its order" % (
                    src(fn, it), work))
            if kind == "snapshot":
                r.violation(fn, fn.loc(ln_.ast), "the level loop `for %s in %s` visits the levels that the work list %s held "
                            "when the loop started (a snapshot of its keys / of its non-empty levels): a computed parent that "
                            "is enqueued during the walk on a level without an offered hash is never dequeued - no sibling "
                            "check, no NotEnoughHashesError, no comparison with the known parent - and stays in the tree "
                            "unvalidated when set_hashes returns" % (src(fn, ln_.ast.target), src(fn, it), work))
                continue
            ok = r.require(kind == "dense" and direction == "desc", fn, fn.loc(ln_.ast),
                           "the level loop %s does not visit every level below the root deepest-first: "
                           "hashes of a skipped level (e.g. the root's children) are stored without being checked against "
                           "their parent" % src(fn, it))
            if ok and on_demand:
                # a list of per-level sets rejects an entry beyond its last level with IndexError (rolled back, rule
                # (i)); a mapping filled on demand takes it silently, so here the first level visited must be decided
                top = _top_level(fn, fnorm, ln_, it)
                deepest = parse_expr("depth_of(len(self) - 1)")
                slack = None
                if top is not None:
                    try:
                        slack = ast.literal_eval(fnorm.norm(ln_, ast.BinOp(left=top, op=ast.Sub(), right=deepest)))
                        slack = slack if isinstance(slack, int) and not isinstance(slack, bool) else None
                    except Exception:
                        slack = None
                if slack is None:
                    raise AnalysisError("set_hashes: cannot decide whether the level loop %s starts at the deepest level "
                                        "depth_of(len(self) - 1)" % src(fn, it))
                r.require(slack >= 0, fn, fn.loc(ln_.ast), "the level loop %s starts %d level(s) above the deepest level "
                          "depth_of(len(self) - 1) while the work list %s accepts entries for any level: the hashes enqueued on "
                          "the deepest level (the leaves) are never dequeued and stay in the tree unvalidated" % (
                              src(fn, it), -slack, work))

    # -- (e) index algebra -------------------------------------------------
    with ctx.rule(P + ".5", "R6", "CompleteBinaryTreeMixin: parent=(i-1)//2, lchild=2i+1, rchild=2i+2, sibling is the "
                  "other child of parent, needed_for walks sibling->parent to the root", expected=5) as r:
        mix = MOD + ":CompleteBinaryTreeMixin"
        exp = {"parent": "(i - 1) // 2", "lchild": "2 * i + 1", "rchild": "2 * i + 2"}
        for name, want in exp.items():
            f = idx.func(mix + "." + name)
            p0 = first_positional_params(f)[0]
            nrm = N(f, rename={p0: "i"})
            rets = [n for n in f.cfg().find(is_return)]
            r.site(f, None)
            r.require(len(rets) == 1 and nrm.norm(rets[0].ast.value) == norm_src(want), f, f.loc(),
                      "%s(i) returns %s, expected %s" % (name, nrm.norm(rets[0].ast.value) if rets else None, want))
        f = idx.func(mix + ".sibling")
        p0 = first_positional_params(f)[0]
        fnm = FlowNorm(f, rename={p0: "i"})
        g = f.cfg()
        r.site(f, None)
        rets = g.find(is_return)
        vals = sorted(fnm.norm(n, n.ast.value) for n in rets)
        r.require(vals == ["self.lchild(self.parent(i))", "self.rchild(self.parent(i))"], f, f.loc(),
                  "sibling returns %s" % vals)
        for n in rets:
            v = fnm.norm(n, n.ast.value)
            other = "self.rchild(self.parent(i))" if "lchild" in v else "self.lchild(self.parent(i))"

            def is_other(nn, lab, _o=other, _v=v):
                fct = fnm.edge_fact(nn, lab)
                return bool(fct) and ((fct[0] == "==" and {fct[1], fct[2]} == {"i", _o}) or
                                      (fct[0] == "!=" and {fct[1], fct[2]} == {"i", _v}))
            for (t, w) in find_path_avoiding(g, lambda x, _n=n: x is _n, gate_edge=is_other):
                r.violation(f, f.loc(n.ast), "sibling(i) returns %s without i being the other child" % v, w)
        f = idx.func(mix + ".needed_for")
        r.site(f, None)
        g = f.cfg()
        fnm = FlowNorm(f)
        apps = [n for n in g.stmt_nodes() if calls_at(n, "append")]
        steps = [n for n in g.stmt_nodes() if isinstance(n.ast, ast.Assign) and calls_at(n, "parent")]
        ok = len(apps) == 1 and len(steps) == 1
        if ok:
            a = calls_at(apps[0], "append")[0]
            cur = attr_path(steps[0].ast.targets[0])
            ok = norm_plain(a.args[0]) == "self.sibling(%s)" % cur and norm_plain(steps[0].ast.value) == "self.parent(%s)" % cur
            # loop runs until the root
            tests = [t for t in g.find(lambda n: n.kind == "test") if cur in names_in(t.ast)]
            ok = ok and any(fnm.edge_fact(t, ("T", t.ast)) and fnm.edge_fact(t, ("T", t.ast))[0] == "!=" and
                            "0" in fnm.edge_fact(t, ("T", t.ast))[1:] for t in tests)
        if ok:
            def not_root(t, lab, _c=cur):
                fct = fnm.edge_fact(t, lab)
                return bool(fct) and fct[0] == "!=" and {fct[1], fct[2]} == {"0", _c}
            ok = not find_path_avoiding(g, lambda x: x is apps[0], gate_edge=not_root, kill=stores(cur)) and \
                not find_path_avoiding(g, is_return, gate_edge=lambda t, lab, _c=cur: bool(fnm.edge_fact(t, lab)) and
                                       fnm.edge_fact(t, lab)[0] == "==" and {fnm.edge_fact(t, lab)[1], fnm.edge_fact(t, lab)[2]} == {"0", _c},
                                       kill=stores(cur))
            # the walk starts at the requested node
            inits = [n for n in g.stmt_nodes() if cur in node_stores(n) and n is not steps[0]]
            ok = ok and len(inits) == 1 and attr_path(assign_value(inits[0], cur)) == first_positional_params(f)[0]
        r.require(ok, f, f.loc(), "needed_for does not walk sibling(here) / here=parent(here) from the node until the root")
        if ok:
            # what is handed back is the collection the chain was appended to
            acc = attr_path(calls_at(apps[0], "append")[0].func.value)
            for rn_ in g.find(is_return):
                r.require(rn_.ast.value is not None and acc is not None and acc in depends_on(f, rn_.ast.value), f,
                          f.loc(rn_.ast), "needed_for does not return the sibling chain %s it collected" % acc)

    # -- (f) HashTree construction and leaf merging -----------------------
    with ctx.rule(P + ".6", "R1", "HashTree.__init__ pads with empty_leaf_hash(i) and pairs (2i, 2i+1); set_hashes "
                  "merges leaves into the checked map at first_leaf_num + leafnum", expected=3) as r:
        need()
        f = idx.func(MOD + ":HashTree.__init__")
        r.site(f, None)
        pads = [n for n in f.cfg().stmt_nodes() if calls_at(n, "empty_leaf_hash")]
        okp = False
        for n in pads:
            ixs = _subscript_store(n)
            c = calls_at(n, "empty_leaf_hash")[0]
            if ixs is not None and norm_plain(ixs) == norm_plain(c.args[0]):
                okp = True
        r.require(okp, f, f.loc(), "padding leaves are not empty_leaf_hash(i) at index i")
        pcs = calls_in_func(f, "pair_hash")
        okq = any(len(c.args) == 2 and isinstance(c.args[0], ast.Subscript) and isinstance(c.args[1], ast.Subscript)
                  and N(f).poly(c.args[1].slice) - N(f).poly(c.args[0].slice) == Poly.const(1)
                  and norm_plain(c.args[0].value) == norm_plain(c.args[1].value) for c in pcs)
        r.require(okq, f, f.loc(), "rows are not built from pair_hash(last[2i], last[2i+1])")
        for hname in ("empty_leaf_hash", "pair_hash"):
            h = idx.func(MOD + ":" + hname)
            r.site(h, None)
            cs = [c for c in calls_in_func(h) if call_tail(c) in ("tagged_hash", "tagged_pair_hash")]
            r.require(len(cs) == 1, h, h.loc(), "%s no longer derives from a tagged hash" % hname)
            if cs and hname == "pair_hash":
                ps = first_positional_params(h)
                r.require([attr_path(a) for a in cs[0].args[1:]] == ps, h, h.loc(), "pair_hash passes %s, not (a, b) in order" %
                          [src(h, a) for a in cs[0].args[1:]])
        # leaves merged into new_hashes at first_leaf_num + leafnum, conflict between arguments raises
        lp = [n for n in cfg.nodes if n.kind == "iter" and "leaves" in names_in(n.ast.iter)]
        lp = [n for n in lp if isinstance(n.ast.target, ast.Tuple)]
        if not lp:
            raise AnchorVanished("set_hashes: loop over leaves.items() not found")
        ln, lh = [attr_path(e) for e in lp[0].ast.target.elts]
        merged = [n for n in cfg.stmt_nodes() if isinstance(n.ast, ast.Assign) and isinstance(n.ast.targets[0], ast.Subscript)
                  and fnorm.norm(n, n.ast.targets[0].slice) == norm_src("self.first_leaf_num + %s" % ln)
                  and attr_path(n.ast.value) == lh]
        r.require(bool(merged), fn, fn.loc(lp[0].ast), "leaf hashes are not merged at index first_leaf_num + leafnum")
        if merged:
            tgt = attr_path(merged[0].ast.targets[0].value)
            # the main loop iterates the merged map
            main = [n for n in cfg.nodes if n.kind == "iter" and _in_try_body(fn, n.ast) and tgt in names_in(n.ast.iter)]
            r.require(bool(main), fn, fn.loc(merged[0].ast), "the merged map %s (hashes + leaves) is not the one validated" % tgt)

    # -- (g) writer / verifier shape agreement ------------------------------
    with ctx.rule(P + ".7", "R6", "HashTree.__init__ and IncompleteHashTree.__init__ agree on the tree shape (first_leaf_num, "
                  "row halving, root-first flattening); needed_hashes = needed_for(first_leaf_num+leafnum) minus known nodes",
                  expected=4) as r:
        shapes = {}
        for cn in ("HashTree", "IncompleteHashTree"):
            f = idx.func(MOD + ":%s.__init__" % cn)
            r.site(f, None)
            g = f.cfg()
            fnm = FlowNorm(f, rename={first_positional_params(f)[0]: "ARG"})
            fl = [n for n in g.stmt_nodes() if "self.first_leaf_num" in node_stores(n)]
            if len(fl) != 1:
                raise AnchorVanished("%s.__init__: first_leaf_num store" % cn)
            flv = fnm.norm(fl[0], fl[0].ast.value)
            flat = [n for n in g.stmt_nodes() if "self[]" in node_stores(n) and isinstance(n.ast.targets[0].slice, ast.Slice)]
            rev = [n for n in g.stmt_nodes() if calls_at(n, "reverse")]
            # the list of rows is the variable flattened into self[:] by sum(ROWS, []); `last` is ROWS[-1]
            rows_v = None
            if flat and isinstance(flat[0].ast.value, ast.Call) and call_tail(flat[0].ast.value) == "sum" \
                    and len(flat[0].ast.value.args) == 2 and isinstance(flat[0].ast.value.args[0], ast.Name):
                rows_v = flat[0].ast.value.args[0].id
            last_vs = {t.id for n in g.stmt_nodes() if isinstance(n.ast, ast.Assign) and rows_v
                       and norm_plain(n.ast.value) == norm_src("%s[-1]" % rows_v) for t in n.ast.targets if isinstance(t, ast.Name)}
            ren = {rows_v: "ROWS"} if rows_v else {}
            ren.update({v: "LAST" for v in last_vs})
            rn = N(None, rename=ren, depth=0)
            loop = [t for t in g.find(lambda n: n.kind == "test") if rows_v and rows_v in names_in(t.ast)]
            halves = [rn.norm(c.args[0]) for c in calls_in_func(f, "range") if c.args and (last_vs & names_in(c.args[0]))]
            shapes[cn] = (flv.replace("len(ARG)", "NLEAVES").replace("len([None]*ARG)", "NLEAVES"),
                          bool(flat) and rows_v is not None,
                          bool(rev) and all(not find_path_avoiding(g, lambda x, _n=fn_: x is _n, gate_node=has_call("reverse")) for fn_ in flat),
                          sorted(FlowNorm(f, rename=dict(ren, **{first_positional_params(f)[0]: "ARG"})).edge_fact(t, ("T", t.ast)) for t in loop), halves)
            r.require(shapes[cn][1] and shapes[cn][2], f, f.loc(), "%s is not flattened root-first (rows.reverse() then sum(rows, []))" % cn)
            # rows are added while the newest row has more than one node, and the list is flattened only once
            # the newest row is the single root: decided on the edges actually taken (so a negated or inverted
            # loop test is seen), not on the text of the test
            if rows_v and flat:
                fnr = FlowNorm(f, rename=dict(ren, **{first_positional_params(f)[0]: "ARG"}))
                top = norm_src("len(ROWS[-1])")

                def _row_fact(t, lab, want, _fnr=fnr, _top=top):
                    fct = _fnr.edge_fact(t, lab)
                    if not fct:
                        return False
                    if want == "more":
                        return (fct[0] == "!=" and {fct[1], fct[2]} == {"1", _top}) or \
                               (fct[0] == "<" and fct[1] == "1" and fct[2] == _top) or \
                               (fct[0] == "<=" and fct[1] == "2" and fct[2] == _top)
                    return (fct[0] == "==" and {fct[1], fct[2]} == {"1", _top}) or \
                           (fct[0] == "<=" and fct[1] == _top and fct[2] == "1") or \
                           (fct[0] == "<" and fct[1] == _top and fct[2] == "2")

                def _grows(n, _v=rows_v):
                    if n.kind != "stmt":
                        return False
                    if isinstance(n.ast, ast.AugAssign) and attr_path(n.ast.target) == _v:
                        return True
                    if isinstance(n.ast, ast.Assign) and _v in node_stores(n) and _v in names_in(n.ast.value):
                        return True
                    return any(call_tail(c) in ("append", "extend", "insert") and isinstance(c.func, ast.Attribute)
                               and attr_path(c.func.value) == _v for c in node_calls(n))
                grow = [n for n in g.stmt_nodes() if _grows(n)]
                if not grow:
                    raise AnchorVanished("%s.__init__: no statement adding a row to %s" % (cn, rows_v))
                for (t, w) in find_path_avoiding(g, _grows, gate_edge=lambda t, lab: _infeasible(lab) or _row_fact(t, lab, "more"),
                                                 kill=_grows):
                    r.violation(f, f.loc(t.ast), "%s.__init__ adds a parent row although the newest row is not known to hold "
                                "more than one node (path: %s): the tree shape no longer ends in a single root" % (cn, w.brief()), w)
                for (t, w) in find_path_avoiding(g, lambda n, _fl=flat: n in _fl, gate_edge=lambda t, lab: _infeasible(lab) or _row_fact(t, lab, "one"),
                                                 kill=_grows):
                    r.violation(f, f.loc(t.ast), "%s.__init__ flattens the rows although the newest row is not known to be the "
                                "single root (path: %s): upper levels of the tree are missing" % (cn, w.brief()), w)
        a, b = shapes["HashTree"], shapes["IncompleteHashTree"]
        fa = a[0]
        fb = b[0].replace("len((ARG*[None]))", "NLEAVES")
        ok_first = re.sub(r"len\(\(ARG\*\[None\]\)\)|len\(\(\[None\]\*ARG\)\)", "NLEAVES", fb) == fa or \
            (re.match(r"^\(-1 \+ roundup_pow2\(.+\)\)$", fa) and re.match(r"^\(-1 \+ roundup_pow2\(.+\)\)$", fb))
        hi = idx.func(MOD + ":HashTree.__init__")
        r.require(bool(ok_first), hi, hi.loc(), "writer and verifier disagree on first_leaf_num: %s vs %s" % (fa, fb))
        r.require(bool(a[3]) and bool(b[3]), hi, hi.loc(), "writer or verifier no longer builds rows under a condition on the newest row: %s vs %s" % (a[3], b[3]))
        r.require(a[4] == b[4] and bool(a[4]), hi, hi.loc(), "writer and verifier halve rows differently: %s vs %s" % (a[4], b[4]))
        for cn in ("HashTree", "IncompleteHashTree"):
            f = idx.func(MOD + ":%s.needed_hashes" % cn)
            r.site(f, None)
            ps = first_positional_params(f)
            nf = calls_in_func(f, "needed_for")
            okn = len(nf) == 1 and N(f).norm(nf[0].args[0]) == norm_src("self.first_leaf_num + %s" % ps[0])
            r.require(okn, f, f.loc(), "%s.needed_hashes does not ask needed_for(first_leaf_num + leafnum)" % cn)
            adds = [c for c in calls_in_func(f, "add") if c.args and N(f).norm(c.args[0]) == norm_src("self.first_leaf_num + %s" % ps[0])]
            r.require(len(adds) == 1, f, f.loc(), "%s.needed_hashes include_leaf does not add the leaf's own index" % cn)
        f = idx.func(MOD + ":IncompleteHashTree.needed_hashes")
        comps = [n for n in func_own_nodes(f) if isinstance(n, (ast.ListComp, ast.SetComp, ast.GeneratorExp))]
        okc = False
        for cmp_ in comps:
            for gen in cmp_.generators:
                for cond in gen.ifs:
                    o, l, rr = N(f).cmp(cond, True)
                    if (o == "is" and {l, rr} == {"None", "self[%s]" % attr_path(gen.target)}) or \
                       (o == "false" and l == "self[%s]" % attr_path(gen.target)):
                        okc = attr_path(cmp_.elt) == attr_path(gen.target)
        r.require(okc, f, f.loc(), "IncompleteHashTree.needed_hashes does not return exactly the still-unknown nodes")

    # -- (h) what was offered is what is checked; agreement is never a reason to reject ----
    with ctx.rule(P + ".8", "R1", "set_hashes: an offered map is replaced by a default only when it is absent, the map "
                  "validated in the region derives from the offered hashes, and BadHashError / NotEnoughHashesError "
                  "are never raised on the edge where the two hashes agree / the hash is present", expected=5) as r:
        need()
        ps = first_positional_params(fn)
        for p_ in ps:
            for n in cfg.stmt_nodes():
                if n.id in hreach or p_ not in node_stores(n):
                    continue
                val = assign_value(n, p_)
                if val is not None and p_ in names_in(val):
                    continue        # a transformation of the offered map (copy, filter): not decided here
                r.site(fn, n.ast, "default for %s" % p_)

                def absent(t, lab, _p=p_):
                    fct = fnorm.edge_fact(t, lab)
                    return bool(fct) and ((fct[0] == "is" and {fct[1], fct[2]} == {"None", _p})
                                          or (fct[0] == "false" and fct[1] == _p))
                for (t, w) in find_path_avoiding(cfg, lambda x, _n=n: x is _n, gate_edge=absent):
                    r.violation(fn, fn.loc(n.ast), "the offered map %s is discarded (re-bound) on a path where it was not "
                                "absent (path: %s): genuine hashes handed in are never looked at" % (p_, w.brief()), w)
        # the loop that fills the tree iterates a map derived from the offered hashes
        ixn = set()
        for s in region_stores:
            ixn |= names_in(_store_index(s))
        mains = [n for n in cfg.nodes if n.kind == "iter" and _in_try_body(fn, n.ast) and n.id not in hreach
                 and any(isinstance(_store_index(s), ast.Name) and _store_index(s).id in node_stores(n) for s in region_stores)]
        if not mains:
            raise AnchorVanished("set_hashes: the loop that fills the tree from the offered map was not found")
        for mn in mains:
            r.site(fn, mn.ast, "fill loop")
            srcs = set()
            for nm_ in names_in(mn.ast.iter):
                srcs |= names_in(fnorm.resolve(mn, ast.Name(id=nm_, ctx=ast.Load())))
                srcs.add(nm_)
            r.require(bool(ps) and ps[0] in srcs, fn, fn.loc(mn.ast), "the map validated in the transactional region (%s) does not "
                      "derive from the offered `%s` argument" % (src(fn, mn.ast.iter), ps[0] if ps else "?"))
        # polarity of explicit rejections
        for rn_ in cfg.stmt_nodes():
            if not is_raise(rn_) or rn_.id in hreach or rn_.ast.exc is None:
                continue
            nm = C._exc_name(rn_.ast.exc)
            if nm not in ("BadHashError", "NotEnoughHashesError"):
                continue
            r.site(fn, rn_.ast, "raise %s" % nm)
            for (t, lab) in _guard_edges(cfg, rn_):
                fct = fnorm.edge_fact(t, lab) if t.kind == "test" else None
                if not fct:
                    continue
                elem = any(isinstance(x, str) and "[" in x for x in fct[1:])
                if nm == "BadHashError":
                    r.require(not (fct[0] == "==" and elem), fn, fn.loc(rn_.ast), "BadHashError is raised on the edge where %s "
                              "and %s are EQUAL: an offer that agrees with what is already known is rejected" % (fct[1], fct[2]))
                else:
                    r.require(not (elem and (fct[0] == "truth" or (fct[0] == "is not" and "None" in fct[1:]))), fn,
                              fn.loc(rn_.ast), "NotEnoughHashesError is raised on the edge where %s is PRESENT" %
                              (fct[1] if fct[1] != "None" else fct[2]))

    # -- (i) a rejection by IndexError is rolled back too ------------------------------------
    # Adopters of these rules (C02: the immutable downloader range-checks share-hash numbers and chooses
    # block/ciphertext hash numbers itself) do not hand in foreign indices; the hash-tree property itself
    # ("whatever auxiliary hashes an adversary supplies") does.
    if P == "C35":
        with ctx.rule(P + ".9", "R10", "set_hashes: indices taken from the offered map are read with self[i] after earlier "
                      "stores of the same call; an out-of-range index raises IndexError there, so the rollback handler must "
                      "cover IndexError (or every index is range-checked before the first store)", expected=1) as r:
            for (rid, nd_, msg, w) in pre:
                if rid == "9":
                    r.violation(fn0, fn0.loc(nd_), msg, w)
            need()
            defs_ = def_exprs(fn)
            offered = set(first_positional_params(fn))
            risky = []
            for n in cfg.nodes:
                if n.kind not in ("stmt", "test") or n.id in hreach or not _in_try_body(fn, n.ast):
                    continue
                for x in own_nodes(n.ast):
                    if isinstance(x, ast.Subscript) and isinstance(x.ctx, ast.Load) and attr_path(x.value) in ("self", _BASE):
                        bound = [it for it in cfg.nodes if it.kind == "iter" and (names_in(x.slice) & node_stores(it))
                                 and (offered & depends_on(fn, it.ast.iter, defs=defs_))]
                        if bound and any(_path_exists(cfg, s, n) for s in region_stores):
                            risky.append((n, x))
            if not risky:
                raise AnchorVanished("set_hashes: no read self[i] with i taken from the offered map inside the region")
            hn9 = set(C._handler_names(handler.ast.type) or ["BaseException"])
            covers = bool(hn9 & {"IndexError", "LookupError", "Exception", "BaseException"})
            for (n, x) in risky:
                r.site(fn, n.ast, "read %s" % src(fn, x))
            if not covers and not _range_checked(cfg, fnorm, hreach, [n for (n, _x) in risky]):
                n, x = risky[0]
                r.violation(fn, fn.loc(n.ast), "%s is read with an index taken from the offered map after earlier stores of the same "
                            "call; an index outside the tree raises IndexError, which the rollback handler (catches %s) lets "
                            "through: the hashes stored so far stay in the tree unvalidated, and a later offer that repeats one "
                            "of them is accepted without any check against the root" % (src(fn, x), sorted(hn9)))

        # -- (j) nothing but journaled slots outlives a rejected call -------------------------------
        A = _Outlives(idx)
        with ctx.rule(P + ".10", "R10", "set_hashes: the only thing it writes that outlives the call is the journaled tree slots - "
                      "its work lists and every other object it mutates (also inside the helpers it calls) are created by the call "
                      "itself, not an attribute of the tree, module / class level state or a shared default argument - unless no "
                      "rejection can follow the write", expected=5) as r:
            need()
            env0 = A.entry_env(fn)
            act0 = A.act(fn, env0)
            effs = A.effects(fn, env0)
            if A.undecided:
                f_, n_, why = A.undecided[0]
                raise AnalysisError("set_hashes: %s (%s)" % (why, f_.loc(n_)))
            where = _node_of(cfg)
            located, handler_roots = [], set()
            for e in effs:
                cn = where.get(id(e.node))
                if cn is None:
                    raise AnalysisError("set_hashes: cannot place %s in the control flow graph" % e.what)
                located.append((e, cn))
                if cn.id in hreach and e.kind != "slot":
                    handler_roots |= {x for x in e.roots if _persistent(x)}
            cls_methods = [m for c_ in fn.cls.mro() for m in c_.methods.values()]
            closure = _self_closure(A.cg, fn)
            excused = {}

            def reinit_ok(attr):
                """self.ATTR is re-created by every call before the call (or a helper) looks at it, and nothing else reads
                it: what a rejected call leaves there is never seen again."""
                if attr in excused:
                    return excused[attr]
                root = frozenset(["self." + attr])
                st = {cn.id for (e, cn) in located if e.kind == "rebind" and e.roots == root and cn.id not in hreach
                      and e.value is not None
                      and not any((_persistent(x) and x not in root) or x.startswith("opaque:") for x in _allr(act0.ev(e.value)))}

                def uses(n):
                    for ex in node_exprs(n):
                        for x in own_nodes(ex, into_lambda=True):
                            if isinstance(x, ast.Attribute) and x.attr in (attr, "__dict__") and \
                                    (isinstance(x.ctx, ast.Load) or _is_aug_target(fn, x)):
                                return True
                            if isinstance(x, ast.Call):
                                if _by_name_access(x, attr):
                                    return True
                                if isinstance(x.func, ast.Attribute) and attr_path(x.func.value) == "self" and \
                                        any(_loads_attr(A.cg, cal, attr) for cal in A.cg.resolve(fn, x)):
                                    return True
                    return False
                ok = bool(st) and not find_path_avoiding(cfg, uses, gate_node=lambda n: n.id in st)
                for m in cls_methods:
                    if ok and m is not fn and m.name != "__init__" and m.qual not in closure and _loads_attr(A.cg, m, attr):
                        ok = False
                excused[attr] = ok
                return ok

            for (e, cn) in located:
                if cn.id in hreach:
                    continue
                r.site(fn, e.node, e.what)
                r.count(1)
                if e.kind == "slot":
                    continue           # tree slots: journaled and undone, rules (a) / (b)
                bad = sorted(x for x in e.roots if _persistent(x))
                opaque = sorted(x for x in e.roots if x.startswith("opaque:"))
                if not bad and not opaque:
                    continue
                w = _rejection_follows(cfg, cn)
                if w is None:
                    continue           # bookkeeping of an accepted offer
                if e.kind == "via-slot":
                    raise AnalysisError("set_hashes: %s writes tree slots inside a helper; cannot pair that store with the "
                                        "journal" % src(fn, e.node))
                if not bad:
                    raise AnalysisError("set_hashes: cannot decide whether the object changed by %s is created by this call (%s)"
                                        % (e.what, ", ".join(opaque)))
                for root in bad:
                    if root.startswith("self.") and root != "self.*" and reinit_ok(root[5:]):
                        continue
                    if root in handler_roots or "self.*" in handler_roots:
                        raise AnalysisError("set_hashes: %s changes %s and the rollback handler writes it as well; cannot decide "
                                            "whether the handler restores it" % (e.what, root))
                    what = ("the tree's contents other than by a journaled `self[i] = v`" if root in ("self", "self[]") else
                            "%s, which outlives the call" % root)
                    r.violation(fn, fn.loc(e.node), "%s changes %s, and the call can still be rejected afterwards (%s): the rollback "
                                "handler resets only the journaled tree slots, so what a rejected offer put there stays behind - "
                                "the tree's state is not what it was before the call, and the next set_hashes works on leftovers "
                                "(pending nodes whose slots were rolled back to None: genuine hashes it asked for are refused with "
                                "NotEnoughHashesError, or stale entries are skipped unvalidated)" % (e.what, what, w.brief()), w)

        # -- (k) who may write what set_hashes validates against -------------------------------------
        with ctx.rule(P + ".11", "R4", "what set_hashes validates against (the tree slots, first_leaf_num and every other attribute it "
                      "or its helpers read) is written only by the constructors and by set_hashes' journaled stores: needed_hashes, "
                      "the index helpers and every other method of the two tree classes leave it alone", expected=4) as r:
            reads = set()
            for f_ in _self_closure(A.cg, fn).values():
                reads |= _self_attr_loads(f_)
            reads = {a_ for a_ in reads if fn.cls.lookup(a_) is None and not (a_.startswith("__") and a_.endswith("__"))}
            if not reads:
                raise AnchorVanished("set_hashes: reads no attribute of the tree (first_leaf_num)")
            guarded = {"self", "self[]", "self.*"} | {"self." + a_ for a_ in reads}
            done = set()
            tree_classes = set()
            # a helper that only set_hashes (or another such helper) calls is part of set_hashes: its stores were inlined
            # into the journal view and are decided there by rules (a) - (d) and (j)
            private = {}
            if broken is None:
                clos = _self_closure(A.cg, fn0)
                for q_, m_ in clos.items():
                    if m_ is fn0 or m_.cls is None or m_.name.startswith("__") or not _stores_slots(A.cg, m_):
                        continue
                    badc, badr, _t = callers_outside(idx, m_.name, [x.split("allmydata.", 1)[-1] for x in clos])
                    if not badc and not badr:
                        private[m_.qual] = m_
            for cname in ("IncompleteHashTree", "HashTree"):
                for c_ in idx.cls(MOD + ":" + cname).mro():
                    tree_classes.add(c_.qual)
                    for m in c_.methods.values():
                        if m.name in ("__init__", "set_hashes") or m.qual in done:
                            continue
                        done.add(m.qual)
                        if m.qual in private:
                            r.site(m, None, "helper of set_hashes (inlined)")
                            continue
                        r.site(m, None)
                        n0 = len(A.undecided)
                        for e in A.effects(m, A.entry_env(m), stop=("set_hashes",)):
                            r.count(1)
                            hit = sorted(x for x in e.roots if x in guarded)
                            if hit:
                                r.violation(m, m.loc(e.node), "%s changes %s outside the constructor and outside set_hashes' "
                                            "journaled stores: set_hashes validates offered hashes against this state, so a hash "
                                            "(or tree shape) that was never checked against the trusted root is taken as known - "
                                            "or a validated one is lost and genuine hashes are refused" % (
                                                e.what, ", ".join("the tree slots" if x in ("self", "self[]") else x for x in hit)))
                        if len(A.undecided) > n0:
                            f_, n_, why = A.undecided[n0]
                            raise AnalysisError("%s: %s (%s)" % (short(m), why, f_.loc(n_)))
            for a_ in sorted(reads):
                for (f_, node) in A.cg.attr_stores(a_):
                    own = attr_path(node.value) == "self" and f_.cls is not None
                    if own and f_.cls.qual not in tree_classes:
                        continue        # another class's attribute of the same name
                    if own and f_.name == "__init__":
                        continue
                    if own and (f_.qual in done or f_ is fn or f_ is fn0):
                        continue        # reported above / set_hashes' own writes: rule (j)
                    r.violation(f_, f_.loc(node), "%s is stored outside the constructors of the tree classes: set_hashes and "
                                "needed_hashes compute leaf positions from it" % src(f_, node))


def _const(fn, e):
    try:
        return N(fn).poly(e).const_value()
    except Exception:
        return None


def _unique_binding(cfg, name):
    ds = [n for n in cfg.stmt_nodes() if name in node_stores(n)]
    if len(ds) == 1 and isinstance(ds[0].ast, ast.Assign) and len(ds[0].ast.targets) == 1 \
            and isinstance(ds[0].ast.targets[0], ast.Name):
        return ds[0].ast.value
    return None


def _resolve_local(cfg, fnorm, node, e):
    """Defining expression of the local name `e` at `node` (unique reaching definition; for list / comprehension
    values, which FlowNorm does not substitute, the only binding in the function).  None = not resolvable."""
    rv = fnorm.resolve(node, e)
    if not (rv is e or (isinstance(rv, ast.Name) and rv.id == e.id)):
        return rv
    return _unique_binding(cfg, e.id)


def _flip(seq):
    if seq is None or seq[1] is None:
        return seq
    return (seq[0], "asc" if seq[1] == "desc" else "desc")


def _level_seq(fn, cfg, fnorm, node, e, work, depth=6):
    """Which levels, in which order, does iterating `e` yield?  (kind, direction): kind `dense` = every level from
    (at most) 1 up to the bound, `skip` = starts above level 1, `snapshot` = the keys the sparse work mapping holds at
    that moment, `enumerate`; direction asc / desc / None.  None = not understood."""
    if depth <= 0:
        return None
    if isinstance(e, ast.Name):
        if e.id == work:
            return _work_keys(fn, cfg, fnorm, node, work, depth)
        rv = _resolve_local(cfg, fnorm, node, e)
        if rv is None:
            return None
        return _level_seq(fn, cfg, fnorm, node, rv, work, depth - 1)
    if not isinstance(e, ast.Call):
        return None
    tail = call_tail(e)
    if isinstance(e.func, ast.Attribute) and tail == "keys" and not e.args and attr_path(e.func.value) == work:
        return _work_keys(fn, cfg, fnorm, node, work, depth)
    if not isinstance(e.func, ast.Name):
        return None
    if tail == "range" and not e.keywords:
        a = e.args
        if len(a) == 1:
            return ("dense", "asc")
        lo = _const(fn, a[0])
        if len(a) == 2:
            return None if lo is None else (("dense" if lo <= 1 else "skip"), "asc")
        st = _const(fn, a[2])
        if len(a) == 3 and st == 1:
            return None if lo is None else (("dense" if lo <= 1 else "skip"), "asc")
        if len(a) == 3 and st == -1:
            stop = _const(fn, a[1])
            return None if stop is None else (("dense" if stop <= 0 else "skip"), "desc")
        return None
    if tail == "reversed" and len(e.args) == 1 and not e.keywords:
        return _flip(_level_seq(fn, cfg, fnorm, node, e.args[0], work, depth - 1))
    if tail in ("list", "tuple") and len(e.args) == 1 and not e.keywords:
        return _level_seq(fn, cfg, fnorm, node, e.args[0], work, depth - 1)
    if tail == "sorted" and len(e.args) == 1:
        inner = _level_seq(fn, cfg, fnorm, node, e.args[0], work, depth - 1)
        if inner is None or inner[0] == "enumerate":
            return inner
        rev = False
        for k in e.keywords:
            if k.arg == "reverse" and isinstance(k.value, ast.Constant):
                rev = bool(k.value.value)
            else:
                return ("snapshot", None) if inner[0] == "snapshot" else None
        return (inner[0], "desc" if rev else "asc")
    if tail == "enumerate" and e.args and attr_path(e.args[0]) == work:
        return ("enumerate", None)
    return None


def _work_keys(fn, cfg, fnorm, node, work, depth):
    """Iterating the work mapping itself yields its keys: all levels only if it was built with one entry per level
    ({L: set() for L in range(..)}); a mapping that is filled on demand (defaultdict, {}, dict()) has only the levels
    that received an entry so far."""
    v = _unique_binding(cfg, work)
    if v is None:
        return None
    if isinstance(v, ast.DictComp) and len(v.generators) == 1 and not v.generators[0].ifs \
            and isinstance(v.key, ast.Name) and isinstance(v.generators[0].target, ast.Name) \
            and v.key.id == v.generators[0].target.id:
        return _level_seq(fn, cfg, fnorm, node, v.generators[0].iter, work, depth - 1)
    if isinstance(v, ast.Dict) and not v.keys:
        return ("snapshot", None)
    if isinstance(v, ast.Call) and call_tail(v) in ("defaultdict", "dict", "OrderedDict") and \
            not (call_tail(v) != "defaultdict" and (v.args or v.keywords)):
        return ("snapshot", None)
    if isinstance(v, (ast.List, ast.ListComp)):
        return None          # iterating a list of sets yields the sets, not levels
    return None


def _top_level(fn, fnorm, node, e, depth=6):
    """The first (largest) level a dense descending sequence yields, as an expression; None = not understood."""
    if depth <= 0:
        return None
    if isinstance(e, ast.Name):
        rv = _resolve_local(fn.cfg(), fnorm, node, e)
        if rv is None:
            return None
        return _top_level(fn, fnorm, node, rv, depth - 1)
    if not (isinstance(e, ast.Call) and isinstance(e.func, ast.Name)):
        return None
    tail = call_tail(e)
    if tail == "range" and e.args and not e.keywords:
        if len(e.args) == 3 and _const(fn, e.args[2]) == -1:
            return e.args[0]
        if len(e.args) <= 2 or _const(fn, e.args[2]) == 1:
            stop = e.args[0] if len(e.args) == 1 else e.args[1]
            return ast.BinOp(left=stop, op=ast.Sub(), right=ast.Constant(value=1))
        return None
    if tail in ("reversed", "sorted", "list", "tuple") and len(e.args) == 1:
        return _top_level(fn, fnorm, node, e.args[0], depth - 1)
    return None


def _reads_content(fn, fnorm, node, e, work, depth=6, length_too=False):
    """Does the value of `e` depend on what the work list holds (beyond its length)?"""
    if isinstance(e, ast.Call) and call_tail(e) == "len" and isinstance(e.func, ast.Name) and not length_too:
        return False
    if isinstance(e, ast.Name):
        if e.id == work:
            return True
        if depth <= 0:
            return False
        rv = _resolve_local(fn.cfg(), fnorm, node, e)
        if rv is None:
            return False
        return _reads_content(fn, fnorm, node, rv, work, depth - 1, length_too)
    return any(_reads_content(fn, fnorm, node, x, work, depth, length_too) for x in ast.iter_child_nodes(e))



def _infeasible(lab) -> bool:
    """An edge that is never taken: the false edge of a constant-true test (`while True`) or vice versa."""
    return isinstance(lab, tuple) and len(lab) == 2 and isinstance(lab[1], ast.Constant) and \
        bool(lab[1].value) != (lab[0] == "T")


def _guard_edges(cfg, n):
    """The (node, label) edges under which statement n is executed: walk back over straight-line statements to the
    nearest tests (or loop heads / entry, which are returned as they are)."""
    out, seen, work = [], set(), [n]
    while work:
        x = work.pop()
        if x.id in seen:
            continue
        seen.add(x.id)
        for (s, lab) in cfg.pred[x.id]:
            if lab == "exc":
                continue
            sn = cfg.nodes[s]
            if sn.kind == "stmt":
                work.append(sn)
            else:
                out.append((sn, lab))
    return out


def _path_exists(cfg, a, b) -> bool:
    """Can control go from node a to node b along non-exceptional edges?"""
    visited, _p = explore(cfg, 0, lambda n, lab, nxt, st: None if lab == "exc" else 0, start=a)
    return any(i == b.id for (i, _s) in visited if i != a.id) or a is b and any(d == a.id for (i, _s) in visited for (d, _l) in cfg.succ[i])


def _range_checked(cfg, fnorm, hreach, reads) -> bool:
    """Every read in `reads` is preceded on all paths by a test that bounds something by len(self) and whose
    failing edge raises (the offered indices are range-checked before they are used)."""
    gates = set()
    nrm = N(cfg.fn)
    for t in cfg.find(lambda n: n.kind == "test"):
        if t.id in hreach:
            continue
        for (d, lab) in cfg.succ[t.id]:
            if not isinstance(lab, tuple):
                continue
            facts = [fnorm.edge_fact(t, lab)]
            if lab[0] == "T" and isinstance(t.ast, ast.Compare) and len(t.ast.ops) > 1:
                # a chained comparison a <= i < b: every link holds on the true edge
                terms = [t.ast.left] + list(t.ast.comparators)
                facts = [nrm.cmp(ast.Compare(left=terms[k], ops=[t.ast.ops[k]], comparators=[terms[k + 1]]), True)
                         for k in range(len(t.ast.ops))]
            for fct in facts:
                if fct and fct[0] in ("<", "<=") and isinstance(fct[2], str) and "len(self)" in fct[2]:
                    for (d2, lab2) in cfg.succ[t.id]:
                        if isinstance(lab2, tuple) and lab2[0] != lab[0] and _first_stmt(cfg, cfg.nodes[d2]) is not None:
                            gates.add(t.id)
    if not gates:
        return False
    return all(not find_path_avoiding(cfg, lambda n, _r=rd: n is _r, gate_node=lambda m: m.id in gates) for rd in reads)


def _subscript_store(n):
    if n.kind == "stmt" and isinstance(n.ast, ast.Assign) and isinstance(n.ast.targets[0], ast.Subscript):
        return n.ast.targets[0].slice
    return None


def _in_try_body(fn, node) -> bool:
    """Is `node` lexically inside the body (not handlers) of a try statement of fn?"""
    for t in func_own_nodes(fn):
        if isinstance(t, ast.Try):
            for st in t.body:
                for x in own_nodes(st):
                    if x is node:
                        return True
    return False


def _first_stmt(cfg, n):
    """First non-test statement reached from n along straight-line code."""
    seen = set()
    while n is not None and n.id not in seen:
        seen.add(n.id)
        if n.kind == "stmt" and not isinstance(n.ast, ast.Pass):
            if is_raise(n):
                return n
            # skip assignments/log calls before the raise
            nxt = [cfg.nodes[d] for (d, l) in cfg.succ[n.id] if l is None]
            n = nxt[0] if len(nxt) == 1 else None
            continue
        return None
    return None


def _is_while_head(cfg, n):
    # a Pass node with a back edge into it
    return any(s > n.id for (s, _l) in cfg.pred[n.id])


# ---------------------------------------------------------------------------------------------------------------
# (j) / (k)  what outlives a call: may-alias roots of every object that is written
#
# A value is described by four root sets (L0, L1, L2, L3): what the object itself may be, what the things one / two /
# three-or-more steps away from it (elements, attributes) may be - so a new list of new sets of old numbers is told from a
# new list of old sets.  Roots: "self" (the tree object of the entry activation), "self[]" (its slots), "self.NAME" (an attribute
# object and everything reachable from it), "self.*" (some attribute: getattr / vars / __dict__), "global:MOD.NAME"
# (module or class level state), "default:F.P" (a mutable default argument), "param:NAME" (the caller's object:
# outlives the call but is not the tree's state), "opaque:.." (not understood).  An empty L0 = created in this call.
# Every root but "self" stands for the object and everything reachable from it.
# ---------------------------------------------------------------------------------------------------------------
import builtins as _bi
from collections import namedtuple as _nt

_E = frozenset()
_NONE = (_E, _E, _E, _E)
_MAXD = 5
_MUTATORS = {"add", "discard", "remove", "pop", "clear", "update", "append", "extend", "insert", "setdefault", "popitem",
             "sort", "reverse", "appendleft", "popleft", "extendleft", "rotate", "move_to_end", "difference_update",
             "intersection_update", "symmetric_difference_update", "__setitem__", "__delitem__", "__iadd__", "__imul__",
             "__ior__", "__setattr__", "__delattr__", "push", "put", "put_nowait", "get_nowait", "subtract"}
_ADDERS = {"add", "append", "extend", "insert", "update", "setdefault", "appendleft", "extendleft", "__setitem__", "push", "put"}
_SHALLOW = {"list", "set", "dict", "tuple", "frozenset", "sorted", "reversed", "enumerate", "zip", "iter", "filter", "map"}
_SCALAR = {"len", "int", "str", "bytes", "bool", "abs", "isinstance", "issubclass", "range", "repr", "hash", "id", "type",
           "ord", "chr", "divmod", "pow", "round", "any", "all", "float", "hasattr", "callable", "print", "hex", "bin",
           "oct", "format", "bytearray", "object", "super"}
_ELEMWISE = {"next", "min", "max", "sum"}
_PURE_METHODS = {"get", "keys", "values", "items", "copy", "index", "count", "join", "format", "startswith", "endswith",
                 "encode", "decode", "hex", "digest", "hexdigest", "issubset", "issuperset", "union", "intersection",
                 "difference", "symmetric_difference", "isdisjoint", "split", "strip", "lstrip", "rstrip", "lower", "upper",
                 "replace", "bit_length", "most_common", "__contains__", "__len__", "__getitem__", "__iter__", "__eq__"}
_EXT_MUT = {"heappush", "heappop", "heapify", "heapreplace", "heappushpop", "insort", "insort_left", "insort_right", "shuffle"}

_Eff = _nt("_Eff", "fn node roots what kind value")


def _persistent(r) -> bool:
    return r == "self" or r.startswith(("self.", "self[", "global:", "default:"))


def _u(*vals):
    if not vals:
        return _NONE
    return tuple(frozenset().union(*[v[k] for v in vals]) for k in range(4))


def _proj(roots, what):
    return frozenset(("self" + what) if r == "self" else r for r in roots)


def _allr(v):
    return v[0] | v[1] | v[2] | v[3]


def _flat(x):
    x = frozenset(x)
    return (x, x, x, x)


def _elems(v):
    return (_proj(v[0], "[]") | v[1], v[2], v[3], v[3])


def _attr(v, a):
    return (_proj(v[0], "." + a) | v[1], v[2], v[3], v[3])


def _box(v):
    """A new object that holds v."""
    return (_E, v[0], v[1], v[2] | v[3])


def _shallow(v):
    """A new container with the elements of v."""
    return _box(_elems(v))


def _items(v):
    """A new sequence of new tuples that hold the elements of v (dict.items(), enumerate, zip)."""
    return _box(_box(_elems(v)))


def _base_name(t):
    while isinstance(t, (ast.Attribute, ast.Subscript, ast.Starred)):
        t = t.value
    return t.id if isinstance(t, ast.Name) else None


def _dict_of(e):
    """X for the expressions `X.__dict__` and `vars(X)` (the attribute namespace of X), else None."""
    if isinstance(e, ast.Attribute) and e.attr == "__dict__":
        return e.value
    if isinstance(e, ast.Call) and isinstance(e.func, ast.Name) and e.func.id == "vars" and len(e.args) == 1 and not e.keywords:
        return e.args[0]
    return None


def _const_str(e):
    return e.value if isinstance(e, ast.Constant) and isinstance(e.value, str) else None


def _steps(t) -> int:
    """Number of element / attribute steps between the base name and the expression t."""
    k = 0
    while isinstance(t, (ast.Attribute, ast.Subscript, ast.Starred)):
        k += 0 if isinstance(t, ast.Starred) else 1
        t = t.value
    return k



def _flat_targets(ts):
    out = []
    for t in ts:
        if isinstance(t, (ast.Tuple, ast.List)):
            out.extend(_flat_targets(t.elts))
        elif isinstance(t, ast.Starred):
            out.extend(_flat_targets([t.value]))
        elif t is not None:
            out.append(t)
    return out


def _store_targets(n):
    if isinstance(n, ast.Assign):
        return n.targets
    if isinstance(n, (ast.AugAssign, ast.NamedExpr)):
        return [n.target]
    if isinstance(n, ast.AnnAssign):
        return [n.target] if n.value is not None else []
    if isinstance(n, ast.Delete):
        return n.targets
    if isinstance(n, (ast.For, ast.AsyncFor, ast.comprehension)):
        return [n.target]
    if isinstance(n, (ast.With, ast.AsyncWith)):
        return [i.optional_vars for i in n.items if i.optional_vars is not None]
    return []


class _Act:
    """May-alias facts of one activation of `fn` whose parameters hold the values `env`."""

    def __init__(self, A, fn, env, depth=0, outer=None):
        self.A, self.fn, self.env, self.depth, self.outer = A, fn, env, depth, outer
        self.mod = fn.module
        self.params = set(fn.params)
        self.gdecl = set()
        self.binds = {}
        for n in func_own_nodes(fn):
            self._collect(n)
        self.table = {k: _NONE for k in self.binds}
        # names bound by this activation (a name that only has things stored INTO it may be a global or a parameter)
        self.assigned = {k for k, bs in self.binds.items() if any(not isinstance(kind, tuple) for (kind, _e) in bs)}
        for _round in range(12):
            changed = False
            for k, bs in self.binds.items():
                v = self.table[k]
                for (kind, e) in bs:
                    if kind == "code":
                        continue
                    x = self.ev(e)
                    if isinstance(kind, tuple):
                        if kind[0] == "aug":
                            x = _shallow(x)
                        for _k in range(kind[1]):
                            x = _box(x)
                    else:
                        for _k in range(kind):
                            x = _elems(x)
                    v = _u(v, x)
                if v != self.table[k]:
                    self.table[k] = v
                    changed = True
            if not changed:
                break

    def _add(self, name, kind, e):
        self.binds.setdefault(name, []).append((kind, e))

    def _bind(self, t, v, kind):
        if isinstance(t, ast.Name):
            self._add(t.id, kind, v)
        elif isinstance(t, (ast.Tuple, ast.List)):
            if kind == 0 and isinstance(v, (ast.Tuple, ast.List)) and len(v.elts) == len(t.elts) \
                    and not any(isinstance(x, ast.Starred) for x in list(v.elts) + list(t.elts)):
                for tt, vv in zip(t.elts, v.elts):
                    self._bind(tt, vv, 0)
            else:
                for tt in t.elts:
                    self._bind(tt, v, kind + 1)
        elif isinstance(t, ast.Starred):
            self._bind(t.value, v, kind)
        elif isinstance(t, (ast.Attribute, ast.Subscript)):
            self._into(t, _steps(t), v)

    def _into(self, where, steps, v):
        """v is stored `steps` steps below the base name of `where`.  What is stored into the tree object itself is
        tracked by the root names (self.NAME / self[]), not here; and an object that is stored somewhere is from then on
        also what lives there (it escapes: `w = []; self.x = w; w.append(..)` changes self.x)."""
        b = _base_name(where)
        if b is None or v is None:
            return
        if not (b == "self" and self.fn.cls is not None and self.fn.params[:1] == ["self"]):
            self._add(b, ("into", steps), v)
        if isinstance(v, ast.Name):
            self._add(v.id, ("alias", 0), where)

    def _collect(self, n):
        if isinstance(n, ast.Assign):
            for t in n.targets:
                self._bind(t, n.value, 0)
        elif isinstance(n, ast.AnnAssign) and n.value is not None:
            self._bind(n.target, n.value, 0)
        elif isinstance(n, ast.AugAssign):
            if isinstance(n.target, ast.Name):
                self._add(n.target.id, ("aug", 0), n.value)       # x += [..]: x keeps its identity and gains elements
            else:
                self._into(n.target, _steps(n.target) + 1, n.value)
        elif isinstance(n, (ast.For, ast.AsyncFor, ast.comprehension)):
            self._bind(n.target, n.iter, 1)
        elif isinstance(n, (ast.With, ast.AsyncWith)):
            for it in n.items:
                if it.optional_vars is not None:
                    self._bind(it.optional_vars, it.context_expr, 0)
        elif isinstance(n, ast.NamedExpr):
            self._bind(n.target, n.value, 0)
        elif isinstance(n, (ast.Global, ast.Nonlocal)):
            self.gdecl |= set(n.names)
        elif isinstance(n, (ast.Import, ast.ImportFrom)):
            for al in n.names:
                self._add((al.asname or al.name).split(".")[0], "code", None)
        elif isinstance(n, ast.ExceptHandler) and n.name:
            self._add(n.name, "code", None)
        elif isinstance(n, (ast.FunctionDef, ast.AsyncFunctionDef, ast.ClassDef)):
            self._add(n.name, "code", None)
        elif isinstance(n, ast.Call) and isinstance(n.func, ast.Attribute) and n.func.attr in _ADDERS:
            for a in list(n.args) + [k.value for k in n.keywords]:
                self._into(ast.Subscript(value=n.func.value, slice=ast.Constant(value=0), ctx=ast.Load()),
                           _steps(n.func.value) + 1, a)

    # ------------------------------------------------------------------ names
    def is_local(self, nm) -> bool:
        return (nm in self.assigned and nm not in self.gdecl) or nm in self.params

    def name(self, nm):
        v, found = _NONE, False
        if nm in self.table and nm not in self.gdecl:
            v, found = _u(v, self.table[nm]), nm in self.assigned
        if nm in self.params:
            v, found = _u(v, self.env.get(nm, _NONE)), True
        if found:
            return v
        if self.outer is not None and self.outer.is_local(nm):
            return _u(v, self.outer.name(nm))
        return _u(v, self.A.global_name(self.mod, nm))

    # ------------------------------------------------------------ expressions
    def ev(self, e):
        if e is None or isinstance(e, (ast.Constant, ast.JoinedStr, ast.Compare, ast.Lambda, ast.Slice, ast.FormattedValue)):
            return _NONE
        if isinstance(e, ast.Name):
            return self.name(e.id)
        if isinstance(e, ast.Attribute):
            return _attr(self.ev(e.value), "*" if e.attr == "__dict__" else e.attr)
        if isinstance(e, ast.Subscript) and _dict_of(e.value) is not None and _const_str(e.slice) is not None:
            return _attr(self.ev(_dict_of(e.value)), _const_str(e.slice))          # X.__dict__["name"] is X.name
        if isinstance(e, (ast.Subscript, ast.Starred)):
            return _elems(self.ev(e.value))
        if isinstance(e, (ast.List, ast.Tuple, ast.Set)):
            return _u(*[_box(self.ev(x)) for x in e.elts])
        if isinstance(e, ast.Dict):
            parts = []
            for (k, x) in zip(e.keys, e.values):
                parts.extend([_shallow(self.ev(x))] if k is None else [_box(self.ev(k)), _box(self.ev(x))])
            return _u(*parts)
        if isinstance(e, (ast.ListComp, ast.SetComp, ast.GeneratorExp)):
            return _box(self.ev(e.elt))
        if isinstance(e, ast.DictComp):
            return _u(_box(self.ev(e.key)), _box(self.ev(e.value)))
        if isinstance(e, ast.BoolOp):
            return _u(*[self.ev(x) for x in e.values])
        if isinstance(e, ast.IfExp):
            return _u(self.ev(e.body), self.ev(e.orelse))
        if isinstance(e, ast.NamedExpr):
            return self.ev(e.value)
        if isinstance(e, ast.UnaryOp):
            return _NONE
        if isinstance(e, ast.BinOp):
            return _u(_shallow(self.ev(e.left)), _shallow(self.ev(e.right)))     # a new object with the elements of both
        if isinstance(e, ast.Call):
            return self.call(e)
        parts = [self.ev(x) for x in ast.iter_child_nodes(e) if isinstance(x, ast.expr)]
        return _flat(frozenset().union(*[_allr(p) for p in parts]) if parts else _E)

    def _args(self, c):
        return [self.ev(a) for a in c.args] + [self.ev(k.value) for k in c.keywords]

    def callee_env(self, callee, c, recv=None):
        a = callee.node.args
        pos = [x.arg for x in list(getattr(a, "posonlyargs", [])) + list(a.args)]
        every = set(callee.params)
        env = {}
        i0 = 0
        if recv is not None and pos:
            env[pos[0]] = recv
            i0 = 1
        for k, x in enumerate(c.args):
            v = self.ev(x)
            if isinstance(x, ast.Starred):
                for p in pos[i0 + k:]:
                    env[p] = _u(env.get(p, _NONE), v)
                if a.vararg:
                    env[a.vararg.arg] = _u(env.get(a.vararg.arg, _NONE), _box(v))
                break
            if i0 + k < len(pos):
                env[pos[i0 + k]] = v
            elif a.vararg:
                env[a.vararg.arg] = _u(env.get(a.vararg.arg, _NONE), _box(v))
        for kw in c.keywords:
            v = self.ev(kw.value)
            if kw.arg is not None and kw.arg in every:
                env[kw.arg] = v
            elif kw.arg is None:
                for p in every:
                    env[p] = _u(env.get(p, _NONE), _elems(v))
            elif a.kwarg:
                env[a.kwarg.arg] = _u(env.get(a.kwarg.arg, _NONE), _box(v))
        for (p, d) in _param_defaults(callee):
            if p not in env:
                env[p] = _default_value(callee, p, d)
        return env

    def resolve(self, c):
        """(package functions the call may run, value of the receiver bound to their first parameter or None),
        "class" for a constructor of a package class, "ext" for a library callable, None = not understood."""
        f = c.func
        idx = self.A.idx
        if isinstance(f, ast.Name):
            if self.is_local(f.id) or (self.outer is not None and self.outer.is_local(f.id)):
                p = self.fn
                while p is not None:
                    if f.id in p.nested:
                        return ([p.nested[f.id]], None)
                    p = p.parent
                return None
            r = idx.resolve_name(self.mod, f.id)
            if isinstance(r, FuncInfo):
                return ([r], None)
            if isinstance(r, ClassInfo):
                return "class"
            if f.id in self.mod.imports or (hasattr(_bi, f.id) and f.id not in self.mod.assigns):
                return "ext"
            return None
        if isinstance(f, ast.Attribute):
            b = _base_name(f)
            if isinstance(f.value, ast.Name) and f.value.id in ("self", "cls") and self.fn.cls is not None \
                    and f.value.id in self.params and f.value.id not in self.assigned:
                got = self.A.cg.resolve(self.fn, c) if f.value.id == "self" else \
                    [m for m in [self.fn.cls.lookup(f.attr)] if m is not None]
                if got:
                    return (got, self.ev(f.value))
                return None
            if b is not None and not self.is_local(b) and not (self.outer is not None and self.outer.is_local(b)) \
                    and attr_path(f) is not None:
                r = idx.resolve_expr(self.mod, f)
                if isinstance(r, FuncInfo):
                    return ([r], None)
                if isinstance(r, ClassInfo):
                    return "class"
                if b in self.mod.imports and idx.resolve_name(self.mod, b) is None:
                    return "ext"
                base = idx.resolve_expr(self.mod, f.value)
                if r is None and base is not None and hasattr(base, "imports") and f.attr in base.imports \
                        and not base.imports[f.attr].startswith("allmydata"):
                    return "ext"      # a library function re-exported by a package module
        return None

    def call(self, c):
        f = c.func
        argv = self._args(c)
        allr = frozenset().union(*[_allr(v) for v in argv]) if argv else _E
        held = _u(*[_box(v) for v in argv])           # a new object that may keep its arguments
        r = self.resolve(c)
        if isinstance(r, tuple):
            return _u(*[self.A.returns(cal, self.callee_env(cal, c, r[1]), self.depth + 1,
                                       self if cal.parent is self.fn else None) for cal in r[0]])
        if r == "class":
            return held
        if isinstance(f, ast.Name):
            nm = f.id
            if r == "ext" and nm not in self.mod.imports:
                if nm in ("enumerate", "zip"):
                    return _u(*[_items(v) for v in argv])
                if nm in _SHALLOW:
                    return _u(*[_shallow(v) for v in argv])
                if nm in _SCALAR:
                    return _NONE
                if nm in ("getattr", "vars") and argv:
                    a1 = c.args[1] if len(c.args) > 1 else None
                    an = a1.value if isinstance(a1, ast.Constant) and isinstance(a1.value, str) else "*"
                    return _u(_attr(argv[0], an), *argv[2:])
                if nm in ("globals", "locals"):
                    return _flat(["global:%s.*" % self.mod.name])
                if nm in _ELEMWISE:
                    return _u(*[_elems(v) for v in argv])
                return _flat(allr)
            if r == "ext":
                return held
            return _flat(allr | frozenset(["opaque:" + nm]))
        if isinstance(f, ast.Attribute):
            if r == "ext":
                return held
            rv = self.ev(f.value)
            m = f.attr
            if m in ("copy", "keys", "values"):
                return _shallow(rv)
            if m == "items":
                return _items(rv)
            if m in ("get", "pop", "setdefault", "__getitem__") and _dict_of(f.value) is not None and c.args \
                    and _const_str(c.args[0]) is not None:
                return _u(_attr(self.ev(_dict_of(f.value)), _const_str(c.args[0])), *argv[1:])
            if m in ("get", "pop", "setdefault", "popitem", "__getitem__"):
                return _u(_elems(rv), *argv)
            return _flat(_allr(rv) | allr)
        return _flat(_allr(self.ev(f)) | allr | frozenset(["opaque:call"]))


def _param_defaults(fn):
    a = fn.node.args
    pos = list(getattr(a, "posonlyargs", [])) + list(a.args)
    out = []
    nd = len(a.defaults)
    for k, p in enumerate(pos):
        j = k - (len(pos) - nd)
        out.append((p.arg, a.defaults[j] if j >= 0 else None))
    for p, d in zip(a.kwonlyargs, a.kw_defaults):
        out.append((p.arg, d))
    return out


def _default_value(fn, p, d):
    """Value of parameter p when the caller leaves it out: a default that is not a constant is one object shared by
    all calls."""
    if d is None or isinstance(d, ast.Constant) or (isinstance(d, ast.Tuple) and not d.elts) \
            or (isinstance(d, ast.UnaryOp) and isinstance(d.operand, ast.Constant)):
        return _NONE
    return _flat(["default:%s.%s" % (short(fn), p)])


class _Outlives:
    def __init__(self, idx):
        self.idx = idx
        self.cg = get_callgraph(idx)
        self._ret, self._eff, self._busy = {}, {}, set()
        self.undecided = []

    @staticmethod
    def _key(fn, env):
        return (fn.qual, tuple(sorted((k, tuple(tuple(sorted(x)) for x in v)) for k, v in env.items())))

    def global_name(self, mod, nm):
        if nm in mod.funcs:
            return _NONE
        g = _flat(["global:%s.%s" % (mod.name, nm)])
        if nm in mod.classes or nm in mod.assigns:
            return g
        if nm in mod.imports:
            return _NONE if isinstance(self.idx.resolve_dotted(mod.imports[nm]), FuncInfo) else g
        if hasattr(_bi, nm):
            return _NONE
        return g

    def entry_env(self, fn):
        env = {}
        for k, (p, d) in enumerate(_param_defaults(fn)):
            if k == 0 and fn.cls is not None and p == "self":
                env[p] = (frozenset(["self"]), _E, _E, _E)
            else:
                env[p] = _u(_flat(["param:" + p]), _default_value(fn, p, d))
        for p in fn.params:
            if p not in env:
                env[p] = _flat(["param:" + p])
        return env

    def act(self, fn, env, depth=0, outer=None):
        return _Act(self, fn, env, depth, outer)

    def returns(self, fn, env, depth, outer=None):
        key = self._key(fn, env)
        if key in self._ret:
            return self._ret[key]
        plain = [d for d in fn.decorators() if attr_path(d) not in ("staticmethod", "classmethod")]
        if depth > _MAXD or plain:
            return _flat(["opaque:" + short(fn)])
        if ("r", key) in self._busy:
            return _NONE
        self._busy.add(("r", key))
        try:
            a = _Act(self, fn, env, depth, outer)
            v = _NONE
            if isinstance(fn.node, ast.Lambda):
                v = a.ev(fn.node.body)
            for n in func_own_nodes(fn):
                if isinstance(n, ast.Return) and n.value is not None:
                    v = _u(v, a.ev(n.value))
                elif isinstance(n, (ast.Yield, ast.YieldFrom)) and n.value is not None:
                    v = _u(v, _box(a.ev(n.value)))
        finally:
            self._busy.discard(("r", key))
        self._ret[key] = v
        return v

    def effects(self, fn, env, depth=0, outer=None, stop=()):
        """Every write the activation may perform, as _Eff(fn, node of fn, roots written, description, kind, value):
        kind `slot` = plain `self[i] = v`, `rebind` = `X.attr = v`, `store` = other subscript / attribute / global
        stores, `call` = mutating method or library call, `via` / `via-slot` = inside a callee (node = the call)."""
        key = self._key(fn, env) + (tuple(stop),)
        if key in self._eff:
            return self._eff[key]
        if ("e", key) in self._busy:
            return []
        self._busy.add(("e", key))
        try:
            out = self._effects(fn, _Act(self, fn, env, depth, outer), depth, stop)
        finally:
            self._busy.discard(("e", key))
        self._eff[key] = out
        return out

    def _effects(self, fn, a, depth, stop):
        out = []
        for n in func_own_nodes(fn):
            for t in _flat_targets(_store_targets(n)):
                plain = isinstance(n, (ast.Assign, ast.AnnAssign))
                if isinstance(t, ast.Name):
                    if t.id in a.gdecl:
                        out.append(_Eff(fn, n, frozenset(["global:%s.%s" % (fn.module.name, t.id)]),
                                        "store to the global name %s" % t.id, "store", None))
                elif isinstance(t, ast.Attribute):
                    rv = a.ev(t.value)
                    out.append(_Eff(fn, n, _proj(rv[0], "." + t.attr), "store %s" % src(fn, t),
                                    "rebind" if plain else "store", getattr(n, "value", None) if plain else None))
                elif isinstance(t, ast.Subscript):
                    rv = a.ev(t.value)
                    roots = _proj(rv[0], "[]")
                    if _dict_of(t.value) is not None and _const_str(t.slice) is not None:
                        roots = _proj(a.ev(_dict_of(t.value))[0], "." + _const_str(t.slice))
                    slot = isinstance(n, ast.Assign) and isinstance(t.value, ast.Name) and rv[0] == frozenset(["self"])
                    out.append(_Eff(fn, n, roots, "store %s" % src(fn, t), "slot" if slot else "store", None))
            if not isinstance(n, ast.Call):
                continue
            f = n.func
            r = a.resolve(n)
            tail = call_tail(n)
            if isinstance(r, tuple):
                for cal in r[0]:
                    if cal.name in stop:
                        continue
                    cenv = a.callee_env(cal, n, r[1])
                    if depth + 1 > _MAXD:
                        if any(_persistent(x) for v in cenv.values() for x in v[0]):
                            self.undecided.append((fn, n, "call chain below %s is too deep to follow" % src(fn, n)))
                        continue
                    for e in self.effects(cal, cenv, depth + 1, a if cal.parent is fn else None, stop):
                        if e.roots:
                            out.append(_Eff(fn, n, e.roots, "%s in %s" % (e.what, short(cal)) if e.kind not in ("via", "via-slot")
                                            else e.what, "via-slot" if e.kind in ("slot", "via-slot") else "via", None))
                continue
            if isinstance(f, ast.Name) and r == "ext" and f.id in ("setattr", "delattr") and n.args:
                nm = n.args[1].value if len(n.args) > 1 and isinstance(n.args[1], ast.Constant) else "*"
                out.append(_Eff(fn, n, _proj(a.ev(n.args[0])[0], ".%s" % nm), "%s(..)" % f.id, "call", None))
                continue
            if tail in _EXT_MUT and n.args and (r == "ext" or r is None):
                out.append(_Eff(fn, n, _proj(a.ev(n.args[0])[0], "[]"), "%s(%s, ..)" % (tail, src(fn, n.args[0])), "call", None))
                continue
            if isinstance(f, ast.Attribute) and r is None:
                rv = a.ev(f.value)
                if f.attr in _MUTATORS:
                    roots = _proj(rv[0], "[]")
                    if _dict_of(f.value) is not None and n.args and _const_str(n.args[0]) is not None \
                            and f.attr in ("setdefault", "pop", "__setitem__", "__delitem__"):
                        roots = _proj(a.ev(_dict_of(f.value))[0], "." + _const_str(n.args[0]))
                    out.append(_Eff(fn, n, roots, "%s.%s(..)" % (src(fn, f.value), f.attr), "call", None))
                elif f.attr not in _PURE_METHODS and any(_persistent(x) or x.startswith("opaque:") for x in rv[0]):
                    self.undecided.append((fn, n, "cannot decide whether %s.%s(..) changes %s" % (
                        src(fn, f.value), f.attr, sorted(rv[0]))))
        return out


def _node_of(cfg):
    m = {}
    for n in cfg.nodes:
        if n.ast is None:
            continue
        if n.kind == "iter":
            m[id(n.ast)] = n
        for e in node_exprs(n):
            for x in own_nodes(e, into_lambda=True):
                m.setdefault(id(x), n)
    return m


def _rejection_follows(cfg, node):
    """Can the call still be rejected (an exception leaves the function) after `node` has completed?"""
    def tr(n, lab, nxt, st):
        return None if (n is node and lab == "exc" and st == 0) else 1
    visited, parent = explore(cfg, 0, tr, start=node)
    for (nid, st) in sorted(visited):
        if nid == cfg.raise_exit.id:
            return witness(cfg, parent, (nid, st))
    return None


def _by_name_access(call, attr) -> bool:
    """getattr / hasattr / vars call that may look at the attribute `attr`."""
    if not (isinstance(call.func, ast.Name) and call.func.id in ("getattr", "hasattr", "vars", "setattr", "delattr")):
        return False
    a1 = call.args[1] if len(call.args) > 1 else None
    return not (isinstance(a1, ast.Constant) and a1.value != attr)


def _loads_attr(cg, fn, attr, seen=None, depth=0):
    """Does fn (or a method it calls on self) read the attribute `attr` (or reach attributes by name)?"""
    seen = seen if seen is not None else set()
    if fn.qual in seen or depth > _MAXD:
        return False
    seen.add(fn.qual)
    for n in func_own_nodes(fn, into_lambda=True):
        if isinstance(n, ast.Attribute) and n.attr in (attr, "__dict__") and \
                (isinstance(n.ctx, ast.Load) or _is_aug_target(fn, n)):
            return True
        if isinstance(n, ast.Call):
            if _by_name_access(n, attr):
                return True
            if isinstance(n.func, ast.Attribute) and attr_path(n.func.value) == "self":
                for cal in cg.resolve(fn, n):
                    if _loads_attr(cg, cal, attr, seen, depth + 1):
                        return True
    return False


def _is_aug_target(fn, node):
    return any(isinstance(x, ast.AugAssign) and x.target is node for x in func_own_nodes(fn))


def _self_closure(cg, fn, depth=_MAXD):
    """fn and the methods it reaches by calls on self."""
    seen, work = {}, [(fn, 0)]
    while work:
        f, d = work.pop()
        if f.qual in seen or d > depth:
            continue
        seen[f.qual] = f
        for n in func_own_nodes(f, into_lambda=True):
            if isinstance(n, ast.Call) and isinstance(n.func, ast.Attribute) and attr_path(n.func.value) == "self":
                for cal in cg.resolve(f, n):
                    work.append((cal, d + 1))
    return seen


def _self_attr_loads(fn):
    return {n.attr for n in func_own_nodes(fn, into_lambda=True) if isinstance(n, ast.Attribute)
            and isinstance(n.ctx, ast.Load) and attr_path(n.value) == "self"}


# ---------------------------------------------------------------------------------------------------------------
# The journal view of set_hashes
#
# The rules above are written against ONE function that stores provisional hashes into the tree, journals every
# store and undoes the journaled stores in a handler.  Two refactorings keep that behaviour and only move it:
#   * helpers: part of the work is done by methods called on self (`self._add_pending(..)`).  They are inlined
#     (parameters replaced by the arguments, locals renamed, the final `return E` turned into an assignment), so
#     that a store inside a helper is paired with the journal entry exactly as if it had been written in place - a
#     helper that collects the indices in a set of its own and hands it back at the end is then seen as what it is:
#     a store that is not journaled when the helper raises.
#   * overlay and commit: provisional hashes go into a dict created by the call (`pending[i] = h`), reads go through
#     a view (`pending[i] if i in pending else self[i]`), and the dict is copied into the tree by a final loop that
#     nothing that can raise follows.  That is rewritten into the journal form it is equivalent to: `pending[i] = h`
#     becomes `self[i] = h; journal_.add(i)`, a view read becomes `self[i]`, a direct read of the tree (which does not
#     see the provisional hashes) becomes `BASE_[i]`, the commit loop is dropped and the region is wrapped in a
#     handler that undoes the journal for every exception.  What the rewrite takes for granted is decided first, on the
#     real control flow graph: the commit loop is not followed by anything that can reject the call (else .1), every
#     key that enters the overlay was used to read the tree before (else a key outside the tree makes the commit
#     loop raise IndexError half-way, .9), and the overlay is used in no other way (else ANALYSIS-ERROR).
# ---------------------------------------------------------------------------------------------------------------
import copy as _copy

_BASE = "BASE_"
_JOURNAL = "journal_"


class _View:
    def __init__(self, fn, orig, shape, pre):
        self.fn, self.orig, self.shape, self.pre = fn, orig, shape, pre


def _tree_slot_store(n) -> bool:
    return isinstance(n, ast.Assign) and any(isinstance(t, ast.Subscript) and not isinstance(t.slice, ast.Slice)
                                             and attr_path(t.value) == "self" for t in n.targets)


def _stores_slots(cg, f) -> bool:
    return any(_tree_slot_store(n) for g in _self_closure(cg, f).values() for n in func_own_nodes(g))


def _clone_func(fn, node, drop_nested=()):
    ast.fix_missing_locations(node)
    v = FuncInfo(fn.module, node, fn.qual, fn.cls, fn.parent)
    for st in own_nodes(node):
        if isinstance(st, (ast.FunctionDef, ast.AsyncFunctionDef)) and st is not node and st.name not in drop_nested:
            v.nested[st.name] = FuncInfo(fn.module, st, fn.qual + "." + st.name, fn.cls, v)
    return v


class _Rename(ast.NodeTransformer):
    def __init__(self, mapping):
        self.mapping = mapping

    def visit_Name(self, n):
        if n.id in self.mapping:
            return ast.copy_location(ast.Name(id=self.mapping[n.id], ctx=n.ctx), n)
        return n


class _ReplaceNode(ast.NodeTransformer):
    def __init__(self, old, new):
        self.old, self.new = old, new

    def visit(self, n):
        if n is self.old:
            return self.new
        return self.generic_visit(n)


def _inline_helpers(idx, fn):
    """set_hashes with the helper methods that write tree slots inlined (fn itself when there are none)."""
    cg = get_callgraph(idx)
    counter = [0]

    def helper_of(call):
        if isinstance(call, ast.Call) and isinstance(call.func, ast.Attribute) and attr_path(call.func.value) == "self" \
                and fn.cls is not None:
            m = fn.cls.lookup(call.func.attr)
            if m is not None and m.name != fn.name and _stores_slots(cg, m):
                return m
        return None

    if not any(helper_of(c) for c in func_own_nodes(fn)):
        return fn

    def instantiate(m, call):
        a = m.node.args
        if a.vararg or a.kwarg or a.kwonlyargs or getattr(a, "posonlyargs", None) or m.decorators() or m.nested \
                or any(isinstance(x, ast.Starred) for x in call.args) or any(k.arg is None for k in call.keywords) \
                or any(isinstance(x, (ast.Yield, ast.YieldFrom, ast.Await, ast.Global, ast.Nonlocal)) for x in func_own_nodes(m)):
            raise AnalysisError("set_hashes: cannot follow the tree stores made inside %s (signature / generator)" % short(m))
        params = [x.arg for x in a.args][1:]
        body = _copy.deepcopy(m.node.body)
        if body and isinstance(body[0], ast.Expr) and isinstance(body[0].value, ast.Constant) and isinstance(body[0].value.value, str):
            body = body[1:]
        rets = [x for st in body for x in own_nodes(st) if isinstance(x, ast.Return)]
        if rets and (len(rets) != 1 or rets[0] is not body[-1]):
            raise AnalysisError("set_hashes: cannot follow the tree stores made inside %s (it returns from the middle)" % short(m))
        counter[0] += 1
        prefix = "%s%d_" % (m.name.strip("_"), counter[0])
        stored = {x.id for st in body for x in own_nodes(st) if isinstance(x, ast.Name) and isinstance(x.ctx, (ast.Store, ast.Del))}
        given = {}
        for k, x in enumerate(call.args):
            if k >= len(params):
                raise AnalysisError("set_hashes: call of %s does not match its signature" % short(m))
            given[params[k]] = x
        for kw in call.keywords:
            given[kw.arg] = kw.value
        nd = len(a.defaults)
        for k, p in enumerate(params):
            j = k + 1 - (len(a.args) - nd)
            if p not in given and j >= 0:
                given[p] = a.defaults[j]
        pre, mapping = [], {}
        for p in params:
            e = given.get(p)
            if e is None:
                raise AnalysisError("set_hashes: call of %s does not match its signature" % short(m))
            if isinstance(e, ast.Name) and p not in stored:
                mapping[p] = e.id
            else:
                mapping[p] = prefix + p
                pre.append(ast.copy_location(ast.Assign(targets=[ast.Name(id=prefix + p, ctx=ast.Store())],
                                                        value=_copy.deepcopy(e)), call))
        for nm in stored:
            if nm not in mapping:
                mapping[nm] = prefix + nm
        body = [_Rename(mapping).visit(st) for st in body]
        repl = None
        if rets:
            last = body.pop()
            if last.value is not None:
                body.append(ast.copy_location(ast.Assign(targets=[ast.Name(id=prefix + "ret", ctx=ast.Store())], value=last.value), last))
                repl = ast.Name(id=prefix + "ret", ctx=ast.Load())
        return pre + body, repl

    changed = [False]

    def expand(stmts):
        out = []
        for st in stmts:
            if isinstance(st, (ast.FunctionDef, ast.AsyncFunctionDef, ast.ClassDef)):
                out.append(st)
                continue
            if any(hasattr(st, f) for f in ("body", "handlers")):
                for fld, val in ast.iter_fields(st):
                    if fld in ("body", "orelse", "finalbody"):
                        setattr(st, fld, expand(val))
                    elif fld == "handlers":
                        for h_ in val:
                            h_.body = expand(h_.body)
                    else:
                        for v in (val if isinstance(val, list) else [val]):
                            if isinstance(v, ast.AST) and any(helper_of(c) for c in own_nodes(v)):
                                raise AnalysisError("set_hashes: a helper that writes tree slots is called in the head of a "
                                                    "compound statement (%s)" % fn.loc(st))
                out.append(st)
                continue
            calls = [c for c in own_nodes(st) if helper_of(c)]
            if not calls:
                out.append(st)
                continue
            changed[0] = True
            c = calls[0]
            pre, repl = instantiate(helper_of(c), c)
            out.extend(pre)
            if isinstance(st, ast.Expr) and st.value is c:
                continue
            out.append(_ReplaceNode(c, repl if repl is not None else ast.Constant(value=None)).visit(st))
        return out

    node = _copy.deepcopy(fn.node)
    for _round in range(4):
        changed[0] = False
        node.body = expand(node.body)
        if not changed[0]:
            break
    else:
        raise AnalysisError("set_hashes: helper calls nest too deeply to follow")
    return _clone_func(fn, node)


def _same(a, b) -> bool:
    return ast.dump(a) == ast.dump(b)


def _tree_at(e):
    """X for the expression self[X]."""
    if isinstance(e, ast.Subscript) and isinstance(e.ctx, ast.Load) and attr_path(e.value) == "self" \
            and not isinstance(e.slice, ast.Slice):
        return e.slice
    return None


def _overlay_at(e, O):
    if isinstance(e, ast.Subscript) and isinstance(e.ctx, ast.Load) and attr_path(e.value) == O:
        return e.slice
    return None


def _membership(test, O):
    """(X, polarity) for `X in O` / `X not in O`."""
    if isinstance(test, ast.Compare) and len(test.ops) == 1 and attr_path(test.comparators[0]) == O:
        if isinstance(test.ops[0], ast.In):
            return test.left, True
        if isinstance(test.ops[0], ast.NotIn):
            return test.left, False
    if isinstance(test, ast.UnaryOp) and isinstance(test.op, ast.Not):
        r = _membership(test.operand, O)
        return (r[0], not r[1]) if r else None
    return None


def _choice(test, a, b, O):
    """X when `a if test else b` reads the overlay at X where it has an entry and the tree at X otherwise."""
    mm = _membership(test, O)
    if not mm:
        return None
    x, pol = mm
    if not pol:
        a, b = b, a
    xa, xb = _overlay_at(a, O), _tree_at(b)
    if xa is not None and xb is not None and _same(xa, x) and _same(xb, x):
        return x
    return None


def _view_read(e, O, views):
    """X when the expression e reads the overlaid tree at X (the provisional hash if there is one, else the slot)."""
    if isinstance(e, ast.Call) and isinstance(e.func, ast.Name) and e.func.id in views and len(e.args) == 1 and not e.keywords \
            and not isinstance(e.args[0], ast.Starred):
        return e.args[0]
    if isinstance(e, ast.Call) and isinstance(e.func, ast.Attribute) and e.func.attr == "get" and attr_path(e.func.value) == O \
            and len(e.args) == 2 and not e.keywords:
        x = _tree_at(e.args[1])
        if x is not None and _same(x, e.args[0]):
            return x
    if isinstance(e, ast.IfExp):
        return _choice(e.test, e.body, e.orelse, O)
    return None


def _is_view_def(d, O) -> bool:
    a = d.args
    if a.vararg or a.kwarg or a.kwonlyargs or a.defaults or len(a.args) != 1 or d.decorator_list:
        return False
    p = a.args[0].arg
    body = list(d.body)
    if body and isinstance(body[0], ast.Expr) and isinstance(body[0].value, ast.Constant):
        body = body[1:]
    x = None
    if len(body) == 1 and isinstance(body[0], ast.Return) and body[0].value is not None:
        x = _view_read(body[0].value, O, ())
    elif len(body) in (1, 2) and isinstance(body[0], ast.If) and len(body[0].body) == 1 and isinstance(body[0].body[0], ast.Return):
        rest = body[0].orelse if len(body) == 1 else body[1:]
        if not (len(body) == 2 and body[0].orelse) and len(rest) == 1 and isinstance(rest[0], ast.Return) \
                and body[0].body[0].value is not None and rest[0].value is not None:
            x = _choice(body[0].test, body[0].body[0].value, rest[0].value, O)
    return isinstance(x, ast.Name) and x.id == p


class _OverlayRewrite(ast.NodeTransformer):
    def __init__(self, O, views):
        self.O, self.views, self.other_uses = O, views, []

    def _self_at(self, x, ctx, like):
        return ast.copy_location(ast.Subscript(value=ast.Name(id="self", ctx=ast.Load()), slice=x, ctx=ctx), like)

    def visit_Call(self, n):
        x = _view_read(n, self.O, self.views)
        if x is not None:
            return self._self_at(self.visit(x), ast.Load(), n)
        return self.generic_visit(n)

    def visit_IfExp(self, n):
        x = _view_read(n, self.O, self.views)
        if x is not None:
            return self._self_at(self.visit(x), ast.Load(), n)
        return self.generic_visit(n)

    def visit_Subscript(self, n):
        if _tree_at(n) is not None:
            return ast.copy_location(ast.Subscript(value=ast.Name(id=_BASE, ctx=ast.Load()), slice=self.visit(n.slice),
                                                   ctx=ast.Load()), n)
        return self.generic_visit(n)

    def visit_Assign(self, n):
        if len(n.targets) == 1 and isinstance(n.targets[0], ast.Subscript) and attr_path(n.targets[0].value) == self.O \
                and not isinstance(n.targets[0].slice, ast.Slice):
            ix = self.visit(n.targets[0].slice)
            st = ast.copy_location(ast.Assign(targets=[self._self_at(ix, ast.Store(), n)], value=self.visit(n.value)), n)
            j = ast.copy_location(ast.Expr(value=ast.Call(func=ast.Attribute(value=ast.Name(id=_JOURNAL, ctx=ast.Load()), attr="add",
                                                                             ctx=ast.Load()), args=[_copy.deepcopy(ix)], keywords=[])), n)
            return [st, j]
        return self.generic_visit(n)

    def visit_FunctionDef(self, n):
        if n.name in self.views:
            return None
        return self.generic_visit(n)

    def visit_Name(self, n):
        if n.id == self.O:
            self.other_uses.append(n)
        return n


def _commit_source(st):
    """O when the loop `st` copies the dict O into the tree slots."""
    if not (isinstance(st, ast.For) and not st.orelse and len(st.body) == 1 and _tree_slot_store(st.body[0])
            and len(st.body[0].targets) == 1):
        return None
    tgt, val = st.body[0].targets[0], st.body[0].value
    it = st.iter
    if isinstance(st.target, ast.Tuple) and len(st.target.elts) == 2 and all(isinstance(x, ast.Name) for x in st.target.elts) \
            and isinstance(it, ast.Call) and call_tail(it) == "items" and isinstance(it.func, ast.Attribute) and not it.args \
            and isinstance(it.func.value, ast.Name):
        k, v = st.target.elts
        if attr_path(tgt.slice) == k.id and attr_path(val) == v.id:
            return it.func.value.id
        return None
    if isinstance(st.target, ast.Name):
        while isinstance(it, ast.Call) and call_tail(it) in ("keys", "list", "sorted", "tuple") and not it.keywords:
            it = it.func.value if (call_tail(it) == "keys" and isinstance(it.func, ast.Attribute)) else (it.args[0] if len(it.args) == 1 else None)
        if isinstance(it, ast.Name) and attr_path(tgt.slice) == st.target.id and isinstance(val, ast.Subscript) \
                and attr_path(val.value) == it.id and attr_path(val.slice) == st.target.id:
            return it.id
    return None


def _build_view(idx, fn0, pre):
    fn = _inline_helpers(idx, fn0)
    cfg = fn.cfg()
    try:
        _journal_name(fn, cfg)
        return _View(fn, fn0, "journal", [])
    except AnchorVanished:
        pass
    stores = [n for n in func_own_nodes(fn) if _tree_slot_store(n)]
    if not stores:
        raise AnchorVanished("set_hashes: no store into the tree slots (self[i] = h) was found")
    where = _node_of(cfg)
    commits = [(st, _commit_source(st)) for st in fn.node.body if _commit_source(st) is not None]
    covered = {id(st.body[0]) for (st, _o) in commits}
    if any(id(s) not in covered for s in stores):
        # neither undone by a handler nor deferred to a final commit: decided only when a rejection can follow a store
        for s in stores:
            if id(s) in covered:
                continue
            cn = where.get(id(s.value)) or where.get(id(s.targets[0]))
            w = _rejection_follows(cfg, cn) if cn is not None else None
            if w is not None:
                pre.append(("1", s, "store %s is neither undone by a handler that resets the journaled slots nor deferred to a final "
                            "commit, and the call can still be rejected afterwards (%s): the unvalidated hash stays in the tree"
                            % (src(fn, s.targets[0]), w.brief()), w))
        if not pre:
            raise AnchorVanished("set_hashes: no handler loop resetting journaled indices to None")
        return _View(None, fn0, "bare", pre)
    os_ = {o for (_s, o) in commits}
    if len(os_) != 1:
        raise AnalysisError("set_hashes: the tree slots are committed from several collections (%s)" % sorted(os_))
    O = os_.pop()
    binds = [k for k, st in enumerate(fn.node.body) if isinstance(st, ast.Assign) and len(st.targets) == 1
             and attr_path(st.targets[0]) == O and ((isinstance(st.value, ast.Dict) and not st.value.keys) or
                                                     (isinstance(st.value, ast.Call) and call_name(st.value) == "dict"
                                                      and not st.value.args and not st.value.keywords))]
    nstores = [x for x in func_own_nodes(fn) if isinstance(x, ast.Name) and x.id == O and isinstance(x.ctx, (ast.Store, ast.Del))]
    if len(binds) != 1 or len(nstores) != 1 or O in fn.params:
        raise AnalysisError("set_hashes: cannot decide that the collection %s the tree is committed from is a dict created by "
                            "this call" % O)
    first_commit = min(k for k, st in enumerate(fn.node.body) if any(st is c for (c, _o) in commits))
    if first_commit < binds[0]:
        raise AnalysisError("set_hashes: the commit loop precedes the creation of %s" % O)
    # (1) nothing that can reject the call follows the first slot written by the commit
    for (st, _o) in commits:
        itn = [n for n in cfg.nodes if n.kind == "iter" and n.ast is st]
        cn = where.get(id(st.body[0].value)) or where.get(id(st.body[0].targets[0]))
        w = _rejection_follows(cfg, cn) if cn is not None else None
        if not itn or cn is None:
            raise AnalysisError("set_hashes: cannot place the commit loop in the control flow graph")
        if w is not None:
            pre.append(("1", st, "the loop that copies the provisional hashes from %s into the tree slots is followed by code that can "
                        "still reject the call (%s), and nothing undoes the slots already written: a rejected offer leaves "
                        "unvalidated hashes in the tree" % (O, w.brief()), w))
    # (2) every key that enters the overlay has been used to read the tree (so it lies inside it)
    fnorm = FlowNorm(fn)
    views = {d.name for d in own_nodes(fn.node) if isinstance(d, ast.FunctionDef) and d is not fn.node and _is_view_def(d, O)}
    for n in cfg.stmt_nodes():
        a = n.ast
        if isinstance(a, ast.Assign) and len(a.targets) == 1 and isinstance(a.targets[0], ast.Subscript) \
                and attr_path(a.targets[0].value) == O:
            ixn = fnorm.norm(n, a.targets[0].slice)
            if ixn.startswith("self.parent("):
                continue

            def reads_tree(m, _ix=ixn):
                for e in node_exprs(m):
                    for x in own_nodes(e):
                        k = _tree_at(x)
                        if k is None and isinstance(x, ast.Call):
                            k = _view_read(x, O, views)
                        if k is not None and fnorm.norm(m, k) == _ix:
                            return True
                return False
            names = names_in(a.targets[0].slice)
            bad = find_path_avoiding(cfg, lambda m, _n=n: m is _n, gate_node=reads_tree)
            if bad:
                pre.append(("9", a, "the key %s enters the overlay %s on a path where the tree was never read at that index (%s): an "
                            "index outside the tree is only noticed by the commit loop, which then raises IndexError after it has "
                            "written some of the slots - a rejected offer leaves unvalidated hashes in the tree"
                            % (ixn, O, bad[0][1].brief()), bad[0][1]))
    # (3) the equivalent journal form
    node = _copy.deepcopy(fn.node)
    body = node.body
    rw = _OverlayRewrite(O, views)
    head = body[:binds[0]]
    region = [st for st in body[binds[0] + 1:first_commit]]
    rest = [st for st in body[first_commit:] if _commit_source(st) is None]
    new_region = []
    for st in region:
        r_ = rw.visit(st)
        new_region.extend(r_ if isinstance(r_, list) else ([r_] if r_ is not None else []))
    for st in head + rest:
        if any(isinstance(x, ast.Name) and x.id == O for x in ast.walk(st)):
            rw.other_uses.append(st)
    if rw.other_uses:
        raise AnalysisError("set_hashes: the overlay %s is used in a way the analysis does not understand (%s): cannot decide what "
                            "the validation reads" % (O, fn.loc(rw.other_uses[0])))
    if not new_region:
        raise AnalysisError("set_hashes: nothing between the creation of the overlay and its commit")
    at = body[binds[0]]
    jbind = ast.copy_location(ast.Assign(targets=[ast.Name(id=_JOURNAL, ctx=ast.Store())],
                                         value=ast.Call(func=ast.Name(id="set", ctx=ast.Load()), args=[], keywords=[])), at)
    last = body[first_commit]
    undo = ast.copy_location(ast.For(target=ast.Name(id="k_", ctx=ast.Store()), iter=ast.Name(id=_JOURNAL, ctx=ast.Load()),
                                     body=[ast.Assign(targets=[ast.Subscript(value=ast.Name(id="self", ctx=ast.Load()),
                                                                             slice=ast.Name(id="k_", ctx=ast.Load()), ctx=ast.Store())],
                                                      value=ast.Constant(value=None))], orelse=[]), last)
    handler = ast.copy_location(ast.ExceptHandler(type=ast.Name(id="BaseException", ctx=ast.Load()), name=None,
                                                  body=[undo, ast.copy_location(ast.Raise(exc=None, cause=None), last)]), last)
    tr = ast.copy_location(ast.Try(body=new_region, handlers=[handler], orelse=[], finalbody=[]), at)
    node.body = head + [jbind, tr] + rest
    for x in ast.walk(node):
        if isinstance(x, ast.stmt) and not hasattr(x, "lineno"):
            ast.copy_location(x, last)
    return _View(_clone_func(fn, node, drop_nested=views), fn0, "overlay", pre)
