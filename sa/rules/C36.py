"""C36 Erasure coding recovers from any k blocks.

Recovery itself is zfec's algebra (undecided).  Decided, at the lowest
strength: the conditions under which the wrapper in codec.py and its callers
hand zfec what it needs (DESIGN.md section 5, C36)."""
from sa.h import *
from sa.rules.C01 import Sym, bind_call_args, codec_share_size, dominated_by, nf, node_of, subst_names, the_call

EXPLANATION = (
    "Decided (wrapper conditions only): (1) zfec.Encoder and zfec.Decoder are built with (required_shares, max_shares) in "
    "that order from the set_params arguments (the construction is found by following the value kept in self.encoder / "
    "self.decoder back through locals, helper functions / methods and caches), and both set_params take (data_size, "
    "required_shares, max_shares); "
    "(2) encoder and decoder derive the same share_size formula and get_block_size returns it; (3) decode hands zfec the "
    "blocks and the share numbers in the caller's order (order-preserving int conversion) only after both length "
    "preconditions; (4) encode checks every input piece against share_size before calling zfec, passes the pieces and the "
    "wanted ids through and returns the ids it used (default: all max_shares ids); (5) the callers (immutable "
    "downloader, mutable retrieve) build the block list and the share-number list pairwise in one loop and truncate "
    "them identically; mutable retrieve decodes exactly the component of _validate_block's {shnum: (block, salt)} entries "
    "that _validate_block checked against the share's block hash tree in every format version (followed back from the "
    "paired loop through dict() / comprehensions / an unpacking loop target), and _validate_block files it under the share "
    "number whose block hash tree it used; the callers of encode (immutable encoder, mutable publish) cut a segment into "
    "exactly k pieces of the codec's block size, padded to that size; (6) the codec objects are shared between segments and encode/decode "
    "give up the reactor turn while zfec runs in the CPU thread pool, so calls overlap: what one call hands to zfec (followed "
    "through helper methods, closures, functools.partial and the thread-pool runners) depends on no instance / class / module "
    "state that encode/decode or anything they run writes and that is read back after the turn was given up (in the thread "
    "pool or after an await); results are returned from the call's own frame (3, 4); (7) the zfec object a codec instance works "
    "with is the encoding matrix of that instance's own (k, N): every origin of the value set_params keeps (every reaching "
    "definition, both arms of conditionals, return values of helpers) is a zfec construction, and any state outliving the "
    "call that the value is taken from or put into on the way (module / class level table, singleton slot, memoising "
    "decorator) is keyed by an expression that depends on both required_shares and max_shares (or on the instance itself); "
    "no other method of the class rebinds the attribute.  Undecided: that any k blocks determine the segment (zfec); "
    "which segment is the tail and the selection of the tail codec, tail sizes and the trimming of the tail padding after "
    "decode (value-level here; the consistent selection is decided by C01.6 for immutable files and by C09.5 / C09.10 for "
    "mutable files - the CRS decoders of one file differ only in data_size, which decode does not use); the salt taken "
    "from the entries; the entries Retrieve.decode receives from the in-place update (only _validate_block's results are "
    "followed); that Retrieve's own `at least k shares` assertion holds (CRSDecoder.decode re-checks `exactly k`, 3).")
TECHNIQUE = ("static analysis: symbolic normal forms of wrapper arguments, CFG gate rules for the preconditions, paired-append "
             "analysis, inter-procedural def-use cone of the zfec arguments against per-call writes to shared state, backward "
             "value-origin trace of the kept zfec object with key-dependence of every cache on the way")

ENC = "codec:CRSEncoder"
DEC = "codec:CRSDecoder"


# ------------------------------------------------------------------ how an entry method reaches zfec
# A function handed to one of these is run later (thread pool): position of the callable among the arguments.
THREAD_RUNNERS = {"defer_to_thread": 0, "deferToThread": 0, "callInThread": 0, "deferToThreadPool": 2,
                  "callInThreadWithCallback": 1, "run_in_executor": 1, "submit": 0}
MUTATORS = ("append", "appendleft", "extend", "extendleft", "insert", "add", "update", "setdefault", "put", "put_nowait",
            "push", "pop", "popleft", "popitem", "get_nowait", "remove", "discard", "clear", "sort", "reverse")
ANY_ATTR = "self.*"


class Route:
    """One way an entry method performs the zfec call: `call` is the call in that method which does it (directly, by
    handing it to the thread pool, or through helper methods / closures), `zargs` are the zfec arguments as ASTs over
    the method's own scope (helper parameters replaced by what the method passes), `exprs` every expression of the
    method whose value flows into them, `reads` the instance attributes read on the way: (path, function, exposed) -
    exposed means the read happens after the call gave up the reactor turn (in the thread pool, or after an await)."""

    def __init__(self, call, zargs, exprs, reads, hops, deferred):
        self.call, self.zargs, self.exprs, self.reads, self.hops, self.deferred = call, zargs, exprs, reads, hops, deferred


def _unpartial(e, args, kws):
    while isinstance(e, ast.Call) and call_tail(e) == "partial" and e.args and not isinstance(e.args[0], ast.Starred):
        args, kws, e = list(e.args[1:]) + list(args), list(e.keywords) + list(kws), e.args[0]
    return e, args, kws


def _invocations(fn):
    """(call, callee expression, positional args, keywords, runs later?) for every call made by fn itself."""
    for c in calls_in_func(fn, None):
        pos = THREAD_RUNNERS.get(call_tail(c))
        if pos is not None:
            if len(c.args) > pos and not any(isinstance(a, ast.Starred) for a in c.args[:pos + 1]):
                yield c, c.args[pos], list(c.args[pos + 1:]), list(c.keywords), True
            continue
        yield c, c.func, list(c.args), list(c.keywords), False


def _callee_func(idx, fn, e):
    if isinstance(e, ast.Lambda):
        return idx.lambda_func(fn, e)
    if isinstance(e, ast.Name):
        f = fn
        while f is not None:
            if e.id in f.nested:
                return f.nested[e.id]
            f = f.parent
    p = attr_path(e)
    if p and p.startswith("self.") and p.count(".") == 1 and fn.cls is not None:
        return fn.cls.lookup(p[5:])
    if isinstance(e, (ast.Name, ast.Attribute)):
        try:
            r = idx.resolve_expr(fn.module, e)
        except Exception:
            r = None
        if isinstance(r, FuncInfo):
            return r
    return None


def _after_suspension(fn, n):
    """Can the CFG node n run after fn has given up the reactor turn (an await / yield on some path before it)?"""
    cfg = fn.cfg()
    susp = [m for m in cfg.nodes if any(isinstance(x, (ast.Await, ast.Yield, ast.YieldFrom)) for e in node_exprs(m)
                                        for x in own_nodes(e))]
    seen, work = set(), [d for m in susp for (d, _l) in cfg.succ[m.id]]
    while work:
        i = work.pop()
        if i in seen:
            continue
        seen.add(i)
        work.extend(d for (d, _l) in cfg.succ[i])
    return n.id in seen


def _inline(sym, node, e):
    """e with the locals of sym.fn replaced by their reaching definitions at node (a list built into a temporary too)."""
    v = sym.expand(node, e)
    if isinstance(v, ast.Name):
        ds = sym.rd.get(node.id, {}).get(v.id, frozenset())
        if len(ds) == 1 and C.PARAM_DEF not in ds:
            v = sym.fnorm._def_value(sym.cfg.nodes[next(iter(ds))], v.id) or v
    return v


def frame_names(f):
    """Names that live in the frame of one call of f (its own and its enclosing functions' parameters and locals);
    anything else - self, module globals, class objects - outlives the call and is shared between overlapping calls."""
    out = set()
    while f is not None:
        glob = {nm for x in func_own_nodes(f) if isinstance(x, ast.Global) for nm in x.names}
        own = set(f.params)
        for x in func_own_nodes(f, into_lambda=True):
            if isinstance(x, ast.Name) and isinstance(x.ctx, (ast.Store, ast.Del)):
                own.add(x.id)
            elif isinstance(x, (ast.FunctionDef, ast.AsyncFunctionDef, ast.ClassDef)):
                own.add(x.name)
            elif isinstance(x, ast.Lambda):
                own.update(a.arg for a in x.args.args)
            elif isinstance(x, ast.ExceptHandler) and x.name:
                own.add(x.name)
        out |= (own - glob) - {"self"}
        f = f.parent
    return out


def shared_path(f, p, frame=None):
    return bool(p) and p.split(".")[0] not in (frame if frame is not None else frame_names(f))


def _cone(fn, exprs):
    """(paths of state shared between calls, bare names) that the values of exprs may depend on inside fn."""
    defs = def_exprs(fn)
    deps = set()
    for e in exprs:
        deps |= depends_on(fn, e, defs=defs)
    frame = frame_names(fn)
    return {p for p in deps if p != "self" and shared_path(fn, p, frame)}, {p for p in deps if "." not in p}


def routes(idx, fn, targets, depth=0, seen=()):
    """Every Route from fn to a call of one of `targets` (attribute paths, in fn's scope, that denote the zfec method)."""
    out = []
    s = Sym(idx, fn)
    for (c, callee, args, kws, deferred) in _invocations(fn):
        try:
            n = node_of(fn, c)
        except AnalysisError:
            continue
        callee, args, kws = _unpartial(callee, args, kws)
        callee, args, kws = _unpartial(s.expand(n, callee), args, kws)
        after = _after_suspension(fn, n)
        if attr_path(callee) in targets:
            exprs = list(args) + [k.value for k in kws]
            zargs = list(args) if not kws and not any(isinstance(a, ast.Starred) for a in args) else []
            out.append(Route(c, zargs, exprs, [(p, fn, after) for p in sorted(_cone(fn, exprs)[0])], [fn], deferred))
            continue
        g = _callee_func(idx, fn, callee)
        if g is None or g is fn or g in seen or depth >= 3:
            continue
        try:
            binding = bind_call_args(g, ast.Call(func=callee, args=args, keywords=kws))
        except AnalysisError:
            continue
        closure = g.parent is not None
        same_self = g.cls is not None and g.cls is fn.cls and bool(g.params) and g.params[0] == "self"
        tg = set(targets) if closure else ({t for t in targets if t.startswith("self.")} if same_self else set())
        for prm, a in binding.items():
            ap = attr_path(s.expand(n, a))
            for t in targets:
                if ap and (t == ap or t.startswith(ap + ".")):
                    tg.add(prm + t[len(ap):])
        if not tg:
            continue
        gs = Sym(idx, g)
        for sub in routes(idx, g, tg, depth + 1, tuple(seen) + (fn,)):
            gn = node_of(g, sub.call)
            zargs = [subst_names(_inline(gs, gn, a), binding) for a in sub.zargs]
            _attrs, names = _cone(g, sub.exprs)
            exprs = zargs + [binding[p] for p in binding if p in names]
            if closure:
                exprs += [ast.Name(id=x, ctx=ast.Load()) for x in sorted(names) if x not in g.params]
            reads = [(p, f, ex or deferred or after) for (p, f, ex) in sub.reads]
            reads += [(p, fn, after) for p in sorted(_cone(fn, exprs)[0])]
            out.append(Route(c, zargs, exprs, reads, [fn] + sub.hops, deferred or sub.deferred))
    return out


def entry_routes(idx, fn, method_path):
    memo = idx.__dict__.setdefault("_c36_routes", {})
    if (fn.qual, method_path) not in memo:
        memo[(fn.qual, method_path)] = routes(idx, fn, {method_path})
    return memo[(fn.qual, method_path)]


def the_route(idx, fn, method_path):
    rs = entry_routes(idx, fn, method_path)
    if len(rs) != 1:
        raise AnchorVanished("%s: expected exactly one call of %s (directly, through the thread pool, a helper method or a "
                             "closure), found %d" % (short(fn), method_path, len(rs)))
    return rs[0]


def per_call_funcs(idx, entry, extra=()):
    """The entry method and every function it can run: its closures, and the methods of its class it mentions."""
    out, work = [], [entry] + list(extra)
    while work:
        f = work.pop()
        if f in out:
            continue
        out.append(f)
        for x in func_own_nodes(f, into_lambda=True):
            if isinstance(x, (ast.FunctionDef, ast.AsyncFunctionDef)) and x.name in f.nested:
                work.append(f.nested[x.name])
            p = attr_path(x) if isinstance(x, ast.Attribute) else None
            if p and p.startswith("self.") and p.count(".") == 1 and f.cls is not None:
                m = f.cls.lookup(p[5:])
                if isinstance(m, FuncInfo):
                    work.append(m)
    return out


def attr_writes(f):
    """(path, AST node) for every write f makes to state that outlives the call: rebinding of an instance / class / module
    attribute or of a global, item stores, deletes, in-place mutation of a container kept there, setattr / __dict__."""
    out = []
    frame = frame_names(f)

    def base_path(b):
        while isinstance(b, ast.Subscript):
            b = b.value
        p = attr_path(b)
        return p if shared_path(f, p, frame) else None
    for x in func_own_nodes(f, into_lambda=True):
        if isinstance(x, (ast.Attribute, ast.Name)) and isinstance(x.ctx, (ast.Store, ast.Del)):
            p = base_path(x)
            if p:
                out.append((p, x))
        elif isinstance(x, ast.Subscript) and isinstance(x.ctx, (ast.Store, ast.Del)):
            p = base_path(x.value)
            if p:
                out.append((p, x))
        elif isinstance(x, ast.Call):
            if isinstance(x.func, ast.Attribute) and x.func.attr in MUTATORS:
                p = base_path(x.func.value)
                if p and p != "self":
                    out.append((p, x))
            elif call_tail(x) in ("setattr", "delattr") and x.args and isinstance(x.args[0], ast.Name) and x.args[0].id == "self":
                nm = x.args[1] if len(x.args) > 1 else None
                out.append(("self." + nm.value if isinstance(nm, ast.Constant) and isinstance(nm.value, str) else ANY_ATTR, x))
    return [(ANY_ATTR if p == "self.__dict__" or p.startswith("self.__dict__.") else p, x) for (p, x) in out]


def order_preserving(e, param):
    """e is `param` itself or [f(x) for x in param] / list(param) / tuple(param) without filter."""
    if isinstance(e, ast.Name) and e.id == param:
        return True
    if isinstance(e, ast.ListComp) and len(e.generators) == 1:
        g = e.generators[0]
        if isinstance(g.iter, ast.Name) and g.iter.id == param and not g.ifs and isinstance(g.target, ast.Name):
            el = e.elt
            if isinstance(el, ast.Name) and el.id == g.target.id:
                return True
            if isinstance(el, ast.Call) and isinstance(el.func, ast.Name) and el.func.id == "int" and len(el.args) == 1 \
                    and isinstance(el.args[0], ast.Name) and el.args[0].id == g.target.id:
                return True
    if isinstance(e, ast.Call) and isinstance(e.func, ast.Name) and e.func.id in ("list", "tuple") and len(e.args) == 1:
        return order_preserving(e.args[0], param)
    return False


# ------------------------------------------------------------------ where the zfec object of a codec instance comes from
# set_params keeps a zfec.Encoder / zfec.Decoder on the instance.  The value kept there is followed backwards - through
# locals (every reaching definition), conditional expressions, helper functions / methods (their return values, with the
# helper's parameters bound to the arguments of the call) - to its *origins*: constructions zfec.X(..), and reads of state
# that outlives the call (a module / class / instance level cache, a memoising decorator).  Everything is expressed over
# the parameters of set_params, so `built from k and N` and `keyed by k and N` are decided whatever the spelling.
MEMO_DECORATORS = ("lru_cache", "cache", "memoize", "memoized", "memoise", "cached")
PLAIN_DECORATORS = ("staticmethod", "classmethod")
ACCESSORS = ("get", "setdefault", "pop")


class Frame:
    """One function on the way from set_params to the zfec construction: set_params itself (parent None) or a helper it
    calls (binding: helper parameter -> argument AST in the parent's scope, call_node: the parent's CFG node of the call)."""

    def __init__(self, idx, fn, parent=None, call_node=None, binding=None):
        self.idx, self.fn, self.parent, self.call_node, self.binding = idx, fn, parent, call_node, dict(binding or {})
        self.sym = Sym(idx, fn, expand_attrs=True)
        self.plain = Sym(idx, fn)
        self.names = frame_names(fn)
        self.top = parent.top if parent is not None else self

    def chain(self):
        f, out = self, []
        while f is not None:
            out.append(f.fn)
            f = f.parent
        return out

    def lift(self, node, e):
        """e (evaluated at node) as an AST over the parameters of set_params: locals are replaced by their definitions,
        instance attributes by what set_params stored in them before the call, helper parameters by the arguments."""
        v = self.sym.expand(node, e)
        if self.parent is None:
            return v
        tag = "@" + self.fn.name
        mapping = dict(self.binding)
        for x in ast.walk(v):
            if isinstance(x, ast.Name) and x.id not in mapping and x.id != "self" and (x.id in self.names or x.id in self.fn.params):
                mapping[x.id] = ast.Name(id=x.id + tag, ctx=ast.Load())         # a local of the helper: not the parent's
        return self.parent.lift(self.call_node, subst_names(v, mapping))

    def deps(self, node, e):
        """The names / attribute paths (over set_params' scope) the value of e at node may depend on: also through
        locals with several definitions (flow-insensitive closure inside this function)."""
        parts = [e]
        for p in sorted(depends_on(self.fn, e)):
            if (p in self.fn.params and p != "self") or p.startswith("self."):
                parts.append(ast.parse(p, mode="eval").body)
        out = set()
        for x in parts:
            out |= leaves(self.lift(node, x))
        return out


class Origin:
    """kind 'ctor': expr is a call zfec.X(..) (name: the resolved dotted name); 'memo': expr reads state that outlives the
    call - path, under keys (ASTs at `node`; none for a bare attribute / global); 'opaque': not understood (why)."""

    def __init__(self, kind, frame, node, expr, name=None, path=None, keys=(), why=""):
        self.kind, self.frame, self.node, self.expr, self.name, self.path, self.keys, self.why = \
            kind, frame, node, expr, name, path, list(keys), why


def _resolved_call_name(module, call):
    p = call_name(call) or ""
    head, _dot, rest = p.partition(".")
    full = module.imports.get(head)
    return (full + ("." + rest if rest else "")) if full else p


def _peel(e):
    """container[k1][k2] / container.get(k1)[k2] / ... -> (container expression, [k1, k2], [default values])."""
    keys, dflt, cur = [], [], e
    while True:
        if isinstance(cur, ast.Subscript):
            keys.insert(0, cur.slice)
            cur = cur.value
        elif isinstance(cur, ast.Call) and isinstance(cur.func, ast.Attribute) and cur.func.attr in ACCESSORS and cur.args \
                and not cur.keywords and not any(isinstance(a, ast.Starred) for a in cur.args):
            if not keys:                # the outermost accessor: its default is a possible result (inner ones: a sub-table)
                dflt.extend(cur.args[1:2])
            keys.insert(0, cur.args[0])
            cur = cur.func.value
        else:
            return cur, keys, dflt


def _is_table(v):
    return isinstance(v, (ast.Dict, ast.DictComp)) or (isinstance(v, ast.Call) and call_tail(v) in (
        "dict", "defaultdict", "OrderedDict", "WeakValueDictionary"))


def _memo_fills(frame, path):
    """(CFG node, keys, stored value, target AST) for every store the function makes into the shared container / slot."""
    out, fn = [], frame.fn
    for n in fn.cfg().nodes:
        if n.kind == "stmt" and isinstance(n.ast, (ast.Assign, ast.AnnAssign)) and getattr(n.ast, "value", None) is not None:
            for t in (n.ast.targets if isinstance(n.ast, ast.Assign) else [n.ast.target]):
                if isinstance(t, ast.Subscript):
                    base, keys, _d = _peel(frame.plain.expand(n, ast.Subscript(value=t.value, slice=t.slice, ctx=ast.Load())))
                    if attr_path(base) == path and not _is_table(n.ast.value):
                        out.append((n, keys, n.ast.value, t))
                elif isinstance(t, (ast.Name, ast.Attribute)) and attr_path(t) == path:
                    out.append((n, [], n.ast.value, t))
        for c in node_calls(n):
            if isinstance(c.func, ast.Attribute) and c.func.attr in ("setdefault", "update", "__setitem__"):
                base, keys, _d = _peel(frame.plain.expand(n, c.func.value))
                if attr_path(base) != path:
                    continue
                if c.func.attr == "update" or len(c.args) != 2 or c.keywords:
                    out.append((n, None, None, c))
                elif _is_table(c.args[1]):
                    continue            # creates the next level of a nested table, not an entry
                else:
                    out.append((n, keys + [c.args[0]], c.args[1], c))
    return out


def coder_origins(frame, node, e, out, seen, depth=0):
    """Append to `out` the origins of the value of e at node (see the section comment)."""
    fn = frame.fn
    if depth > 16:
        out.append(Origin("opaque", frame, node, e, why="definitions nested too deeply"))
        return
    while isinstance(e, ast.Await):
        e = e.value
    if isinstance(e, ast.Constant) and e.value is None:
        return
    if isinstance(e, ast.IfExp):
        coder_origins(frame, node, e.body, out, seen, depth + 1)
        coder_origins(frame, node, e.orelse, out, seen, depth + 1)
        return
    if isinstance(e, ast.BoolOp):
        for v in e.values:
            coder_origins(frame, node, v, out, seen, depth + 1)
        return
    if isinstance(e, ast.NamedExpr):
        coder_origins(frame, node, e.value, out, seen, depth + 1)
        return
    if isinstance(e, ast.Name):
        if shared_path(fn, e.id, frame.names):
            out.append(Origin("memo", frame, node, e, path=e.id))            # a module global / `global` name
            return
        defs = frame.plain.rd.get(node.id, {}).get(e.id)
        if not defs:
            out.append(Origin("opaque", frame, node, e, why="%s has no definition here" % e.id))
            return
        for d in sorted(defs, key=str):
            if (id(frame), d, e.id) in seen:
                continue
            seen.add((id(frame), d, e.id))
            if d == C.PARAM_DEF:
                if frame.parent is not None and e.id in frame.binding:
                    coder_origins(frame.parent, frame.call_node, frame.binding[e.id], out, seen, depth + 1)
                else:
                    out.append(Origin("opaque", frame, node, e, why="it is the parameter %s of %s" % (e.id, short(fn))))
                continue
            dn = frame.plain.cfg.nodes[d]
            v = frame.plain.fnorm._def_value(dn, e.id)
            if v is None:
                out.append(Origin("opaque", frame, dn, e, why="%s is bound by %s" % (e.id, src(fn, dn.ast))))
            else:
                coder_origins(frame, dn, v, out, seen, depth + 1)
        return
    if isinstance(e, ast.Call):
        full = _resolved_call_name(fn.module, e)
        if full.startswith("zfec."):
            out.append(Origin("ctor", frame, node, e, name=full))
            return
    if isinstance(e, (ast.Subscript, ast.Call, ast.Attribute)):
        base, keys, dflt = _peel(frame.plain.expand(node, e))
        p = attr_path(base)
        if (keys or isinstance(e, ast.Attribute)) and p and p != "self" and shared_path(fn, p, frame.names):
            out.append(Origin("memo", frame, node, e, path=p, keys=keys))
            for v in dflt:
                coder_origins(frame, node, v, out, seen, depth + 1)
            return
    if isinstance(e, ast.Call):
        g = _callee_func(frame.idx, fn, e.func)
        if g is None or g in frame.chain():
            out.append(Origin("opaque", frame, node, e, why="the callee of %s is not a function of the package" % src(fn, e)))
            return
        try:
            binding = bind_call_args(g, e)
        except AnalysisError as err:
            out.append(Origin("opaque", frame, node, e, why=str(err)))
            return
        decos = [call_tail(d) if isinstance(d, ast.Call) else (attr_path(d) or "?").split(".")[-1] for d in g.node.decorator_list]
        if any(d in MEMO_DECORATORS for d in decos):
            # a memoising decorator keys the stored result by the arguments of the call
            out.append(Origin("memo", frame, node, e, path="%s (memoised by @%s)" % (short(g), [d for d in decos if d in MEMO_DECORATORS][0]),
                              keys=list(e.args) + [k.value for k in e.keywords] + (
                                  [ast.Name(id="self", ctx=ast.Load())] if attr_path(e.func) and attr_path(e.func).startswith("self.") else [])))
        elif any(d not in PLAIN_DECORATORS for d in decos):
            out.append(Origin("opaque", frame, node, e, why="%s is wrapped by @%s" % (short(g), ", @".join(decos))))
            return
        sub = Frame(frame.idx, g, frame, node, binding)
        rets = [t for t in g.cfg().find(is_return) if t.ast.value is not None]
        if not rets or g.node.__class__ is ast.AsyncFunctionDef or any(isinstance(x, (ast.Yield, ast.YieldFrom)) for x in func_own_nodes(g)):
            out.append(Origin("opaque", frame, node, e, why="%s does not plainly return a value" % short(g)))
            return
        for t in rets:
            coder_origins(sub, t, t.ast.value, out, seen, depth + 1)
        return
    out.append(Origin("opaque", frame, node, e, why="%s is not a construction, a lookup or a call of a helper" % src(fn, e)))


def coder_trace(idx, clsq, attr):
    """(set_params, the CFG nodes that store the coder attribute, origins of the stored values) - the origins include what
    the function that reads a cache also stores into it."""
    memo = idx.__dict__.setdefault("_c36_coder", {})
    if clsq in memo:
        return memo[clsq]
    fn = idx.func(clsq + ".set_params")
    st = [nd for nd in fn.cfg().nodes if attr in node_stores(nd)]
    if not st:
        raise AnchorVanished("%s no longer stores %s" % (short(fn), attr))
    top = Frame(idx, fn)
    out, seen = [], set()
    for nd in st:
        v = assign_value(nd, attr)
        if v is None:
            out.append(Origin("opaque", top, nd, nd.ast, why="%s is not bound by a plain assignment" % attr))
        else:
            coder_origins(top, nd, v, out, seen)
    # what is put into a cache that is read on the way is an origin as well
    done, i = set(), 0
    fills = {}
    while i < len(out):
        o = out[i]
        i += 1
        if o.kind != "memo" or "(" in o.path or (id(o.frame), o.path) in done:
            continue
        done.add((id(o.frame), o.path))
        fills[(id(o.frame), o.path)] = fs = _memo_fills(o.frame, o.path)
        for (n, keys, v, t) in fs:
            if v is not None:
                coder_origins(o.frame, n, v, out, seen)
    # other methods of the class must leave the attribute alone (None as a placeholder is fine)
    other = []
    for m in fn.cls.methods.values():
        if m is fn:
            continue
        for nd in m.cfg().nodes:
            if attr in node_stores(nd):
                v = assign_value(nd, attr)
                if not (isinstance(v, ast.Constant) and v.value is None):
                    other.append((m, nd))
    memo[clsq] = (fn, st, out, fills, other)
    return memo[clsq]


def run_ctor(ctx, r):
    idx = ctx.idx
    sigs = []
    for clsq, ctor, attr in ((ENC, "Encoder", "self.encoder"), (DEC, "Decoder", "self.decoder")):
        fn = idx.func(clsq + ".set_params")
        ps = first_positional_params(fn)
        sigs.append(ps)
        if len(ps) != 3:
            raise AnchorVanished("%s.set_params signature changed: %s" % (clsq, ps))
        _fn, st, origins, _fills, _other = coder_trace(idx, clsq, attr)
        ctors = [o for o in origins if o.kind == "ctor"]
        if not ctors:
            raise AnchorVanished("%s: no construction of a zfec object reaches %s (directly, through locals or a helper)" % (short(fn), attr))
        for o in ctors:
            c, g = o.expr, o.frame.fn
            r.site(g, c, "zfec.%s(k, n)" % ctor)
            args = list(c.args) + [None] * (2 - len(c.args)) if len(c.args) <= 2 else list(c.args)
            for kw in c.keywords:
                if kw.arg in ("k", "m") and len(args) == 2 and args["km".index(kw.arg)] is None:
                    args["km".index(kw.arg)] = kw.value
                else:
                    args.append(kw.value)
            got = [nf(o.frame.lift(o.node, a)) if a is not None else "?" for a in args]
            r.require(got == [ps[1], ps[2]], g, g.loc(c), "zfec.%s is built with (%s), not (%s, %s) of %s" % (
                ctor, ", ".join(got), ps[1], ps[2], short(fn)))
            r.require(o.name == "zfec." + ctor, g, g.loc(c), "%s builds %s, not zfec.%s, for %s" % (short(g), o.name, ctor, attr))
        r.require(len(st) == 1, fn, fn.loc(st[0].ast), "%s is stored at %d places in %s" % (attr, len(st), short(fn)))
        # the parameters kept for later use are the ones given
        for a, p in (("self.required_shares", ps[1]), ("self.max_shares", ps[2]), ("self.data_size", ps[0])):
            sv = Sym(idx, fn).attr_stores().get(a)
            r.require(sv is not None and nf(sv[1]) == p, fn, fn.loc(sv[0].ast if sv else None), "%s is not set from %s" % (a, p))
    r.require(sigs[0] == sigs[1], idx.func(DEC + ".set_params"), idx.func(DEC + ".set_params").loc(),
              "encoder and decoder set_params take different parameter orders: %s vs %s" % (sigs[0], sigs[1]))


def run_coder_source(ctx, r):
    """A zfec.Encoder / zfec.Decoder is the encoding matrix of ONE (k, N): rows 0..N-1.  A codec instance set up for
    (k, N) must therefore work with a zfec object built from exactly its own k and N.  Taking the object from state that
    outlives set_params (a module / class level cache, a memoised factory, a shared singleton) is only sound when the
    lookup key determines both parameters: under a key of k alone the object of the first N seen is handed to every later
    (k, N'), and a share number >= the smaller N is decoded (encoded) against rows the matrix does not have - silently."""
    idx = ctx.idx
    for clsq, ctor, attr in ((ENC, "Encoder", "self.encoder"), (DEC, "Decoder", "self.decoder")):
        fn, st, origins, fills, other = coder_trace(idx, clsq, attr)
        ps = first_positional_params(fn)
        if len(ps) != 3:
            raise AnchorVanished("%s.set_params signature changed: %s" % (clsq, ps))
        need = [ps[1], ps[2]]
        r.site(fn, st[0].ast, "%s is a zfec.%s of this instance's (k, N): %d origin(s)" % (attr, ctor, len(origins)))
        r.count(len(origins))
        for (m, nd) in other:
            raise AnalysisError("%s is also bound in %s (%s): cannot decide which zfec object the instance works with" % (
                attr, short(m), src(m, nd.ast)))
        reported = set()

        def check_key(o_frame, node, keys, where, path, verb):
            g = o_frame.fn
            deps = set()
            for k in keys:
                deps |= o_frame.deps(node, k)
            if "self" in deps:           # keyed by the instance itself: as good as an attribute of the instance
                return
            missing = [p for p in need if p not in deps]
            if missing and (g.qual, path) not in reported:
                reported.add((g.qual, path))
                have = [p for p in need if p in deps]
                r.violation(g, g.loc(where), "the zfec.%s kept in %s by %s is %s %s%s, which outlives the instance, %s: not by %s. "
                            "The object built for the first (%s, %s) seen is handed to every later instance that differs in %s, "
                            "and share numbers beyond its matrix are %sd against the wrong rows without an error" % (
                                ctor, attr, short(fn), verb, path,
                                (" [%s]" % ", ".join(src(g, k) for k in keys)) if keys and all(hasattr(k, "lineno") for k in keys) else "",
                                ("keyed by %s only" % " and ".join(have)) if have else "under a key that depends on neither %s nor %s" % tuple(need),
                                " / ".join(missing), ps[1], ps[2], " / ".join(missing), ctor.lower()[:-1]))
        for o in origins:
            g = o.frame.fn
            if o.kind == "opaque":
                raise AnalysisError("%s: cannot follow the value kept in %s back to a zfec construction: %s (%s)" % (
                    short(g), attr, src(g, o.expr), o.why))
            if o.kind != "memo":
                continue
            check_key(o.frame, o.node, o.keys, o.expr, o.path, "taken from")
            if "(" in o.path:            # memoising decorator: filled by the helper's own return value (followed above)
                continue
            fs = fills.get((id(o.frame), o.path), [])
            if not fs:
                raise AnalysisError("%s reads the zfec object from %s but does not fill it: cannot decide what it holds" % (short(g), o.path))
            for (n, keys, v, t) in fs:
                if keys is None:
                    raise AnalysisError("%s fills %s by %s: cannot follow" % (short(g), o.path, src(g, t)))
                check_key(o.frame, n, keys, t, o.path, "stored in")


def run_share_size(ctx, r):
    idx = ctx.idx
    efn, en, ee = codec_share_size(idx, "CRSEncoder")
    dfn, dn, de = codec_share_size(idx, "CRSDecoder")
    ep, dp = first_positional_params(efn), first_positional_params(dfn)
    a = nf(ee, {ep[0]: "DATA", ep[1]: "K", ep[2]: "N"})
    b = nf(de, {dp[0]: "DATA", dp[1]: "K", dp[2]: "N"})
    r.site(efn, en.ast, "encoder share_size = %s" % a)
    r.site(dfn, dn.ast, "decoder share_size = %s" % b)
    r.count(2)
    r.require(a == b, dfn, dfn.loc(dn.ast), "the encoder produces blocks of %s bytes but the decoder expects %s" % (a, b))
    r.require(a == "div_ceil(DATA, K)", efn, efn.loc(en.ast), "block size is %s, not ceil(data_size / k): k blocks would not "
              "cover the segment" % a)
    gb = idx.func(ENC + ".get_block_size")
    rets = gb.cfg().find(is_return)
    r.require(len(rets) == 1 and nf(rets[0].ast.value) == "self.share_size", gb, gb.loc(), "get_block_size does not return share_size")


def run_decode(ctx, r):
    idx = ctx.idx
    fn = idx.func(DEC + ".decode")
    ps = first_positional_params(fn)
    if len(ps) != 2:
        raise AnchorVanished("CRSDecoder.decode signature changed")
    cfg = fn.cfg()
    fnorm = FlowNorm(fn)
    s = Sym(idx, fn)
    # what one call, taken alone, hands to zfec: helper parameters are replaced by what decode passes, attributes
    # stored earlier in decode by the stored value (whether such an attribute may carry per-call data is C36.6)
    sa = Sym(idx, fn, expand_attrs=True)
    rt = the_route(idx, fn, "self.decoder.decode")
    c, zargs = rt.call, rt.zargs
    n = node_of(fn, c)
    r.site(fn, c, "zfec decode(blocks, ids)")
    ids = _inline(sa, n, zargs[1]) if len(zargs) == 2 else None
    ok = len(zargs) == 2 and nf(sa.expand(n, zargs[0])) == ps[0] and order_preserving(ids, ps[1])
    r.require(ok, fn, fn.loc(c), "zfec is given (%s): blocks and share numbers are not passed in the caller's order" % (
        ", ".join(src(fn, a) for a in zargs)))
    for want, what in ((("len(%s)" % ps[0], "len(%s)" % ps[1]), "as many share numbers as blocks"),
                       (("len(%s)" % ps[0], "self.required_shares"), "exactly k blocks")):
        def gate(q, lab, _w=want):
            f = fnorm.edge_fact(q, lab)
            return bool(f) and f[0] == "==" and {f[1], f[2]} == set(_w) and q.assume
        r.site(fn, None, "precondition: " + what)
        for (t, w) in find_path_avoiding(cfg, lambda q: q is n, gate_edge=gate):
            r.violation(fn, fn.loc(c), "zfec decode can run without checking for %s" % what, w)
    # the result of the zfec call is what decode returns
    rets = cfg.find(is_return)
    for t in rets:
        v = s.expand(t, t.ast.value)
        while isinstance(v, ast.Await):
            v = v.value
        r.require(isinstance(v, ast.Call) and ast.dump(v) == ast.dump(s.expand(n, c)), fn, fn.loc(t.ast), "decode returns %s" % src(fn, t.ast.value))
    gn = idx.func(DEC + ".get_needed_shares")
    rr = gn.cfg().find(is_return)
    r.require(len(rr) == 1 and nf(rr[0].ast.value) == "self.required_shares", gn, gn.loc(), "get_needed_shares does not return k")


def run_encode(ctx, r):
    idx = ctx.idx
    fn = idx.func(ENC + ".encode")
    ps = first_positional_params(fn)
    cfg = fn.cfg()
    fnorm = FlowNorm(fn)
    s = Sym(idx, fn)
    sa = Sym(idx, fn, expand_attrs=True)
    rt = the_route(idx, fn, "self.encoder.encode")
    c, zargs = rt.call, rt.zargs
    n = node_of(fn, c)
    r.site(fn, c, "zfec encode(pieces, ids)")
    r.require(len(zargs) == 2 and nf(sa.expand(n, zargs[0])) == ps[0] and nf(sa.expand(n, zargs[1])) == ps[1], fn, fn.loc(c),
              "zfec encode is given (%s), not the pieces and the wanted share ids" % ", ".join(src(fn, a) for a in zargs))
    # every piece is checked against share_size before the call
    loops = [q for q in cfg.nodes if q.kind == "iter" and nf(q.ast.iter) == ps[0] and isinstance(q.ast.target, ast.Name)]
    checked = None
    for lp in loops:
        tgt = lp.ast.target.id
        tests = [q for q in cfg.nodes if q.kind == "test" and q.assume]

        def is_check(q, _t=tgt):
            if not (q.kind == "test" and q.assume):
                return False
            for (d, lab) in cfg.succ[q.id]:
                f = fnorm.edge_fact(q, lab)
                if isinstance(lab, tuple) and lab[0] == "T" and f and f[0] == "==" and {f[1], f[2]} == {"len(%s)" % _t, "self.share_size"}:
                    return True
            return False
        if not any(is_check(q) for q in tests):
            continue
        # every iteration passes the check before the next one / the loop exit
        body = [cfg.nodes[d] for (d, lab) in cfg.succ[lp.id] if lab == "iter"]
        bad = False
        for b in body:
            if is_check(b):
                continue
            vis, _p = explore(cfg, 0, lambda a_, l_, nx, st_: None if is_check(a_) or l_ == "exc" else 0, start=b)
            if any(cfg.nodes[i] is lp or cfg.nodes[i].kind == "exit" for (i, _s) in vis):
                bad = True
        if not bad and dominated_by_done(cfg, lp, n):
            checked = lp
    r.site(fn, checked.ast if checked else None, "every piece has share_size bytes")
    r.require(checked is not None, fn, fn.loc(c), "zfec encode can run on pieces whose length was not checked against share_size")
    # ids: default all, returned as used
    dflt = [q for q in cfg.nodes if q.kind == "stmt" and ps[1] in node_stores(q)]
    okd = len(dflt) == 1 and nf(assign_value(dflt[0], ps[1])) == "list(range(self.max_shares))"

    def is_none(q, lab):
        f = fnorm.edge_fact(q, lab)
        return bool(f) and f[0] == "is" and {f[1], f[2]} == {"None", ps[1]}
    okd = okd and not find_path_avoiding(cfg, lambda q: q is dflt[0], gate_edge=is_none)
    r.site(fn, dflt[0].ast if dflt else None, "default ids = all shares")
    r.require(okd, fn, fn.loc(dflt[0].ast if dflt else None), "the default share ids are not list(range(max_shares)) under `ids is None`")
    for t in cfg.find(is_return):
        v = t.ast.value
        okr = isinstance(v, ast.Tuple) and len(v.elts) == 2 and nf(v.elts[1]) == ps[1]
        if okr:
            e0 = s.expand(t, v.elts[0])
            while isinstance(e0, ast.Await):
                e0 = e0.value
            okr = isinstance(e0, ast.Call) and ast.dump(e0) == ast.dump(s.expand(n, c))
        r.require(okr, fn, fn.loc(t.ast), "encode returns %s, not (blocks from zfec, the ids they belong to)" % src(fn, v))


def dominated_by_done(cfg, loop, target):
    """Every path to `target` leaves `loop` through its 'done' edge."""
    def gate(q, lab):
        return q is loop and lab == "done"
    return not find_path_avoiding(cfg, lambda q: q is target, gate_edge=gate)


def paired_lists(r, fn, call, what):
    """decode(A, B): A and B are lists filled pairwise in one loop from one (id, block) pair and truncated alike."""
    a0, a1 = call.args[0], call.args[1]
    ok = isinstance(a0, ast.Name) and isinstance(a1, ast.Name) and a0.id != a1.id
    r.require(ok, fn, fn.loc(call), "%s: decode is not given two list variables: %s" % (what, src(fn, call)))
    if not ok:
        return
    cfg = fn.cfg()
    apps = {a0.id: [], a1.id: []}
    for q in cfg.nodes:
        for c in node_calls(q):
            if call_tail(c) == "append" and isinstance(c.func.value, ast.Name) and c.func.value.id in apps and len(c.args) == 1:
                apps[c.func.value.id].append((q, c))
    r.require(len(apps[a0.id]) == 1 and len(apps[a1.id]) == 1, fn, fn.loc(call), "%s: blocks / share numbers are appended at %d / %d "
              "places" % (what, len(apps[a0.id]), len(apps[a1.id])))
    if len(apps[a0.id]) != 1 or len(apps[a1.id]) != 1:
        return
    (qa, ca), (qb, cb) = apps[a0.id][0], apps[a1.id][0]
    loops = [q for q in cfg.nodes if q.kind == "iter" and any(x is ca for x in ast.walk(q.ast)) and any(x is cb for x in ast.walk(q.ast))]
    inner = None
    for lp in loops:
        if inner is None or any(x is lp.ast for x in ast.walk(inner.ast)):
            inner = lp
    # the loop target is (shnum, block) or (shnum, (block, ...)): the value may be unpacked in the target
    okl = inner is not None and isinstance(inner.ast.target, ast.Tuple) and len(inner.ast.target.elts) == 2 \
        and isinstance(inner.ast.target.elts[0], ast.Name) \
        and (isinstance(inner.ast.target.elts[1], ast.Name) or (isinstance(inner.ast.target.elts[1], ast.Tuple) and all(
            isinstance(e, ast.Name) for e in inner.ast.target.elts[1].elts))) \
        and isinstance(inner.ast.iter, ast.Call) and call_tail(inner.ast.iter) == "items"
    r.require(okl, fn, fn.loc(call), "%s: blocks and share numbers are not collected in one loop over (shnum, block) items" % what)
    if not okl:
        return
    kname, vt, comps0 = inner.ast.target.elts[0].id, inner.ast.target.elts[1], []
    if isinstance(vt, ast.Name):
        vname = vt.id
    else:
        parts = [e.id for e in vt.elts]
        vname = nf(ca.args[0]) if nf(ca.args[0]) in parts and parts.count(nf(ca.args[0])) == 1 else "one of (%s)" % ", ".join(parts)
        comps0 = [parts.index(vname)] if vname in parts else []
    r.require(nf(ca.args[0]) == vname and nf(cb.args[0]) == kname, fn, fn.loc(ca),
              "%s: decode(blocks=%s, ids=%s) but the loop appends %s to the blocks and %s to the ids (loop yields (%s, %s))" % (
                  what, a0.id, a1.id, nf(ca.args[0]), nf(cb.args[0]), kname, vname))
    # pairwise: from either append, the other one is passed before the next iteration
    for (q1, q2) in ((qa, qb), (qb, qa)):
        for b in [cfg.nodes[d] for (d, lab) in cfg.succ[inner.id] if lab == "iter"]:
            vis, _p = explore(cfg, 0, lambda a_, l_, nx, st_, _q=q1: None if a_ is _q or l_ == "exc" else 0, start=b)
            if b is not q1 and any(cfg.nodes[i] is inner or cfg.nodes[i].kind == "exit" for (i, _s) in vis):
                r.violation(fn, fn.loc(q1.ast), "%s: an iteration can skip one of the two appends: blocks and share numbers get "
                            "out of step" % what)
    # in-place reordering of one list breaks the pairing
    for q in cfg.nodes:
        for c in node_calls(q):
            if isinstance(c.func, ast.Attribute) and isinstance(c.func.value, ast.Name) and c.func.value.id in apps \
                    and c.func.attr in ("sort", "reverse", "pop", "remove", "insert", "extend", "clear"):
                r.violation(fn, fn.loc(c), "%s: %s.%s() changes one of the two paired lists" % (what, c.func.value.id, c.func.attr))
    # truncations / rebinding between the loop and decode must be identical for both lists
    trunc = {}
    for q in cfg.nodes:
        if q.kind == "stmt" and isinstance(q.ast, ast.Assign) and len(q.ast.targets) == 1 and isinstance(q.ast.targets[0], ast.Name) \
                and q.ast.targets[0].id in apps and not isinstance(q.ast.value, (ast.List,)):
            nm = q.ast.targets[0].id
            v = q.ast.value
            form = None
            if isinstance(v, ast.Subscript) and isinstance(v.value, ast.Name) and v.value.id == nm and isinstance(v.slice, ast.Slice):
                form = nf(v.slice)
            trunc.setdefault(nm, []).append(form if form is not None else "?" + nf(v))
    r.require(trunc.get(a0.id, []) == trunc.get(a1.id, []) and not any(x.startswith("?") for x in trunc.get(a0.id, [])), fn, fn.loc(call),
              "%s: blocks are cut with %s but share numbers with %s" % (what, trunc.get(a0.id, []), trunc.get(a1.id, [])))
    return inner, comps0


def pair_source(idx, fn, loop, comps0=()):
    """Where the (share number, value) pairs that `loop` iterates come from.  Followed backwards through `.items()`,
    dict(...) / list(...) / tuple(...), single reaching definitions and comprehensions `(k, v[i]) for k, v in M.items()` /
    `{k: v[i] for k, v in M.items()}` to a parameter or a container that fn fills itself.  Returns (source expression,
    component path, the comprehension that selects the component or None): the component path is the list of constant
    subscripts applied to a value of the source mapping to get what is decoded.  None: a step was not understood."""
    sym = Sym(idx, fn)
    node, e, comps, where = loop, loop.ast.iter, list(comps0), None
    for _step in range(12):
        if isinstance(e, ast.Call) and isinstance(e.func, ast.Attribute) and e.func.attr == "items" and not e.args and not e.keywords:
            e = e.func.value
        elif isinstance(e, ast.Call) and isinstance(e.func, ast.Name) and e.func.id in ("dict", "list", "tuple") and len(e.args) == 1 \
                and not e.keywords and not isinstance(e.args[0], ast.Starred):
            e = e.args[0]
        elif isinstance(e, ast.Name):
            ds = sym.rd.get(node.id, {}).get(e.id, frozenset())
            if len(ds) != 1 or C.PARAM_DEF in ds:
                return e, comps, where
            dn = sym.cfg.nodes[next(iter(ds))]
            v = sym.fnorm._def_value(dn, e.id)
            if v is None:
                return None
            if isinstance(v, (ast.Dict, ast.List)) or (isinstance(v, ast.Call) and not v.args and not v.keywords):
                return e, comps, where          # a container fn fills itself (update / item stores)
            node, e = dn, v
        elif isinstance(e, (ast.ListComp, ast.GeneratorExp, ast.DictComp)):
            if len(e.generators) != 1:
                return None
            g = e.generators[0]
            if not (isinstance(g.target, ast.Tuple) and len(g.target.elts) == 2 and all(isinstance(t, ast.Name) for t in g.target.elts)):
                return None
            kn, vn = [t.id for t in g.target.elts]
            if isinstance(e, ast.DictComp):
                ke, ve = e.key, e.value
            elif isinstance(e.elt, ast.Tuple) and len(e.elt.elts) == 2:
                ke, ve = e.elt.elts
            else:
                return None
            here = []
            while isinstance(ve, ast.Subscript) and isinstance(ve.slice, ast.Constant) and isinstance(ve.slice.value, int):
                here.insert(0, ve.slice.value)
                ve = ve.value
            if not (isinstance(ke, ast.Name) and ke.id == kn and isinstance(ve, ast.Name) and ve.id == vn):
                return None
            if here and where is None:
                where = e
            comps, e = here + comps, g.iter
        else:
            return None
    return None


def run_validated_blocks(idx, r, fn, loop, comps0, what):
    """Mutable retrieve: _decode_blocks receives the dicts {shnum: (block, salt)} that _validate_block returns.  What it
    decodes must be the component that _validate_block checked against the share's block hash tree, filed under the
    number of that share: the salt (or any other component) is not a block, and a block filed under another number is
    handed to zfec with the wrong share id."""
    got = pair_source(idx, fn, loop, comps0)
    if got is None:
        raise AnchorVanished("%s: cannot follow the (share number, block) pairs of %s back to their source" % (what, short(fn)))
    source, comps, where = got
    if not set(first_positional_params(fn)) & depends_on(fn, source):
        raise AnchorVanished("%s: the decoded pairs (%s) do not come from the arguments of %s" % (what, src(fn, source), short(fn)))
    vb = idx.func("mutable.retrieve:Retrieve._validate_block")
    vs = Sym(idx, vb)
    rets = [t for t in vb.cfg().find(is_return) if t.ast.value is not None]
    hashed = [(c, args) for (c, callee, args, _k, _d) in _invocations(vb) if (attr_path(callee) or "").split(".")[-1] == "block_hash"]
    trees = [x for x in func_own_nodes(vb) if isinstance(x, ast.Subscript) and isinstance(x.ctx, ast.Load)
             and attr_path(x.value) == "self._block_hash_trees"]
    if not rets or not hashed or not trees:
        raise AnchorVanished("Retrieve._validate_block: %d result(s), %d block_hash computation(s), %d block hash tree lookup(s)" % (
            len(rets), len(hashed), len(trees)))
    r.site(fn, where if where is not None else loop.ast, "%s: what is decoded is the validated block of that share" % what)
    for t in rets:
        v = vs.expand(t, t.ast.value)
        if not (isinstance(v, ast.Dict) and len(v.keys) == 1 and v.keys[0] is not None):
            raise AnalysisError("Retrieve._validate_block returns %s, not a one-entry {shnum: (block, salt)} literal" % src(vb, t.ast.value))
        key, el, path = vs.expand(t, v.keys[0]), vs.expand(t, v.values[0]), list(comps)
        while path and isinstance(el, (ast.Tuple, ast.List)) and len(el.elts) > path[0] >= 0:
            el, path = vs.expand(t, el.elts[path[0]]), path[1:]
        sel = "".join("[%d]" % i for i in comps)
        if path or isinstance(el, (ast.Tuple, ast.List)):
            r.violation(fn, fn.loc(where if where is not None else loop.ast), "%s: %s decodes value%s of the {shnum: value} entries, but "
                        "_validate_block returns {%s: %s}: that is not one block" % (what, short(fn), sel, src(vb, t.ast.value.keys[0])
                                                                                    if isinstance(t.ast.value, ast.Dict) else nf(key), nf(v.values[0])))
            continue
        want = nf(el)
        for (c, args) in hashed:
            n = node_of(vb, c)
            subs = {nf(x) for a in args for x in ast.walk(vs.expand(n, a)) if isinstance(x, ast.expr)}
            r.count(1)
            if want not in subs:
                r.violation(fn, fn.loc(where if where is not None else loop.ast), "%s: %s hands value%s of each {shnum: value} entry to "
                            "the decoder, which is %s in _validate_block's result: not what %s checks against the block hash "
                            "tree, so the decoder is not given the validated blocks" % (what, short(fn), sel, nf(el), src(vb, c)))
                break
        for x in trees:
            n = node_of(vb, x)
            if nf(vs.expand(n, x.slice)) != nf(key):
                r.violation(vb, vb.loc(t.ast), "%s: the validated block is filed under %s but it was checked against the block hash "
                            "tree of share %s: the decoder gets it with the wrong share number" % (what, nf(key), nf(vs.expand(n, x.slice))))
                break


def run_callers(ctx, r):
    idx = ctx.idx
    # ---- decode callers
    for q, what in (("immutable.downloader.node:DownloadNode._decode_blocks", "immutable download"),
                    ("mutable.retrieve:Retrieve._decode_blocks", "mutable retrieve")):
        fn = idx.func(q)
        calls = [c for c in calls_in_func(fn, "decode") if len(c.args) == 2]
        if not calls:
            raise AnchorVanished("%s: decode call not found" % q)
        for c in calls:
            r.site(fn, c, what + ": paired block / share-number lists")
            r.count(1)
            got = paired_lists(r, fn, c, what)
            if what == "mutable retrieve" and got is not None:      # None: paired_lists has reported why
                run_validated_blocks(idx, r, fn, got[0], got[1], what)
    # ---- encode callers
    # immutable: k chunks of the codec's block size
    es = idx.func("immutable.encode:Encoder._encode_segment")
    gd = idx.func("immutable.encode:Encoder._gather_data")
    ss = Sym(idx, es)
    gc = the_call(es, "_gather_data")
    gn = node_of(es, gc)
    b = bind_call_args(gd, gc)
    gp = first_positional_params(gd)
    ec = the_call(es.nested.get("_done_gathering") or es, "encode")
    recv = nf(ss.expand(gn, ec.func.value))
    r.site(es, gc, "immutable upload: k pieces of block size")
    r.require(nf(ss.expand(gn, b[gp[0]])) == "self.required_shares" and nf(ss.expand(gn, b[gp[1]])) == recv + ".get_block_size()",
              es, es.loc(gc), "a segment is cut into %s pieces of %s bytes for %s.encode" % (
                  nf(ss.expand(gn, b[gp[0]])), nf(ss.expand(gn, b[gp[1]])), recv))
    dg = es.nested.get("_done_gathering")
    if dg is not None:
        dgp = first_positional_params(dg)
        r.require(len(ec.args) == 1 and nf(ec.args[0]) == dgp[0], dg, dg.loc(ec), "encode is given %s, not the gathered chunks" % src(dg, ec))
    # mutable publish
    pe = idx.func("mutable.publish:Publish._encode_segment")
    ps_ = Sym(idx, pe)
    pc = the_call(pe, "encode", lambda c: len(c.args) == 1 and isinstance(c.func.value, ast.Name))
    pn = node_of(pe, pc)
    r.site(pe, pc, "mutable publish: k pieces of block size")
    lst = pc.args[0]
    fecname = pc.func.value.id
    ok = isinstance(lst, ast.Name)
    if ok:
        init = [q for q in pe.cfg().nodes if q.kind == "stmt" and lst.id in node_stores(q) and isinstance(q.ast, ast.Assign)
                and isinstance(q.ast.targets[0], ast.Name)]
        ok = len(init) == 1 and nf(init[0].ast.value) in (norm_src("[None] * self.required_shares"),)
        r.require(ok, pe, pe.loc(pc), "the piece list is %s, not k slots" % (nf(init[0].ast.value) if init else "?"))
        # each slot gets a piece padded to the block size of the same codec
        stores_ = [q for q in pe.cfg().nodes if (lst.id + "[]") in node_stores(q)]
        r.require(len(stores_) == 1, pe, pe.loc(pc), "pieces are stored at %d places" % len(stores_))
        fnorm = FlowNorm(pe)

        def sized(q, lab):
            f = fnorm.edge_fact(q, lab)
            return bool(f) and q.assume and f[0] == "==" and any(x == "%s.get_block_size()" % fecname for x in (f[1], f[2])) \
                and any((x or "").startswith("len(") for x in (f[1], f[2]))
        has_assert = any(sized(q, lab) for q in pe.cfg().nodes if q.kind == "test" for (d, lab) in pe.cfg().succ[q.id])
        pads = [x for x in func_own_nodes(pe) if isinstance(x, ast.BinOp) and isinstance(x.op, ast.Mult)
                and any(isinstance(y, ast.Constant) and isinstance(y.value, bytes) for y in (x.left, x.right))]
        padded = False
        for x in pads:
            other = x.right if isinstance(x.left, ast.Constant) else x.left
            n_ = node_of(pe, x)
            p = Normaliser(Env(None, depth=0)).poly(ps_.expand(n_, other))
            if any(a == "%s.get_block_size()" % fecname for a in p.atoms()):
                padded = True
        r.require(padded and has_assert, pe, pe.loc(pc), "pieces are not padded to / checked against %s.get_block_size()" % fecname)


def run_shared_state(ctx, r):
    """The codec objects are configured once (set_params) and then shared: the downloader keeps one decoder for all
    full-size segments, Retrieve one _segment_decoder, the encoders one codec per upload.  encode()/decode() give up the
    reactor turn while zfec runs in the CPU thread pool, so calls on one object overlap.  Whatever one call hands to
    zfec must therefore travel in that call's own frame (arguments, locals, closure cells): an instance attribute that
    encode/decode (or anything they run) writes, and that is read back after the turn was given up, belongs to the
    latest call, not to this one."""
    idx = ctx.idx
    for clsq, meth, target, what in ((DEC, "decode", "self.decoder.decode", "blocks / share numbers"),
                                     (ENC, "encode", "self.encoder.encode", "pieces / wanted share ids")):
        fn = idx.func("%s.%s" % (clsq, meth))
        rs = entry_routes(idx, fn, target)
        if not rs:
            raise AnchorVanished("%s: call of %s not found" % (short(fn), target))
        funcs = per_call_funcs(idx, fn, [h for rt in rs for h in rt.hops])
        writes = [(p, f, x) for f in funcs for (p, x) in attr_writes(f)]
        r.site(fn, rs[0].call, "per-call inputs of %s reach zfec in the call's own frame (%d function(s) run per call, %d write(s) to "
               "shared state, %d read(s) of shared state feeding zfec)" % (meth, len(funcs), len(writes), sum(len(rt.reads) for rt in rs)))
        if not any(rt.deferred for rt in rs) and not any(_after_suspension(fn, node_of(fn, rt.call)) for rt in rs):
            continue        # zfec runs inside the caller's turn: calls cannot overlap
        reported = set()
        for rt in rs:
            r.count(len(rt.reads) * max(1, len(writes)))
            for (p, rf, exposed) in rt.reads:
                if not exposed:
                    continue
                for (wp, wf, wx) in writes:
                    if (wp == p or (wp == ANY_ATTR and p.startswith("self."))) and (p, wf.qual) not in reported:
                        reported.add((p, wf.qual))
                        r.violation(fn, wf.loc(wx), "%s.%s hands its %s to zfec through %s, which outlives the call: written by "
                                    "every call (%s) and read back in %s after the call has given up the reactor turn%s; the "
                                    "codec object is shared, so an overlapping %s() replaces it first and this call "
                                    "%ss the other call's data" % (
                                        short(fn).split(".")[0], meth, what, p,
                                        ("%s in %s" % (src(wf, wx), short(wf))) if isinstance(wx, ast.Call)
                                        else "store to %s in %s" % (src(wf, wx), short(wf)), short(rf),
                                        " (thread pool)" if rt.deferred else "", meth, meth))


def run(ctx: Context):
    with ctx.rule("C36.1", "R6", "zfec.Encoder / zfec.Decoder receive (required_shares, max_shares) in that order; both "
                  "set_params share one signature", expected=2) as r:
        run_ctor(ctx, r)
    with ctx.rule("C36.2", "R6", "encoder share_size == decoder share_size == div_ceil(data_size, k); get_block_size returns it",
                  expected=2) as r:
        run_share_size(ctx, r)
    with ctx.rule("C36.3", "R1", "decode passes blocks and share numbers to zfec in the caller's order, after both length "
                  "preconditions", expected=3) as r:
        run_decode(ctx, r)
    with ctx.rule("C36.4", "R1", "encode checks every piece against share_size before zfec, passes pieces and ids through, "
                  "returns the ids used", expected=3) as r:
        run_encode(ctx, r)
    with ctx.rule("C36.5", "R6/R9", "callers: block and share-number lists are built pairwise and cut alike; a segment is cut "
                  "into k pieces of the codec's block size; mutable retrieve decodes the component _validate_block checked against the "
                  "block hash tree, under that share's number", expected=7) as r:
        run_callers(ctx, r)
    with ctx.rule("C36.6", "R7", "what one encode()/decode() call hands to zfec travels in that call's frame, never through "
                  "instance attributes written per call and read back after the reactor turn was given up", expected=2) as r:
        run_shared_state(ctx, r)
    with ctx.rule("C36.7", "R6", "the zfec object a codec instance works with is built from that instance's own k and N: every "
                  "origin of the value set_params keeps is a zfec construction, and state outliving the call that it is taken from "
                  "(cache, memoised factory, singleton) is keyed by both parameters", expected=2) as r:
        run_coder_source(ctx, r)
