"""C38 On-disk and wire encodings round-trip.

Table agreement (R5) between every writer and its reader: struct formats,
argument order at pack(), target order at unpack(), size/offset constants,
magic strings, and the two textual grammars (netstring, URI extension block),
whose readers are put into a closed normal form by straight-line symbolic
substitution and compared with the grammar the writer emits.
"""
from sa.h import *
from sa.tables import ConstEval, _Return as _EvalReturn

import copy
import hashlib
import struct as _struct

EXPLANATION = (
    "Decided: (1) lease records: IMMUTABLE_FORMAT/MUTABLE_FORMAT are used by pack and unpack alike, the i-th "
    "pack argument is the attribute named by the i-th entry of the reader's `names`, every name is a LeaseInfo "
    "field, field widths fit the values (32-byte secrets, 20-byte nodeid, the blake2b digest of hashed leases is 32 "
    "raw bytes, the expiration time is made an int before packing), *_size() and both LEASE_SIZE constants equal "
    "calcsize of the formats, every serializer pairs to_X_data with from_X_data of the same container kind and "
    "every schema version k uses serializer vk of its own kind; (2) immutable container header: writer format "
    "== reader format == '>LLL', version first / lease count third on both sides, the length field saturates at "
    "the field maximum, data offset, lease-count offset 0x08, lease offset and length formulas all derive from "
    "calcsize of that format; (3) mutable container header: one format in writer, reader, HEADER_SIZE and schema; "
    "magic/nodeid/write-enabler/data-length/extra-lease-offset in the same positions on both sides and through the "
    "three call hops of create(); DATA_LENGTH_OFFSET/EXTRA_LEASE_OFFSET are the offsets of fields 3/4, each "
    "accessor seeks there and uses the field's own format and size; DATA_OFFSET = header + 4 lease slots = 468 = "
    "the initial extra-lease offset; lease slot offsets are the same formulas in writer and reader; (4) the magic "
    "of every mutable schema version is 32 bytes (= width of header field 0), pairwise distinct, equal to the "
    "compat-frozen bytes, and matched over its whole length; immutable versions are pairwise distinct; (5) "
    "netstring writer '<decimal len>:<bytes>,' and split_netstring consume the same grammar; (6) UEB: "
    "pack_extension emits key ':' netstring(value) with decimal ints, keys cannot contain ':', unpack_extension "
    "consumes exactly that, and the keys converted back to int are exactly the keys the encoder stores from its "
    "integer parameters; (7) base32: a2b and b2a themselves are interpreted by the constant interpreter (module tables and "
    "helpers of any shape - 8x256 arrays, tuples of byte strings, comprehensions - are evaluated, not matched; a failed "
    "precondition / assert / raise / table lookup and a base64 error count as rejection) on every string of length 1..16 whose final "
    "byte runs over 0..255, on a string with every byte in the middle, and on encodings of up to 21 bytes: every encoding b2a "
    "can emit (RFC 4648, '=' stripped, lower case, the reference being the standard library) is accepted and decodes to its "
    "bytes - alphabet, length classes, final-character sets, case and re-padding - and b2a evaluates to the reference; "
    "base62: 62 distinct characters, the radix "
    "literal of all four functions is the alphabet size, encode/decode use the inverse translation tables; (8) a2b evaluates "
    "to a value only on canonical strings: per length class the accepted final characters are exactly those whose value is a "
    "multiple of 2**(unused low bits), and no string containing a character outside the alphabet is decoded (rejection of "
    "non-canonical trailing bits; was a finding, repaired by "
    "7af941e); (9) version dispatch of the share-layout readers (ReadBucketProxy._parse_offsets, Share._satisfy_offsets/"
    "_desire_offsets, unpack_share, unpack_sdmf/mdmf_checkstring, MDMFSlotReadProxy._process_encoding_parameters): the "
    "reader's CFG is walked once per representative value of the unpacked version field (each constant the tests "
    "compare with, its neighbours, 0 and the field maximum), evaluating the tests over the version variable; a value no "
    "writer emits never reaches the normal exit (unsatisfiable checks and fall-through else branches are found this "
    "way), every value the writers emit (constants folded from the writers' pack calls / interfaces) does; (10) storage "
    "containers: schema_from_version/schema_from_header return a schema only on the edge where it matches the header "
    "and None otherwise, ShareFile/MutableShareFile.__init__ cannot complete without the not-None fact, is_valid_header "
    "is false when the lookup fails; (11) transfer: both _write_lease_record methods write serialize(lease) after the "
    "seek, the immutable count writers write the count, add_lease stores record number count and then count + 1, get_leases "
    "seeks to _lease_offset before reading and yields unserialize(bytes read) (not only for empty reads), a created immutable "
    "/ mutable container gets schema.header(..) written, the mutable extra-lease count is incremented exactly on the paths "
    "where the slot is not known to exist (neither n < 4 nor n - 4 < count), _read_lease_record returns unserialize(read) "
    "under owner_num != 0 and None only under owner_num == 0 and raises IndexError only beyond the count, "
    "_get_num_lease_slots / _enumerate_leases cover 4 + count slots and yield records that are not None (an enumeration composed "
    "of helper generators / generator expressions / enumerate() / yield from is followed to its one loop over the slots), the header field "
    "accessors return what they unpacked, the serializers pass the record through _to_data / _from_data and hash each "
    "secret into its own field; (12) immutable share offset table: per version the writers emit, the statements only that "
    "version reaches in _parse_offsets / _satisfy_offsets / _desire_offsets bind the table start and field width / format "
    "of that writer's pack format, the table is addressed as (start, 6 * width), read field by field with the position "
    "advanced by the width (or as '>' + 6 * format) and stored under the field names in packing order; the writers' "
    "fieldsize / fieldstruct / first data offset derive from their format; split_netstring also checks the announced "
    "payload length, returns only with >= numstrings elements and, with a required trailer, only under data[position:] == "
    "trailer; unpack_extension converts the int keys under `key in d` and returns the dictionary it filled; (13, = C25.10) stored "
    "lease records survive the relocation of the extra-lease block: MutableShareFile._change_container_size reads count field + "
    "num_extra_leases * LEASE_SIZE bytes at the header's extra-lease offset before it modifies the file, writes exactly those bytes "
    "where it points the header to, and writes nothing afterwards that may overlap the copy (old and new block overlap whenever "
    "the container grows by less than the block size; only a fill of at most new - position bytes is provably disjoint); (13, = "
    "C25.12 / C25.5) a lease record read from a hashed-secret (v2) container is written back with the field values it was read "
    "with: HashedLeaseSerializer.serialize hashes only under a type test that no stored-lease wrapper passes, the wrapper is not "
    "a subclass of the plain lease, every lease-producing ILeaseInfo method that is used (renew) is overridden by the wrapper - "
    "not left to proxyForInterface, which would return the bare LeaseInfo holding the stored hashes - and returns the wrapper "
    "around the wrapped lease's own renewed copy with the same hash function, and the containers hand _write_lease_record only "
    "given / stored / wrapper-derived leases; (14) "
    "MutableShareFile._write_share_data writes into the data region only after _change_container_size(f, >= offset + len(data)) "
    "or under the fact (branch or assertion) that offset + len(data) fits below the extra-lease offset / inside the existing "
    "data, and every such write (the data, a b'\\x00' * n / bytes(n) fill) ends at or before DATA_OFFSET + offset + len(data) - "
    "so it cannot land on the extra-lease count and records that follow the data (procedure helpers self.h(f, ..) that grow the "
    "container or seek relative to DATA_OFFSET are read in place of their call; one that cannot be is an analysis error).  Undecided: "
    "the positional arithmetic of base62 and of Python's base64 module, the section arithmetic of the immutable share "
    "writers (x += size between offsets) and their FileTooLargeError bounds, the offset sanity checks of "
    "Share._satisfy_offsets (share/block hash sizes), the field layout of SDMF/MDMF shares beyond the version dispatch "
    "(unpack_share, MDMFSlotReadProxy._process_encoding_parameters bodies), the write-enabler comparison (another property), "
    "rejection of every other malformed input, struct's own behaviour; readers that branch on a version stored in an "
    "attribute by another method (MDMFSlotReadProxy._process_offsets and later methods rely on "
    "_process_encoding_parameters having raised) are not walked; a dispatch through a computed (non-literal) table is "
    "reported rather than understood.")
TECHNIQUE = ("static analysis: constant folding of struct formats/offsets and table agreement between pack and "
             "unpack sites; exhaustive constant interpretation of the base32 decoder over length classes x final bytes; straight-line symbolic normal forms of the netstring and UEB parsers; concrete-value CFG "
             "walks of the version dispatch with edge facts; must-precede / must-follow path queries and small product "
             "monitors over the lease record readers and writers")

LEASE = "storage.lease:LeaseInfo"
SF = "storage.immutable:ShareFile"
MSF = "storage.mutable:MutableShareFile"

# compat-frozen bytes (legitimate only because every entry is bytes of existing share files)
FROZEN_FORMATS = {
    "IMMUTABLE_FORMAT": (">L32s32sL", "the 72-byte lease records at the end of every immutable share file"),
    "MUTABLE_FORMAT": (">LL32s32s20s", "the 92-byte lease records in every mutable share file"),
    "immutable header": (">LLL", "the first 12 bytes of every immutable share file"),
    "mutable header": (">32s20s32sQQ", "the first 100 bytes of every mutable share file"),
}
FROZEN_FIELD = {      # lease field -> struct field; on-disk lease record layout
    "owner_num": ("L", 1), "renew_secret": ("s", 32), "cancel_secret": ("s", 32),
    "expiration_time": ("L", 1), "nodeid": ("s", 20),
}
FROZEN_MAGIC = {      # first 32 bytes of every existing mutable share file of that version
    1: b"Tahoe mutable container v1\n\x75\x09\x44\x03\x8e",
    2: b"Tahoe mutable container v2\n\xc3U!\x99%",
}
FROZEN_DATA_OFFSET = 468   # where share data starts in every existing mutable share file
UEB_INT_PARAMS = {"self.file_size", "self.segment_size", "self.num_segments", "self.required_shares",
                  "self.num_shares"}   # the Encoder attributes that hold integers


# ------------------------------------------------------------------- helpers
def field_fmt(f):
    c, n = f
    return ("%d%s" % (n, c)) if c in "sp" else c


def prefix_size(fmt, k):
    """Byte offset of packed value k in a standard-size format."""
    fs = struct_fields(fmt)
    bo = fmt[0] if fmt and fmt[0] in "@=<>!" else ""
    return _struct.calcsize(bo + "".join(field_fmt(f) for f in fs[:k]))


def struct_calls(fn, tail):
    return [c for c in calls_in_func(fn, tail) if call_name(c) == "struct." + tail]


class Folding:
    def __init__(self, idx):
        self.idx = idx
        self.fo = get_folder(idx)

    def expr(self, e, fn=None, module=None, cls=None, local=None):
        try:
            return self.fo.fold(e, module or fn.module, cls if cls is not None else (fn.cls if fn else None), local)
        except NotConstant:
            return None

    def with_sizes(self, e, module, cls=None):
        """Fold an expression in which `LeaseInfo().X_size()` / `lease.X_size()` stand for the folded return value
        of LeaseInfo.X_size."""
        li = self.idx.cls(LEASE)
        e = copy.deepcopy(e)

        class Tr(ast.NodeTransformer):
            def visit_Call(tr, node):
                node = tr.generic_visit(node)
                if isinstance(node.func, ast.Attribute) and node.func.attr in ("mutable_size", "immutable_size") \
                        and not node.args:
                    m = li.lookup(node.func.attr)
                    v = self.returns(m)
                    if v is not None:
                        return ast.copy_location(ast.Constant(value=v), node)
                return node
        e = ast.fix_missing_locations(Tr().visit(e))
        try:
            return self.fo.fold(e, module, cls)
        except NotConstant:
            return None

    def returns(self, fn):
        vals = set()
        for v in ret_values(fn):
            if v is not None:
                vals.add(self.expr(v, fn))
        return vals.pop() if len(vals) == 1 else None


def ret_values(fn):
    """Return values of fn (None for a bare return); a returned local whose single definition is a pure expression
    stands for that expression (`rv = e; return rv` is `return e`)."""
    ud = unique_defs(fn)
    out = []
    for n in func_own_nodes(fn):
        if isinstance(n, ast.Return):
            v = n.value
            for _i in range(4):
                if isinstance(v, ast.Name) and v.id in ud:
                    v = ud[v.id]
            out.append(v)
    return out


def ret_value_of(fn, ret_stmt):
    v = ret_stmt.value
    ud = unique_defs(fn)
    for _i in range(4):
        if isinstance(v, ast.Name) and v.id in ud:
            v = ud[v.id]
    return v


def _local_def(fn, e):
    """The single definition of a local name (else the expression itself)."""
    if isinstance(e, ast.Name) and e.id not in fn.params:
        ds = all_defs(fn).get(e.id, [])
        if len(ds) == 1 and ds[0] is not None:
            return ds[0]
    return e


def cfg_node_of(fn, call):
    for n in fn.cfg().nodes:
        if any(c is call for c in node_calls(n)):
            return n
    raise AnalysisError("call not found in the CFG of %s" % fn.qual)


def unpack_targets(fn, call):
    """Names the values of a struct.unpack call are bound to (in order), or None."""
    for n in func_own_nodes(fn):
        if isinstance(n, ast.Assign) and n.value is call and len(n.targets) == 1:
            t = n.targets[0]
            if isinstance(t, (ast.Tuple, ast.List)):
                return [attr_path(x) for x in t.elts]
            return None
    return None


# --- straight-line symbolic substitution (for the two textual parsers) -----------
class _Subst(ast.NodeTransformer):
    def __init__(self, env):
        self.env = env

    def visit_Name(self, node):
        if isinstance(node.ctx, ast.Load) and node.id in self.env:
            return copy.deepcopy(self.env[node.id])
        return node


def _sub(e, env):
    return ast.fix_missing_locations(_Subst(env).visit(copy.deepcopy(e)))


def straight_line(stmts, env=None):
    """Execute assignments symbolically (names -> closed expressions over the initial names); returns
    (env, events) with events ('assert', test) | ('call', call) | ('setitem', obj, key, value)."""
    env = dict(env or {})
    ev = []
    for st in stmts:
        if isinstance(st, ast.Assign) and len(st.targets) == 1 and isinstance(st.targets[0], ast.Name):
            env[st.targets[0].id] = _sub(st.value, env)
        elif isinstance(st, ast.Assign) and len(st.targets) == 1 and isinstance(st.targets[0], ast.Subscript):
            t = st.targets[0]
            ev.append(("setitem", _sub(t.value, env), _sub(t.slice, env), _sub(st.value, env)))
        elif isinstance(st, ast.AugAssign) and isinstance(st.target, ast.Name):
            cur = env.get(st.target.id, ast.Name(id=st.target.id, ctx=ast.Load()))
            env[st.target.id] = ast.fix_missing_locations(
                ast.BinOp(left=copy.deepcopy(cur), op=st.op, right=_sub(st.value, env)))
        elif isinstance(st, ast.Assert):
            ev.append(("assert", _sub(st.test, env)))
        elif isinstance(st, ast.Expr) and isinstance(st.value, ast.Call):
            ev.append(("call", _sub(st.value, env)))
        elif isinstance(st, ast.Expr) and isinstance(st.value, ast.Constant):
            continue
        elif isinstance(st, ast.If):
            ev.append(("if", _sub(st.test, env)))
            # an `if` that re-binds a name makes later uses of it opaque
            for n in ast.walk(st):
                if isinstance(n, ast.Name) and isinstance(n.ctx, ast.Store):
                    env.pop(n.id, None)
        else:
            ev.append(("other", st))
    return env, ev


def ref_run(src_text):
    return straight_line(ast.parse(src_text).body)


def nf(e):
    return norm_plain(e)


def spec_tagged_hash(tag, val, truncate_to=None):
    """The specified tagged hash (C17 checks that hashutil.tagged_hash is this)."""
    h = hashlib.sha256(hashlib.sha256(b"%d:%s," % (len(tag), tag) + val).digest()).digest()
    return h[:truncate_to] if truncate_to else h


class MagicEval(ConstEval):
    """ConstEval with two work-arounds kept inside this rule file: (a) it cannot instantiate the hasher class, so the
    one call of tagged_hash in _magic() is given its specified meaning; (b) module-level constants that the module
    computes with a list comprehension do not fold in Folder.fold, so they can be supplied as overrides."""

    overrides = {}      # (module name, global name) -> value

    def _expr(self, e, env):
        if isinstance(e, ast.Name) and e.id not in env and (self.module.name, e.id) in self.overrides:
            return self.overrides[(self.module.name, e.id)]
        if isinstance(e, ast.Call) and isinstance(e.func, (ast.Name, ast.Attribute)) and not (
                isinstance(e.func, ast.Name) and e.func.id in env):
            tgt = self.folder.idx.resolve_expr(self.module, e.func)
            if isinstance(tgt, FuncInfo) and tgt.parent is None and tgt.cls is None:
                args = [self.expr(a, env) for a in e.args]
                kwargs = {k.arg: self.expr(k.value, env) for k in e.keywords if k.arg}
                if tgt.qual == "allmydata.util.hashutil:tagged_hash":
                    return spec_tagged_hash(*args, **kwargs)
                sub = type(self)(self.folder, tgt.module)
                sub.steps = self.steps
                v = sub.call(tgt, args, kwargs)
                self.steps = sub.steps
                return v
        return ConstEval._expr(self, e, env)


def module_value(fo, m, name):
    """Value of a module-level constant, evaluating pure helper calls / comprehensions of the module initialiser."""
    vals = m.assigns.get(name)
    if not vals:
        raise AnchorVanished("%s.%s" % (m.name, name))
    try:
        return MagicEval(fo, m).expr(vals[-1], {})
    except NotConstant as e:
        raise AnalysisError("%s.%s cannot be evaluated: %s" % (m.name, name, e))


class _Rejected(Exception):
    """The interpreted codec function refused its input: a failed precondition / assert, a raise statement, or the
    standard library's own base64 routine raising."""


def _stdlib_b32(fn):
    def call(*a, **kw):
        import binascii
        try:
            return fn(*a, **kw)
        except (binascii.Error, ValueError, TypeError) as ex:
            raise _Rejected(str(ex))
    return call


class CodecEval(MagicEval):
    """The engine's constant interpreter applied to the codec functions themselves (a2b / b2a of util.base32) on concrete
    probe strings.  Additions, all confined to this rule file: module-level values are evaluated by this interpreter
    whatever their shape (helper call, comprehension, alias of a bytes method) and memoised per run; `base64.b32encode` /
    `base64.b32decode` of the standard library have their own meaning; `bytes.translate` / `bytes.maketrans` values and
    the `.translate` method are understood; a failed precondition(..) / _assert(..) / assert and a `raise` end the
    evaluation with _Rejected instead of being skipped."""

    memo = {}          # (module name, global name) -> value; reset by the rule at the start of each run
    _busy = set()
    _BUILTINS = dict(ConstEval._BUILTINS, isinstance=isinstance)
    _METHODS = set(ConstEval._METHODS) | {"translate", "ljust", "rjust", "center", "zfill", "islower", "isupper"}
    _STD = {"base64.b32encode": _stdlib_b32(__import__("base64").b32encode),
            "base64.b32decode": _stdlib_b32(__import__("base64").b32decode)}
    _BYTES_ATTRS = {"translate": bytes.translate, "maketrans": bytes.maketrans}

    def expr(self, e, env):
        self.tick()
        try:
            return self._expr(e, env)
        except (NotConstant, _EvalReturn, _Rejected):
            raise
        except RecursionError:
            raise NotConstant("constexpr recursion")
        except (IndexError, KeyError) as ex:
            if isinstance(e, ast.Subscript):      # the analysed code's own lookup fails: the call raises, nothing is decoded
                raise _Rejected("%s in %s" % (type(ex).__name__, ast.unparse(e)))
            raise NotConstant("constexpr: %s: %s" % (type(ex).__name__, ex))
        except Exception as ex:
            raise NotConstant("constexpr: %s: %s" % (type(ex).__name__, ex))

    def stmt(self, st, env):
        if isinstance(st, ast.Expr) and isinstance(st.value, ast.Call) and st.value.args and getattr(
                st.value.func, "id", getattr(st.value.func, "attr", "")) in ("precondition", "_assert", "postcondition"):
            self.tick()
            if not self.expr(st.value.args[0], env):
                raise _Rejected("%s fails" % ast.unparse(st.value.func))
            return
        if isinstance(st, ast.Assert):
            self.tick()
            if not self.expr(st.test, env):
                raise _Rejected("assert fails")
            return
        if isinstance(st, ast.Raise):
            raise _Rejected("raise")
        return ConstEval.stmt(self, st, env)

    def _std_target(self, f):
        p = attr_path(f)
        if not p:
            return None
        head, _, rest = p.partition(".")
        tgt = self.module.imports.get(head)
        if tgt is None:
            return None
        return self._STD.get(tgt + ("." + rest if rest else ""))

    def _global(self, name):
        m = self.module
        key = (m.name, name)
        if key in self.memo:
            return self.memo[key]
        vals = m.assigns[name]
        if len(vals) != 1:
            raise NotConstant("%s.%s has %d bindings" % (m.name, name, len(vals)))
        if key in self._busy:
            raise NotConstant("%s.%s is defined in terms of itself" % key)
        self._busy.add(key)
        try:
            sub = type(self)(self.folder, m)
            v = sub.expr(vals[0], {})
        finally:
            self._busy.discard(key)
        self.memo[key] = v
        return v

    def _expr(self, e, env):
        if isinstance(e, ast.Name) and e.id not in env and e.id not in self._BUILTINS and e.id in self.module.assigns \
                and e.id not in self.module.funcs and (self.module.name, e.id) not in self.overrides:
            return self._global(e.id)
        if isinstance(e, ast.Attribute):
            if isinstance(e.value, ast.Name) and e.value.id == "bytes" and "bytes" not in env and e.attr in self._BYTES_ATTRS:
                return self._BYTES_ATTRS[e.attr]
            std = self._std_target(e)
            if std is not None:
                return std
            raise NotConstant("constexpr: attribute %s" % ast.unparse(e))
        if isinstance(e, ast.Call):
            f = e.func
            fv = None
            if isinstance(f, ast.Name) and f.id in env:
                fv = env[f.id]
            elif isinstance(f, ast.Name) and f.id not in self._BUILTINS and f.id in self.module.assigns \
                    and f.id not in self.module.funcs:
                fv = self._global(f.id)
            elif isinstance(f, ast.Attribute):
                fv = self._std_target(f)
                if fv is None and isinstance(f.value, ast.Name) and f.value.id == "bytes" and "bytes" not in env:
                    fv = self._BYTES_ATTRS.get(f.attr)
            if fv is not None:
                if not (fv in self._BYTES_ATTRS.values() or fv in self._STD.values()):
                    raise NotConstant("constexpr: call of the value %r" % (fv,))
                args = [self.expr(a, env) for a in e.args]
                kwargs = {k.arg: self.expr(k.value, env) for k in e.keywords if k.arg}
                return fv(*args, **kwargs)
        return MagicEval._expr(self, e, env)


def codec_apply(fo, fn, arg):
    """('value', v) | ('rejected', why) for fn(arg), interpreting fn's AST; AnalysisError when it cannot be interpreted."""
    try:
        return ("value", CodecEval(fo, fn.module).call(fn, [arg], {}))
    except _Rejected as ex:
        return ("rejected", str(ex))
    except NotConstant as ex:
        raise AnalysisError("%s(%r) cannot be evaluated by the constant interpreter: %s" % (fn.qual, arg, ex))


def _loaded_names(node):
    return {n.id for n in ast.walk(node) if isinstance(n, ast.Name) and isinstance(n.ctx, ast.Load)}


def _reach_names(m, roots):
    """Names loaded by the given AST nodes and, transitively, by the module-level functions of m they mention."""
    seen, todo = set(), list(roots)
    while todo:
        for nm in _loaded_names(todo.pop()):
            if nm not in seen:
                seen.add(nm)
                if nm in m.funcs:
                    todo.append(m.funcs[nm].node)
    return seen


def _b32_probe(idx, F):
    """Interpret util.base32's a2b / b2a on probe strings and compare with RFC 4648 base32 as b2a is specified to emit it
    (standard library base64, '=' stripped, lower case).  A string is canonical when it is the encoding of the bytes it
    decodes to."""
    import base64 as _b64
    b32 = idx.module("allmydata.util.base32")
    enc = idx.func("util.base32:b2a")
    dec = idx.func("util.base32:a2b")
    CodecEval.memo = {}
    CodecEval._busy = set()

    def emit(b):
        return _b64.b32encode(b).rstrip(b"=").lower()

    def canon(p):
        try:
            v = _b64.b32decode(p.upper() + b"=" * (-len(p) % 8))
        except Exception:
            return None
        return v if emit(v) == p else None
    ref_chars = bytes(emit(bytes([v << 3]))[0] for v in range(32))
    out = {"miss": {}, "miss_why": {}, "extra": {}, "extra_example": None, "wrong": [], "interior": [], "enc_wrong": [],
           "rt_wrong": [], "evaluations": 0}

    def probe(p):
        out["evaluations"] += 1
        return codec_apply(F.fo, dec, p)
    # final character, two periods of the length
    for L in range(1, 17):
        filler = bytes(ref_chars[(7 * i + 3) % 32] for i in range(L - 1))
        for c in range(256):
            p = filler + bytes([c])
            ref = canon(p)
            kind, v = probe(p)
            if ref is not None:
                if kind == "rejected":
                    out["miss"].setdefault(L % 8, set()).add(c)
                    out["miss_why"].setdefault(L % 8, v)
                elif v != ref:
                    out["wrong"].append((p, v, ref))
            elif kind == "value":
                out["extra"].setdefault(L % 8, set()).add(c)
                if out["extra_example"] is None:
                    out["extra_example"] = (p, v, emit(v) if isinstance(v, bytes) else None)
    # a character in the middle
    base = emit(b"\x5a\xa5\x3c\xc3\x0f")
    for c in range(256):
        p = base[:3] + bytes([c]) + base[4:]
        ref = canon(p)
        kind, v = probe(p)
        if ref is None and kind == "value":
            out["interior"].append((p, v))
        elif ref is not None and (kind != "value" or v != ref):
            out["wrong"].append((p, v if kind == "value" else "rejected (%s)" % v, ref))
    # encoder; decoder on longer encodings (padding to a multiple of 8 beyond two periods)
    for n in list(range(0, 6)) + list(range(11, 22)):
        for x in {bytes((37 * i + 11 * n + 5) % 256 for i in range(n)), b"\xff" * n, b"\x00" * n}:
            e_ = emit(x)
            out["evaluations"] += 1
            kind, v = codec_apply(F.fo, enc, x)
            if kind != "value" or v != e_:
                out["enc_wrong"].append((x, repr(v) if kind == "value" else "a rejection (%s)" % v, e_))
            if n == 0 or n > 10:
                kind, v = probe(e_)
                if kind != "value":
                    out["rt_wrong"].append((x, e_, "is rejected (%s)" % v))
                elif v != x:
                    out["rt_wrong"].append((x, e_, "evaluates to %r" % (v,)))
    # which table / helper decided: the module-level containers the decoder (and what it calls) reads
    names = _reach_names(b32, [dec.node])
    tables = sorted(nm for nm in names if nm in b32.assigns and nm not in b32.funcs
                    and isinstance(CodecEval.memo.get((b32.name, nm)), (tuple, list, dict, set, frozenset)))
    out["table"] = ("allmydata.util.base32:" + tables[0]) if tables else dec.qual
    helpers = sorted(nm for t in tables for nm in _reach_names(b32, b32.assigns[t]) if nm in b32.funcs)
    out["helpers"] = (" [%s is computed by %s]" % (", ".join(tables), ", ".join(helpers))) if helpers else ""
    return out


def flatten_bytes(e, defs, F, fn, depth=4):
    """A bytes-valued expression as a token list: ('lit', bytes) | ('dec', normal form of the integer printed in
    decimal) | ('raw', normal form of a bytes value); concatenation, %-format with a constant template and locals
    with a single definition are looked through."""
    if isinstance(e, ast.Constant) and isinstance(e.value, bytes):
        return [("lit", e.value)]
    if isinstance(e, ast.Name) and depth > 0 and len(defs.get(e.id, [])) == 1 and defs[e.id][0] is not None:
        return flatten_bytes(defs[e.id][0], defs, F, fn, depth - 1)
    if isinstance(e, ast.BinOp) and isinstance(e.op, ast.Add):
        return _merge(flatten_bytes(e.left, defs, F, fn, depth) + flatten_bytes(e.right, defs, F, fn, depth))
    if isinstance(e, ast.BinOp) and isinstance(e.op, ast.Mod):
        tpl = F.expr(e.left, fn)
        if isinstance(tpl, bytes):
            args = list(e.right.elts) if isinstance(e.right, ast.Tuple) else [e.right]
            out = []
            for k, v in percent_tokens(tpl):
                if k == "lit":
                    out.append(("lit", v.encode("latin-1")))
                elif not args:
                    return [("raw", norm_plain(e))]
                else:
                    a = args.pop(0)
                    a = defs[a.id][0] if (isinstance(a, ast.Name) and len(defs.get(a.id, [])) == 1 and defs[a.id][0] is not None) else a
                    out.append(("dec" if v == "d" else ("raw" if v == "s" else "conv-" + v), norm_plain(a)))
            return _merge(out)
    return [("raw", norm_plain(e))]


def _merge(toks):
    out = []
    for t in toks:
        if t[0] == "lit" and out and out[-1][0] == "lit":
            out[-1] = ("lit", out[-1][1] + t[1])
        elif t != ("lit", b""):
            out.append(t)
    return out


def schema_entries(m, factory_tail):
    """[(version, serializer name, call)] of the ALL_SCHEMAS set literal of a schema module."""
    vals = m.assigns.get("ALL_SCHEMAS")
    if not vals or not isinstance(vals[-1], (ast.Set, ast.List, ast.Tuple)):
        raise AnchorVanished("%s.ALL_SCHEMAS is not a literal collection" % m.name)
    out = []
    for c in vals[-1].elts:
        if not isinstance(c, ast.Call):
            raise AnchorVanished("%s.ALL_SCHEMAS element %s" % (m.name, ast.unparse(c)))
        v = kwarg(c, "version") or arg(c, 0)
        s = kwarg(c, "lease_serializer") or arg(c, 1)
        out.append((v.value if isinstance(v, ast.Constant) else None, s.id if isinstance(s, ast.Name) else None, c))
    return out


# --- version dispatch: concrete-value walks over a reader's CFG -------------------
class _Undecided(Exception):
    pass


def _is_struct_unpack(e):
    return isinstance(e, ast.Call) and call_name(e) == "struct.unpack" and len(e.args) >= 2


def _reads_container_start(fn, e, depth=3):
    """`e` is the leading bytes of a container: X[:k] / X[0:k] / Y.get(0, k), or a local whose only definition is."""
    if isinstance(e, ast.Name) and depth > 0:
        ds = all_defs(fn).get(e.id, [])
        return len(ds) == 1 and ds[0] is not None and _reads_container_start(fn, ds[0], depth - 1)
    if isinstance(e, ast.Subscript) and isinstance(e.slice, ast.Slice) and e.slice.step is None:
        lo = e.slice.lower
        return lo is None or (isinstance(lo, ast.Constant) and lo.value == 0)
    if isinstance(e, ast.Call) and call_tail(e) == "get" and e.args:
        return isinstance(e.args[0], ast.Constant) and e.args[0].value == 0
    return False


def version_bindings(fn):
    """{cfg node id: (local name, unpack call)} for the statements that bind a local to packed value 0 of a
    struct.unpack over the leading bytes of a container (the version field of every container format here)."""
    out = {}
    for n in fn.cfg().nodes:
        a = n.ast
        if n.kind != "stmt" or not isinstance(a, ast.Assign) or len(a.targets) != 1:
            continue
        t, v = a.targets[0], a.value
        c = nm = None
        if _is_struct_unpack(v) and isinstance(t, (ast.Tuple, ast.List)) and t.elts and isinstance(t.elts[0], ast.Name):
            c, nm = v, t.elts[0].id
        elif isinstance(v, ast.Subscript) and _is_struct_unpack(v.value) and isinstance(v.slice, ast.Constant) \
                and v.slice.value == 0 and isinstance(t, ast.Name):
            c, nm = v.value, t.id
        if c is not None and _reads_container_start(fn, c.args[1]):
            out[n.id] = (nm, c)
    return out


class VersionWalk:
    """Decides, for one concrete value of a reader's version field, which CFG nodes the reader can reach after the
    statement that binds the field: tests over the version variable are evaluated (comparisons, chains, membership,
    constants folded from the package), every other test keeps both edges, a dict literal subscripted by the version
    leaves by its KeyError when the value is no key."""

    def __init__(self, fn, F):
        self.fn, self.F = fn, F
        self.cfg = fn.cfg()
        self.bind = version_bindings(fn)
        names = {nm for nm, _c in self.bind.values()}
        if not self.bind:
            raise AnchorVanished("%s no longer unpacks the version field from the start of the container" % fn.qual)
        if len(names) != 1:
            raise AnalysisError("%s binds several version variables: %s" % (fn.qual, sorted(names)))
        self.name = names.pop()
        defs = all_defs(fn)
        self.vnames = {self.name}
        for _i in range(3):
            for nm, ds in defs.items():
                if ds and all(isinstance(d, ast.Name) and d.id in self.vnames for d in ds):
                    self.vnames.add(nm)
        self.defs = defs
        # the walks start where the field is first bound (a later re-unpack of the same leading bytes is only met
        # under the facts established since the first one)
        first, _p = explore(self.cfg, 0, lambda n, lab, nxt, st: None if n.id in self.bind else 0)
        self.starts = [self.cfg.nodes[i] for i in sorted(self.bind) if (i, 0) in first]
        if not self.starts:
            raise AnchorVanished("%s: the version binding is unreachable" % fn.qual)
        # value range of the field
        self.fieldmax = 0
        for _nm, c in self.bind.values():
            fmt = F.expr(c.args[0], fn)
            if not isinstance(fmt, str) or not struct_fields(fmt):
                raise AnalysisError("%s: version field format %s does not fold" % (fn.qual, src(fn, c.args[0])))
            bo = fmt[0] if fmt[0] in "@=<>!" else ""
            f0 = struct_fields(fmt)[0]
            if f0[0] not in "BHILQ":
                raise AnalysisError("%s: version field has format %r" % (fn.qual, field_fmt(f0)))
            self.fieldmax = max(self.fieldmax, 2 ** (8 * _struct.calcsize(bo + field_fmt(f0))) - 1)
        self.states = 0

    def mentions(self, e):
        return any(isinstance(x, ast.Name) and x.id in self.vnames for x in ast.walk(e))

    def constants(self):
        """Integers the reader's tests compare the version with."""
        out = set()
        for n in self.cfg.nodes:
            if n.kind == "test" and self.mentions(n.ast):
                for x in ast.walk(n.ast):
                    if isinstance(x, (ast.Name, ast.Attribute, ast.Constant)) and not (
                            isinstance(x, ast.Name) and x.id in self.vnames):
                        v = x.value if isinstance(x, ast.Constant) else self.F.expr(x, self.fn)
                        if isinstance(v, int) and not isinstance(v, bool):
                            out.add(v)
        return out

    def ev(self, e, u, subst=None):
        if subst and id(e) in subst:
            return subst[id(e)]
        if isinstance(e, ast.Constant):
            return e.value
        if isinstance(e, ast.Name):
            if e.id in self.vnames:
                return u
            ds = self.defs.get(e.id, [])
            if subst and len(ds) == 1 and ds[0] is not None and id(ds[0]) in subst:
                return subst[id(ds[0])]
        if isinstance(e, (ast.Name, ast.Attribute)):
            v = self.F.expr(e, self.fn)
            if v is None:
                raise _Undecided()
            return v
        if isinstance(e, (ast.Tuple, ast.List, ast.Set)):
            return tuple(self.ev(x, u, subst) for x in e.elts)
        if isinstance(e, ast.UnaryOp) and isinstance(e.op, ast.Not):
            return not self.ev(e.operand, u, subst)
        if isinstance(e, ast.UnaryOp) and isinstance(e.op, ast.USub):
            return -self.ev(e.operand, u, subst)
        if isinstance(e, ast.BoolOp):
            res = isinstance(e.op, ast.And)
            undecided = False
            for x in e.values:
                try:
                    v = bool(self.ev(x, u, subst))
                except _Undecided:
                    undecided = True
                    continue
                if isinstance(e.op, ast.And) and not v:
                    return False
                if isinstance(e.op, ast.Or) and v:
                    return True
            if undecided:
                raise _Undecided()
            return res
        if isinstance(e, ast.BinOp) and isinstance(e.op, (ast.Add, ast.Sub, ast.Mult)):
            a, b = self.ev(e.left, u, subst), self.ev(e.right, u, subst)
            if not (isinstance(a, int) and isinstance(b, int)):
                raise _Undecided()
            return a + b if isinstance(e.op, ast.Add) else (a - b if isinstance(e.op, ast.Sub) else a * b)
        if isinstance(e, ast.Call) and call_name(e) == "range" and not e.keywords and 1 <= len(e.args) <= 2:
            vs = [self.ev(x, u, subst) for x in e.args]
            if not all(isinstance(v, int) for v in vs):
                raise _Undecided()
            return range(*vs)
        if isinstance(e, ast.Call) and call_name(e) == "bool" and len(e.args) == 1 and not e.keywords:
            return bool(self.ev(e.args[0], u, subst))
        if isinstance(e, ast.Compare):
            left = self.ev(e.left, u, subst)
            for op, rhs in zip(e.ops, e.comparators):
                right = self.ev(rhs, u, subst)
                try:
                    if isinstance(op, ast.Eq):
                        ok = left == right
                    elif isinstance(op, ast.NotEq):
                        ok = left != right
                    elif isinstance(op, ast.Is):
                        ok = (left is right) if (left is None or right is None) else (left == right)
                    elif isinstance(op, ast.IsNot):
                        ok = (left is not right) if (left is None or right is None) else (left != right)
                    elif isinstance(op, ast.In):
                        ok = left in right
                    elif isinstance(op, ast.NotIn):
                        ok = left not in right
                    elif isinstance(op, ast.Lt):
                        ok = left < right
                    elif isinstance(op, ast.LtE):
                        ok = left <= right
                    elif isinstance(op, ast.Gt):
                        ok = left > right
                    elif isinstance(op, ast.GtE):
                        ok = left >= right
                    else:
                        raise _Undecided()
                except TypeError:
                    raise _Undecided()
                if not ok:
                    return False
                left = right
            return True
        raise _Undecided()

    def _dict_miss(self, n, u):
        """The node subscripts a dict literal (directly, or a local / module name whose only definition is one) with
        the version, and `u` is not a key."""
        if n.ast is None:
            return False
        for x in own_nodes(n.ast):
            if isinstance(x, ast.Subscript) and isinstance(x.ctx, ast.Load) and isinstance(x.slice, ast.Name) \
                    and x.slice.id in self.vnames:
                d = x.value
                if isinstance(d, ast.Name):
                    ds = self.defs.get(d.id) or self.fn.module.assigns.get(d.id) or []
                    d = ds[0] if len(ds) == 1 else None
                if isinstance(d, ast.Dict) and all(k is not None for k in d.keys):
                    try:
                        keys = [self.ev(k, u) for k in d.keys]
                    except _Undecided:
                        continue
                    if u not in keys:
                        return True
        return False

    def _is_copy(self, n):
        a = n.ast
        return isinstance(a, ast.Assign) and isinstance(a.value, ast.Name) and a.value.id in self.vnames and all(
            isinstance(t, ast.Name) for t in a.targets)

    def walk(self, u):
        """(set of node ids reached after the version was bound with value u, witness of a path to the normal
        exit or None)."""
        seen = set()
        wit = None
        for s in self.starts:
            def transfer(n, lab, nxt, live):
                if not live:
                    return live
                if n.kind == "test" and isinstance(lab, tuple) and self.mentions(n.ast):
                    try:
                        val = bool(self.ev(n.ast, u))
                    except _Undecided:
                        return live
                    if (lab[0] == "T") != val:
                        return None
                    return live
                if n.kind not in ("entry", "exit", "raise") and n.id not in self.bind:
                    if self.vnames & node_stores(n) and not self._is_copy(n):
                        return False        # the variable no longer holds the version field: nothing is known
                    if lab != "exc" and self._dict_miss(n, u):
                        return None
                return live
            visited, parent = explore(self.cfg, True, transfer, start=s)
            self.states += len(visited)
            seen |= {nid for (nid, _st) in visited}
            if wit is None:
                for st in (True, False):
                    if (self.cfg.exit.id, st) in visited:
                        wit = witness(self.cfg, parent, (self.cfg.exit.id, st))
                        break
        return seen, wit

    def candidates(self, known):
        """One representative of every interval the reader's comparisons can tell apart, within the field's range."""
        ks = self.constants() | set(known)
        out = {0, self.fieldmax}
        for c in ks:
            out |= {c - 1, c, c + 1}
        return sorted(v for v in out if 0 <= v <= self.fieldmax)


def first_packed_constant(F, fn, min_values=2):
    """The constant first values of the struct.pack calls of a writer method (the version it writes)."""
    out = set()
    for c in struct_calls(fn, "pack"):
        if len(c.args) > min_values:
            v = F.expr(c.args[1], fn)
            if isinstance(v, int) and not isinstance(v, bool):
                out.add(v)
    return out


# ======================================================================== run
def run(ctx: Context):
    idx = ctx.idx
    F = Folding(idx)
    _pr = {}

    def b32_probe():
        if "v" not in _pr:
            _pr["v"] = _b32_probe(idx, F)
        return _pr["v"]
    lease_mod = idx.module("allmydata.storage.lease")
    li = idx.cls(LEASE)
    fmts = {}
    for kind, cname in (("immutable", "IMMUTABLE_FORMAT"), ("mutable", "MUTABLE_FORMAT")):
        fmts[kind] = F.fo.module_const("storage.lease", cname)
        if not isinstance(fmts[kind], str):
            raise AnalysisError("%s does not fold to a string" % cname)
    init_names = {}
    for k, vs in li.attrs.items():
        if isinstance(vs[-1], ast.Call) and call_name(vs[-1]) in ("attr.ib", "attrib", "attr.attrib"):
            init_names[k.lstrip("_")] = k
    if len(init_names) < 5:
        raise AnchorVanished("LeaseInfo attr.ib fields (found %s)" % sorted(init_names))

    # ---- 1. lease records ------------------------------------------------------
    with ctx.rule("C38.1", "R5", "lease records: format == pack format == unpack format; pack argument i is the field "
                  "named by names[i]; widths fit; sizes = calcsize; serializer and schema pairing", expected=17) as r:
        for kind in ("immutable", "mutable"):
            fmt = fmts[kind]
            cname = kind.upper() + "_FORMAT"
            fields = struct_fields(fmt)
            r.site("storage.lease:%s = %r" % (cname, fmt))
            r.count(len(fields))
            frozen, why = FROZEN_FORMATS[cname]
            r.require(fmt == frozen, "allmydata.storage.lease:" + cname, lease_mod.relpath,
                      "%s is %r; compat-frozen %r (a change alters %s)" % (cname, fmt, frozen, why))
            # writer
            w = idx.func(LEASE + ".to_%s_data" % kind)
            packs = struct_calls(w, "pack")
            if len(packs) != 1:
                raise AnchorVanished("%s: %d struct.pack calls" % (w.qual, len(packs)))
            pc = packs[0]
            r.site(w, pc, "pack")
            r.require(F.expr(pc.args[0], w) == fmt, w, w.loc(pc), "packs with %r, the record format is %r" % (
                F.expr(pc.args[0], w), fmt))
            wfields = []
            for a in pc.args[1:]:
                inner = a.args[0] if (isinstance(a, ast.Call) and call_name(a) == "int" and len(a.args) == 1) else a
                p = attr_path(inner) or ""
                wfields.append((p[5:].lstrip("_") if p.startswith("self.") else "?" + src(w, a), a is not inner))
            r.require(len(wfields) == len(fields), w, w.loc(pc), "%d values packed into %d fields of %r" % (
                len(wfields), len(fields), fmt))
            # reader
            rd = idx.func(LEASE + ".from_%s_data" % kind)
            ups = struct_calls(rd, "unpack")
            if len(ups) != 1:
                raise AnchorVanished("%s: %d struct.unpack calls" % (rd.qual, len(ups)))
            uc = ups[0]
            r.site(rd, uc, "unpack")
            r.require(F.expr(uc.args[0], rd) == fmt, rd, rd.loc(uc), "unpacks with %r, the writer packs with %r" % (
                F.expr(uc.args[0], rd), fmt))
            zips = calls_in_func(rd, "zip")
            names = None
            defs = all_defs(rd)
            for z in zips:
                if len(z.args) == 2:
                    a0 = z.args[0]
                    if isinstance(a0, ast.Name) and len(defs.get(a0.id, [])) == 1:
                        a0 = defs[a0.id][0]
                    a1 = z.args[1]
                    if isinstance(a1, ast.Name) and len(defs.get(a1.id, [])) == 1:
                        a1 = defs[a1.id][0]
                    if isinstance(a0, (ast.List, ast.Tuple)) and a1 is uc and all(
                            isinstance(x, ast.Constant) and isinstance(x.value, str) for x in a0.elts):
                        names = [x.value for x in a0.elts]
            if names is None:
                raise AnchorVanished("%s: zip(<literal names>, struct.unpack(...)) not found" % rd.qual)
            r.require(len(names) == len(fields), rd, rd.loc(uc), "%d names for %d unpacked values" % (len(names), len(fields)))
            r.require(len(set(names)) == len(names), rd, rd.loc(uc), "duplicate field name in %s" % names)
            for i, (wf, nm) in enumerate(zip(wfields, names)):
                r.require(wf[0] == nm, rd, rd.loc(uc), "field %d of the %s lease record: the writer packs %s, the reader "
                          "names it %s" % (i, kind, wf[0], nm))
            for i, nm in enumerate(names[:len(fields)]):
                r.require(nm in init_names, rd, rd.loc(uc), "%r is not a LeaseInfo field (%s)" % (nm, sorted(init_names)))
                want = FROZEN_FIELD.get(nm)
                r.require(want is None or fields[i] == want, "allmydata.storage.lease:" + cname, lease_mod.relpath,
                          "field %d (%s) of %s is %r; the value needs %r" % (i, nm, cname, field_fmt(fields[i]),
                                                                            field_fmt(want) if want else None))
            for i, (nm, conv) in enumerate(wfields[:len(fields)]):
                if nm == "expiration_time":
                    r.require(conv, w, w.loc(pc), "the expiration time is packed into an integer field without int(): "
                              "renewal times are floats (time.time() + duration) and struct.pack raises on them")
            # sizes
            szfn = idx.func(LEASE + ".%s_size" % kind)
            r.site(szfn, None)
            r.require(F.returns(szfn) == _struct.calcsize(fmt), szfn, szfn.loc(),
                      "%s_size() is %r, a record is %d bytes" % (kind, F.returns(szfn), _struct.calcsize(fmt)))
            ccls = idx.cls(SF if kind == "immutable" else MSF)
            ls = F.fo.class_attr(ccls, "LEASE_SIZE") if "LEASE_SIZE" in ccls.attrs else None
            r.site("%s.LEASE_SIZE" % ccls.name)
            r.require(ls == _struct.calcsize(fmt), ccls.qual + ".LEASE_SIZE", ccls.module.relpath,
                      "%s.LEASE_SIZE is %r, a %s lease record is %d bytes" % (ccls.name, ls, kind, _struct.calcsize(fmt)))
        # serializers pair writer and reader of one container kind
        lsm = idx.module("allmydata.storage.lease_schema")
        for ver, cls_name in ((1, "CleartextLeaseSerializer"), (2, "HashedLeaseSerializer")):
            for kind in ("immutable", "mutable"):
                nm = "v%d_%s" % (ver, kind)
                vals = lsm.assigns.get(nm)
                if not vals or not isinstance(vals[-1], ast.Call):
                    raise AnchorVanished("lease_schema.%s" % nm)
                c = vals[-1]
                r.site("lease_schema:%s" % nm)
                a0 = kwarg(c, "to_data") or arg(c, 0)
                a1 = kwarg(c, "from_data") or arg(c, 1)
                got = (call_tail(c), getattr(a0, "attr", None), getattr(a1, "attr", None))
                want = (cls_name, "to_%s_data" % kind, "from_%s_data" % kind)
                r.require(got == want, "allmydata.storage.lease_schema:" + nm, lsm.relpath,
                          "%s = %s(%s, %s) ; a %s container needs %s(%s, %s)" % ((nm,) + got + (kind,) + want))
        for mname, kind, tail in (("allmydata.storage.immutable_schema", "immutable", "_Schema"),
                                  ("allmydata.storage.mutable_schema", "mutable", "for_version")):
            m = idx.module(mname)
            ents = schema_entries(m, tail)
            r.site("%s:ALL_SCHEMAS (%d versions)" % (mname.split(".")[-1], len(ents)))
            vs = [v for v, _, _ in ents]
            r.require(len(set(vs)) == len(vs) and None not in vs, mname + ":ALL_SCHEMAS", m.relpath,
                      "schema versions %s are not distinct constants" % vs)
            for v, s, c in ents:
                r.require(s == "v%s_%s" % (v, kind), mname + ":ALL_SCHEMAS", m.relpath,
                          "%s schema version %s uses lease serializer %s (expected v%s_%s)" % (kind, v, s, v, kind))
        # hashed secrets still fit the 32s fields
        hs = idx.func("storage.lease_schema:HashedLeaseSerializer._hash_secret")
        bl = calls_in_func(hs, "blake2b")
        if not bl:
            raise AnchorVanished("_hash_secret no longer calls blake2b")
        for c in bl:
            r.site(hs, c)
            ds = kwarg(c, "digest_size")
            enc = kwarg(c, "encoder")
            width = FROZEN_FIELD["renew_secret"][1]
            r.require(ds is not None and F.expr(ds, hs) == width, hs, hs.loc(c),
                      "hashed lease secrets are %s bytes; the record fields hold %d (struct pads/truncates silently)" % (
                          src(hs, ds) if ds is not None else "64 (blake2b default)", width))
            r.require(enc is not None and attr_path(enc) in ("RawEncoder", "nacl.encoding.RawEncoder", "encoding.RawEncoder"),
                      hs, hs.loc(c), "blake2b encoder is %s: a non-raw encoding does not fit the %d-byte field" % (
                          src(hs, enc) if enc is not None else "HexEncoder (default)", width))

    # ---- 2. immutable container header ----------------------------------------
    with ctx.rule("C38.2", "R5", "immutable share file header: '>LLL' written by _Schema.header, read by "
                  "ShareFile.__init__/get_leases/is_valid_header; offsets 0x08/0x0c and the lease offset formulas "
                  "derive from it", expected=12) as r:
        hw = idx.func("storage.immutable_schema:_Schema.header")
        packs = struct_calls(hw, "pack")
        if len(packs) != 1:
            raise AnchorVanished("immutable_schema._Schema.header: %d struct.pack calls" % len(packs))
        pc = packs[0]
        hf = F.expr(pc.args[0], hw)
        if not isinstance(hf, str):
            raise AnalysisError("immutable header format does not fold")
        r.site(hw, pc, "writer %r" % hf)
        frozen, why = FROZEN_FORMATS["immutable header"]
        r.require(hf == frozen, hw, hw.loc(pc), "header format %r; compat-frozen %r (%s)" % (hf, frozen, why))
        hfields = struct_fields(hf)
        hsize = _struct.calcsize(hf)
        r.count(len(hfields))
        vals = pc.args[1:]
        r.require(len(vals) == len(hfields) == 3, hw, hw.loc(pc), "%d header values for %d fields" % (len(vals), len(hfields)))
        if len(vals) == 3:
            r.require(attr_path(vals[0]) == "self.version", hw, hw.loc(pc), "header field 0 is %s, readers take it as the "
                      "schema version" % src(hw, vals[0]))
            mx = 2 ** (8 * _struct.calcsize(hf[0] + field_fmt(hfields[1]))) - 1
            a = vals[1]
            ok = isinstance(a, ast.Call) and call_name(a) == "min" and len(a.args) == 2 and \
                sorted([F.expr(x, hw) if not isinstance(x, ast.Name) else x.id for x in a.args], key=str) == \
                sorted([mx, first_positional_params(hw)[0]], key=str)
            r.require(ok, hw, hw.loc(pc), "header field 1 is %s: a share larger than the field maximum %d must "
                      "saturate (struct.pack raises otherwise and the share cannot be created)" % (src(hw, a), mx))
            r.require(isinstance(vals[2], ast.Constant) and vals[2].value == 0, hw, hw.loc(pc),
                      "a new container is written with lease count %s" % src(hw, vals[2]))
        idx.cls(SF)
        hdr_targets = {}
        # readers of the whole header
        for mname, use in (("__init__", "schema_from_version"), ("get_leases", "range")):
            fn = idx.func(SF + "." + mname)
            ups = struct_calls(fn, "unpack")
            if not ups:
                raise AnchorVanished("%s no longer unpacks the header" % fn.qual)
            for c in ups:
                r.site(fn, c, "reader")
                got = F.expr(c.args[0], fn)
                r.require(got == hf, fn, fn.loc(c), "reads the header with %r, it is written with %r" % (got, hf))
                rd = c.args[1] if len(c.args) > 1 else None
                rsz = F.expr(rd.args[0], fn) if isinstance(rd, ast.Call) and call_tail(rd) == "read" and rd.args else None
                r.require(rsz == hsize, fn, fn.loc(c), "reads %r header bytes, the header is %d bytes" % (rsz, hsize))
                tg = unpack_targets(fn, c)
                hdr_targets[mname] = tg
                r.require(tg is not None and len(tg) == 3, fn, fn.loc(c), "header unpacked into %s" % tg)
                if tg and len(tg) == 3:
                    if use == "schema_from_version":
                        cs = calls_in_func(fn, "schema_from_version")
                        r.require(bool(cs) and all(isinstance(x.args[0], ast.Name) and x.args[0].id == tg[0] for x in cs),
                                  fn, fn.loc(c), "the schema is looked up with %s, header field 0 is %s" % (
                                      [src(fn, x.args[0]) for x in cs], tg[0]))
                        st = [assign_value(n, "self._num_leases") for n in fn.cfg().find(stores("self._num_leases"))]
                        st = [v for v in st if not (isinstance(v, ast.Constant))]
                        r.require(bool(st) and all(isinstance(v, ast.Name) and v.id == tg[2] for v in st), fn, fn.loc(c),
                                  "the lease count is taken from %s, header field 2 is %s" % ([src(fn, v) for v in st], tg[2]))
                    else:
                        cs = [x for x in calls_in_func(fn, "range")]
                        r.require(bool(cs) and all(len(x.args) == 1 and isinstance(x.args[0], ast.Name) and x.args[0].id == tg[2]
                                                   for x in cs), fn, fn.loc(c),
                                  "leases are enumerated over %s, header field 2 is %s" % ([src(fn, x) for x in cs], tg[2]))
        iv = idx.func(SF + ".is_valid_header")
        for c in struct_calls(iv, "unpack"):
            r.site(iv, c, "version reader")
            got = F.expr(c.args[0], iv)
            want = hf[0] + field_fmt(hfields[0])
            r.require(got == want, iv, iv.loc(c), "reads the version with %r, field 0 is %r" % (got, want))
            sl_ = c.args[1] if len(c.args) > 1 else None
            up = F.expr(sl_.slice.upper, iv) if isinstance(sl_, ast.Subscript) and isinstance(sl_.slice, ast.Slice) \
                and sl_.slice.lower is None and sl_.slice.upper is not None else None
            r.require(up == _struct.calcsize(want), iv, iv.loc(c), "takes %s as the version field (%d bytes)" % (
                src(iv, sl_), _struct.calcsize(want)))
        # offsets derived from the header size
        ini = idx.func(SF + ".__init__")
        fnorm = FlowNorm(ini)
        dn = ini.cfg().find(stores("self._data_offset"))
        if not dn:
            raise AnchorVanished("ShareFile.__init__ does not store _data_offset")
        for n in dn:
            r.site(ini, n.ast, "_data_offset")
            v = F.expr(assign_value(n, "self._data_offset"), ini)
            r.require(v == hsize, ini, ini.loc(n.ast), "_data_offset is %r, the header is %d bytes" % (v, hsize))
        ips = first_positional_params(ini)
        if len(ips) < 2:
            raise AnchorVanished("ShareFile.__init__(filename, max_size, ...)")
        mp = ips[1]
        itg = hdr_targets.get("__init__")
        fsn = [nm for nm, vs in all_defs(ini).items()
               if any(isinstance(v, ast.Call) and call_tail(v) == "getsize" for v in vs if v is not None)]
        if not itg or len(itg) != 3 or len(fsn) != 1:
            raise AnchorVanished("ShareFile.__init__: header targets %s / file size local %s" % (itg, fsn))
        nl, fs = itg[2], fsn[0]
        seen = set()
        for n in ini.cfg().find(stores("self._lease_offset")):
            v = assign_value(n, "self._lease_offset")
            here = fnorm.at(n)
            s_ = here.norm(v)
            forms = {here.norm(parse_expr("%s + %d" % (mp, hsize))): "create",
                     here.norm(parse_expr("%s - %s * self.LEASE_SIZE" % (fs, nl))): "open"}
            r.site(ini, n.ast, "_lease_offset")
            seen.add(forms.get(s_))
            r.require(s_ in forms, ini, ini.loc(n.ast), "_lease_offset = %s ; the leases start at %s + %d (new file) / "
                      "%s - %s*LEASE_SIZE (existing file)" % (s_, mp, hsize, fs, nl))
        r.require({"create", "open"} <= seen or None in seen, ini, ini.loc(), "the lease offset is not set on both the create "
                  "and the open path")
        for n in ini.cfg().find(stores("self._length")):
            here = fnorm.at(n)
            s_ = here.norm(assign_value(n, "self._length"))
            r.site(ini, n.ast, "_length")
            r.require(s_ == here.norm(parse_expr("%s - %d - %s * self.LEASE_SIZE" % (fs, hsize, nl))), ini, ini.loc(n.ast),
                      "_length = %s ; the data length is %s - %d - %s*LEASE_SIZE" % (s_, fs, hsize, nl))
        # the lease-count field
        cnt_off = prefix_size(hf, 2)
        for mname in ("_read_num_leases", "_write_encoded_num_leases"):
            fn = idx.func(SF + "." + mname)
            sk = calls_in_func(fn, "seek")
            if not sk:
                raise AnchorVanished("%s no longer seeks" % fn.qual)
            for c in sk:
                r.site(fn, c, "lease count offset")
                v = F.expr(c.args[0], fn) if c.args else None
                r.require(v == cnt_off, fn, fn.loc(c), "seeks to %r, the lease count is header field 2 at offset %d" % (v, cnt_off))
        rn = idx.func(SF + "._read_num_leases")
        for c in struct_calls(rn, "unpack"):
            r.require(attr_path(c.args[0]) == "self._lease_count_format", rn, rn.loc(c), "lease count read with %s" % src(rn, c.args[0]))
            rd = c.args[1] if len(c.args) > 1 else None
            ra = rd.args[0] if isinstance(rd, ast.Call) and call_tail(rd) == "read" and rd.args else None
            r.require(ra is not None and attr_path(ra) == "self._lease_count_size", rn, rn.loc(c),
                      "reads %s bytes for the lease count, not calcsize of its format" % (src(rn, ra) if ra is not None else None))
        for mname in ("_write_num_leases", "add_lease"):
            fn = idx.func(SF + "." + mname)
            for c in struct_calls(fn, "pack"):
                r.require(attr_path(c.args[0]) == "self._lease_count_format", fn, fn.loc(c),
                          "lease count written with %s, read with self._lease_count_format" % src(fn, c.args[0]))
        for attr, want in (("self._lease_count_format", None), ("self._lease_count_size", "struct.calcsize(self._lease_count_format)")):
            ns_ = ini.cfg().find(stores(attr))
            if not ns_:
                raise AnchorVanished("ShareFile.__init__ does not store %s" % attr)
            if want:
                for n in ns_:
                    r.require(norm_plain(assign_value(n, attr)) == norm_src(want), ini, ini.loc(n.ast), "%s = %s" % (
                        attr, src(ini, assign_value(n, attr))))
        fx = idx.func("storage.immutable:_fix_lease_count_format")
        r.site(fx, None, "lease count format")
        dflt = None
        a = ini.node.args
        for p, d in zip(a.args[len(a.args) - len(a.defaults):], a.defaults):
            if p.arg == "lease_count_format":
                dflt = F.expr(d, ini)
        fld = hf[0] + field_fmt(hfields[2])
        ret = F.returns_with(fx, {first_positional_params(fx)[0]: dflt}) if dflt is not None else None
        r.require(ret == fld, fx, fx.loc(), "the default lease count format is %r, header field 2 is %r" % (ret, fld))
        fxn = FlowNorm(fx)
        bound_ok = False
        fcfg = fx.cfg()
        for n in fcfg.find(lambda n: n.kind == "test"):
            for (d, lab) in fcfg.succ[n.id]:
                f = fxn.edge_fact(n, lab)
                if f and "calcsize" in (f[2] or "") and (f[0], f[1]) in (("<", str(_struct.calcsize(fld))),
                                                                          ("<=", str(_struct.calcsize(fld) + 1))):
                    visited, _p = explore(fcfg, 0, lambda a, b, c, st: 0, start=fcfg.nodes[d])
                    if "exit" not in {fcfg.nodes[i].kind for (i, _s) in visited}:
                        bound_ok = True
        r.require(bound_ok, fx, fx.loc(), "lease count formats wider than header field 2 (%d bytes) are not rejected: a "
                  "wider count overwrites the share data that starts at 0x%x" % (_struct.calcsize(fld), hsize))
        # record positions
        wl = idx.func(SF + "._write_lease_record")
        wn = FlowNorm(wl)
        ln = first_positional_params(wl)[1]
        for c in calls_in_func(wl, "seek"):
            n = cfg_node_of(wl, c)
            r.site(wl, c, "record offset")
            s = wn.norm(n, c.args[0])
            r.require(s == norm_src("self._lease_offset + %s * self.LEASE_SIZE" % ln), wl, wl.loc(c),
                      "lease %s is written at %s ; get_leases reads records of LEASE_SIZE bytes from _lease_offset" % (ln, s))
        gl = idx.func(SF + ".get_leases")
        for c in calls_in_func(gl, "seek"):
            r.require(attr_path(c.args[0]) == "self._lease_offset", gl, gl.loc(c), "leases are read from %s" % src(gl, c.args[0]))
        reads = [c for c in calls_in_func(gl, "read") if c.args and attr_path(c.args[0]) == "self.LEASE_SIZE"]
        r.require(bool(reads), gl, gl.loc(), "get_leases does not read records of self.LEASE_SIZE bytes")

    # ---- 3. mutable container header -----------------------------------------
    with ctx.rule("C38.3", "R5", "mutable share file header '>32s20s32sQQ': writer _header, reader "
                  "_read_write_enabler_and_nodeid, HEADER_SIZE/DATA_LENGTH_OFFSET/EXTRA_LEASE_OFFSET/DATA_OFFSET, the "
                  "accessors of fields 3/4 and of the extra-lease count, lease slot offsets", expected=21) as r:
        msm = idx.module("allmydata.storage.mutable_schema")
        msf = idx.cls(MSF)
        hw = idx.func("storage.mutable_schema:_header")
        hps = first_positional_params(hw)
        packs = struct_calls(hw, "pack")
        main = [c for c in packs if len(c.args) > 2]
        if len(main) != 1:
            raise AnchorVanished("mutable_schema._header: fixed-header pack call")
        pc = main[0]
        hf = F.expr(pc.args[0], hw)
        if not isinstance(hf, str):
            raise AnalysisError("mutable header format does not fold")
        frozen, why = FROZEN_FORMATS["mutable header"]
        r.site(hw, pc, "writer %r" % hf)
        r.require(hf == frozen, hw, hw.loc(pc), "header format %r; compat-frozen %r (%s)" % (hf, frozen, why))
        hfields = struct_fields(hf)
        hsize = _struct.calcsize(hf)
        r.count(len(hfields))
        vals = [a.id if isinstance(a, ast.Name) else (a.value if isinstance(a, ast.Constant) else src(hw, a)) for a in pc.args[1:]]
        want_w = ["magic", "nodeid", "write_enabler", 0, "extra_lease_offset"]
        for p in ("magic", "nodeid", "write_enabler", "extra_lease_offset"):
            if p not in hps:
                raise AnchorVanished("_header parameter %s" % p)
        r.require(vals == want_w, hw, hw.loc(pc), "header values are packed as %s ; layout is %s" % (vals, want_w))
        r.require(F.fo.module_const("storage.mutable_schema", "_HEADER_FORMAT") == hf, "allmydata.storage.mutable_schema:_HEADER_FORMAT",
                  msm.relpath, "_HEADER_FORMAT differs from the format _header packs with (%r)" % hf)
        # hops create() -> _Schema.header -> _header
        sh = idx.func("storage.mutable_schema:_Schema.header")
        sps = first_positional_params(sh)
        hc = calls_in_func(sh, "_header")
        if len(hc) != 1:
            raise AnchorVanished("_Schema.header -> _header call")
        r.site(sh, hc[0], "hop")
        got = {}
        for i, p in enumerate(hps):
            a = arg(hc[0], i, p)
            got[p] = attr_path(a) if a is not None else None
        want = {"magic": "self._magic", "extra_lease_offset": "_EXTRA_LEASE_OFFSET"}
        for p in ("nodeid", "write_enabler"):
            if p not in sps:
                raise AnchorVanished("_Schema.header parameter %s" % p)
            want[p] = p
        r.require(got == want, sh, sh.loc(hc[0]), "_header receives %s ; specified %s" % (got, want))
        cr = idx.func(MSF + ".create")
        cps = first_positional_params(cr)
        hcs = calls_in_func(cr, "header")
        if len(hcs) != 1:
            raise AnchorVanished("MutableShareFile.create -> schema.header call")
        r.site(cr, hcs[0], "hop")
        got = [attr_path(arg(hcs[0], sps.index(p), p)) for p in ("nodeid", "write_enabler")]
        r.require(got == [cps[0], cps[1]], cr, cr.loc(hcs[0]),
                  "schema.header(nodeid, write_enabler) receives %s from create(%s)" % (got, ", ".join(cps)))
        cm = idx.func("storage.mutable:create_mutable_sharefile")
        cmp_ = first_positional_params(cm)
        for c in calls_in_func(cm, "create"):
            r.site(cm, c, "hop")
            got = [attr_path(arg(c, i, p)) for i, p in enumerate(cps[:2])]
            r.require(got == ["my_nodeid", "write_enabler"] and "my_nodeid" in cmp_ and "write_enabler" in cmp_, cm, cm.loc(c),
                      "create(%s) receives %s" % (", ".join(cps[:2]), got))
        # reader
        rd = idx.func(MSF + "._read_write_enabler_and_nodeid")
        ups = struct_calls(rd, "unpack")
        if len(ups) != 1:
            raise AnchorVanished("_read_write_enabler_and_nodeid: struct.unpack")
        uc = ups[0]
        r.site(rd, uc, "reader")
        r.require(F.expr(uc.args[0], rd) == hf, rd, rd.loc(uc), "reads the header with %r, written with %r" % (F.expr(uc.args[0], rd), hf))
        tg = unpack_targets(rd, uc) or []
        r.require(len(tg) == len(hfields), rd, rd.loc(uc), "%d targets for %d header fields" % (len(tg), len(hfields)))
        rets = [v for v in ret_values(rd) if v is not None]
        if not rets:
            raise AnchorVanished("_read_write_enabler_and_nodeid returns nothing")
        for v in rets:
            ok = isinstance(v, ast.Tuple) and len(v.elts) == 2 and len(tg) == 5 and \
                [attr_path(x) for x in v.elts] == [tg[2], tg[1]]
            r.require(ok, rd, rd.loc(v), "returns %s ; (write enabler, nodeid) are header fields 2 and 1 = (%s)" % (
                src(rd, v), ", ".join(tg[2:0:-1]) if len(tg) == 5 else "?"))
        rdata = uc.args[1] if len(uc.args) > 1 else None
        dd = all_defs(rd).get(rdata.id, []) if isinstance(rdata, ast.Name) else []
        rsz = [attr_path(d.args[0]) for d in dd if isinstance(d, ast.Call) and call_tail(d) == "read" and d.args]
        r.require(rsz == ["self.HEADER_SIZE"], rd, rd.loc(uc), "the header is read with size %s" % rsz)
        sk = calls_in_func(rd, "seek")
        r.require(bool(sk) and all(F.expr(c.args[0], rd) == 0 for c in sk), rd, rd.loc(), "the header is not read from offset 0")
        ck = idx.func(MSF + ".check_write_enabler")
        ckp = first_positional_params(ck)[0]
        tsc = calls_in_func(ck, "timing_safe_compare")
        r.site(ck, None, "consumer")
        d = all_defs(ck)
        first = None
        for n in func_own_nodes(ck):
            if isinstance(n, ast.Assign) and isinstance(n.value, ast.Call) and call_tail(n.value) == "_read_write_enabler_and_nodeid" \
                    and isinstance(n.targets[0], (ast.Tuple, ast.List)):
                first = attr_path(n.targets[0].elts[0])
        r.require(first is not None and bool(tsc) and all({attr_path(a) for a in c.args} == {ckp, first} for c in tsc), ck, ck.loc(),
                  "check_write_enabler compares %s ; it must compare its argument with the first value (%s) returned by "
                  "_read_write_enabler_and_nodeid" % ([src(ck, c) for c in tsc], first))
        # constants
        consts = {
            "HEADER_SIZE": (hsize, "calcsize of the header format"),
            "DATA_LENGTH_OFFSET": (prefix_size(hf, 3), "offset of header field 3 (data length)"),
            "EXTRA_LEASE_OFFSET": (prefix_size(hf, 4), "offset of header field 4 (extra lease offset)"),
            "LEASE_SIZE": (_struct.calcsize(fmts["mutable"]), "calcsize of MUTABLE_FORMAT"),
        }
        vals_c = {}
        for cn, (wantv, what) in consts.items():
            v = F.fo.class_attr(msf, cn) if cn in msf.attrs else None
            vals_c[cn] = v
            r.site("MutableShareFile.%s" % cn)
            r.require(v == wantv, msf.qual + "." + cn, msf.module.relpath, "%s is %r ; %s is %d" % (cn, v, what, wantv))
        do = F.fo.class_attr(msf, "DATA_OFFSET") if "DATA_OFFSET" in msf.attrs else None
        r.site("MutableShareFile.DATA_OFFSET")
        r.require(do == hsize + 4 * _struct.calcsize(fmts["mutable"]) == FROZEN_DATA_OFFSET, msf.qual + ".DATA_OFFSET",
                  msf.module.relpath, "DATA_OFFSET is %r ; header (%d) + 4 lease slots (%d each) = %d ; compat-frozen %d" % (
                      do, hsize, _struct.calcsize(fmts["mutable"]), hsize + 4 * _struct.calcsize(fmts["mutable"]), FROZEN_DATA_OFFSET))
        elo = msm.assigns.get("_EXTRA_LEASE_OFFSET")
        if not elo:
            raise AnchorVanished("mutable_schema._EXTRA_LEASE_OFFSET")
        v = F.with_sizes(elo[-1], msm)
        r.site("mutable_schema:_EXTRA_LEASE_OFFSET")
        r.require(v == do, "allmydata.storage.mutable_schema:_EXTRA_LEASE_OFFSET", msm.relpath,
                  "a new (empty) container records extra-lease offset %r ; its data area starts at DATA_OFFSET = %r and is "
                  "empty" % (v, do))
        pieces = None
        for v in ret_values(hw):
            lst = v.args[0] if isinstance(v, ast.Call) and call_tail(v) == "join" and v.args else None
            if isinstance(lst, (ast.List, ast.Tuple)):
                pieces = [_local_def(hw, x) for x in lst.elts]
        if not pieces or len(pieces) < 2:
            raise AnchorVanished("_header no longer joins the container pieces")
        bl = pieces[1]
        bv = F.with_sizes(bl, msm)
        r.site(hw, bl, "lease slots")
        r.require(isinstance(bv, bytes) and len(bv) == 4 * _struct.calcsize(fmts["mutable"]) and not bv.strip(b"\x00"), hw,
                  hw.loc(bl), "the header is followed by %r bytes of blank leases ; 4 slots of %d zero bytes" % (
                      len(bv) if isinstance(bv, bytes) else None, _struct.calcsize(fmts["mutable"])))
        # the joined pieces: fixed header, blank leases, extra lease count
        cntp = [c for c in packs if c is not pc]
        cnt_fmt = F.expr(cntp[0].args[0], hw) if cntp else None
        r.require(len(cntp) == 1 and cnt_fmt == ">L" and F.expr(cntp[0].args[1], hw) == 0, hw, hw.loc(),
                  "a new container's extra-lease count is not pack('>L', 0)")
        r.require(len(pieces) == 3 and pieces[0] is pc and len(cntp) == 1 and pieces[2] is cntp[0], hw, hw.loc(),
                  "container pieces are joined as %s ; specified fixed header, blank lease slots, extra-lease count" % (
                      [src(hw, x) for x in pieces]))
        # accessors of single header fields
        acc = [
            ("_read_data_length", "unpack", "self.DATA_LENGTH_OFFSET", 3),
            ("_write_data_length", "pack", "self.DATA_LENGTH_OFFSET", 3),
            ("_read_extra_lease_offset", "unpack", "self.EXTRA_LEASE_OFFSET", 4),
            ("_write_extra_lease_offset", "pack", "self.EXTRA_LEASE_OFFSET", 4),
            ("_read_num_extra_leases", "unpack", None, None),
            ("_write_num_extra_leases", "pack", None, None),
        ]
        for mname, op, seekto, fi in acc:
            fn = idx.func(MSF + "." + mname)
            cs = struct_calls(fn, op)
            sk = calls_in_func(fn, "seek")
            if len(cs) != 1 or len(sk) != 1:
                raise AnchorVanished("%s: %d struct.%s, %d seek" % (fn.qual, len(cs), op, len(sk)))
            c = cs[0]
            r.site(fn, c, "accessor")
            wantf = (hf[0] + field_fmt(hfields[fi])) if fi is not None else cnt_fmt
            got = F.expr(c.args[0], fn)
            r.require(got == wantf, fn, fn.loc(c), "%s uses %r ; the field is %r" % (mname, got, wantf))
            if op == "unpack":
                rdc = c.args[1] if len(c.args) > 1 else None
                rsz = F.expr(rdc.args[0], fn) if isinstance(rdc, ast.Call) and call_tail(rdc) == "read" and rdc.args else None
                r.require(wantf is not None and rsz == _struct.calcsize(wantf), fn, fn.loc(c), "%s reads %r bytes for %r" % (mname, rsz, wantf))
            fnn = FlowNorm(fn)
            s = fnn.norm(cfg_node_of(fn, sk[0]), sk[0].args[0])
            if seekto is not None:
                r.require(s == seekto, fn, fn.loc(sk[0]), "%s seeks to %s ; the field lives at %s" % (mname, s, seekto))
            else:
                r.require(re.match(r"^self\._read_extra_lease_offset\(\w+\)$", s) is not None, fn, fn.loc(sk[0]),
                          "%s seeks to %s ; the extra-lease count lives at the extra-lease offset" % (mname, s))
        # lease slot offsets: same formulas in writer and reader
        forms = {}
        for mname in ("_write_lease_record", "_read_lease_record"):
            fn = idx.func(MSF + "." + mname)
            fnn = FlowNorm(fn)
            ln = first_positional_params(fn)[1]
            fp = first_positional_params(fn)[0]
            cnt = _struct.calcsize(cnt_fmt) if cnt_fmt else 4
            hdr_form = norm_src("self.HEADER_SIZE + %s * self.LEASE_SIZE" % ln)
            ext_forms = {norm_src("self._read_extra_lease_offset(%s) + %d + (%s - 4) * self.LEASE_SIZE" % (fp, cnt, ln)),
                         norm_src("extra_lease_offset + %d + (%s - 4) * self.LEASE_SIZE" % (cnt, ln))}
            got = set()
            cfg = fn.cfg()
            sk = calls_in_func(fn, "seek")
            ovs = {attr_path(c.args[0]) for c in sk if c.args}
            if len(ovs) != 1 or None in ovs:
                raise AnchorVanished("%s: seek to the slot offset held in one local (found %s)" % (fn.qual, sorted(map(str, ovs))))
            ov = ovs.pop()
            for n in cfg.find(stores(ov)):
                v = assign_value(n, ov)
                s = fnn.norm(n, v)
                got.add(s)
                r.require(s == hdr_form or s in ext_forms, fn, fn.loc(n.ast), "lease slot %s is placed at %s ; slots 0-3 live at "
                          "HEADER_SIZE + n*LEASE_SIZE, later ones at extra_lease_offset + %d + (n-4)*LEASE_SIZE" % (ln, s, cnt))
            r.site(fn, None, "slot offsets")
            r.require(hdr_form in got and bool(got & ext_forms), fn, fn.loc(), "%s does not address both the header slots and "
                      "the extra slots (%s)" % (mname, sorted(got)))
            forms[mname] = got
            r.count(len(cfg.nodes))

            def in_header(n, lab, _ln=ln, _fnn=fnn):
                f = _fnn.edge_fact(n, lab)
                return bool(f) and f[0] == "<" and f[1] == _ln and f[2] == "4"
            tg = lambda n, _f=hdr_form, _fnn=fnn, _ov=ov: _ov in node_stores(n) and assign_value(n, _ov) is not None \
                and _fnn.norm(n, assign_value(n, _ov)) == _f
            for (n, wpath) in find_path_avoiding(cfg, tg, gate_edge=in_header):
                r.violation(fn, fn.loc(n.ast), "the header-slot formula is used without %s < 4 (path: %s)" % (ln, wpath.brief()), wpath)
            r.require(bool(sk), fn, fn.loc(), "%s does not seek to the computed offset" % mname)
        rl = idx.func(MSF + "._read_lease_record")
        reads = [c for c in calls_in_func(rl, "read") if c.args and attr_path(c.args[0]) == "self.LEASE_SIZE"]
        r.require(bool(reads), rl, rl.loc(), "_read_lease_record does not read self.LEASE_SIZE bytes")

    # ---- 4. magic strings / versions ----------------------------------------
    with ctx.rule("C38.4", "R5", "mutable container magic: 32 bytes = header field 0, distinct per version, compat-frozen, "
                  "compared over its whole length", expected=5) as r:
        msm = idx.module("allmydata.storage.mutable_schema")
        mg = idx.func("storage.mutable_schema:_magic")
        ents = schema_entries(msm, "for_version")
        magics = {}
        width = struct_fields(F.fo.module_const("storage.mutable_schema", "_HEADER_FORMAT"))[0]
        for v, s, c in ents:
            r.site(mg, None, "version %s" % v)
            try:
                m = MagicEval(F.fo, msm).call(mg, [v], {})
            except NotConstant as e:
                r.violation(mg, mg.loc(), "_magic(%s) cannot be evaluated: %s" % (v, e))
                continue
            magics[v] = m
            r.require(isinstance(m, bytes) and width == ("s", len(m)), mg, mg.loc(),
                      "_magic(%s) is %d bytes, header field 0 is %s" % (v, len(m) if isinstance(m, bytes) else -1, field_fmt(width)))
            if v in FROZEN_MAGIC:
                r.require(m == FROZEN_MAGIC[v], mg, mg.loc(), "_magic(%s) = %r ; compat-frozen %r (the first 32 bytes of every "
                          "existing v%s mutable share file)" % (v, m, FROZEN_MAGIC[v], v))
        ms = list(magics.values())
        r.require(len(set(ms)) == len(ms), mg, mg.loc(), "two schema versions share a magic string")
        fv = idx.func("storage.mutable_schema:_Schema.for_version")
        r.site(fv, None)
        ok = False
        for c in calls_in_func(fv, "cls"):
            a = kwarg(c, "magic") or arg(c, 2)
            ok = isinstance(a, ast.Call) and call_tail(a) == "_magic" and len(a.args) == 1 and \
                attr_path(a.args[0]) == first_positional_params(fv)[0] and attr_path(arg(c, 0, "version")) == first_positional_params(fv)[0]
        r.require(ok, fv, fv.loc(), "for_version does not build the schema with _magic(version) of the same version")
        mm = idx.func("storage.mutable_schema:_Schema.magic_matches")
        r.site(mm, None)
        cp = first_positional_params(mm)[0]
        rets = [v for v in ret_values(mm) if v is not None]
        want = {norm_src("%s[:len(self._magic)] == self._magic" % cp), norm_src("%s.startswith(self._magic)" % cp)}
        r.require(bool(rets) and all(N(mm).norm(v) in want for v in rets), mm, mm.loc(),
                  "magic_matches returns %s ; the whole magic must be compared" % [src(mm, v) for v in rets])
        sfh = idx.func("storage.mutable_schema:schema_from_header")
        r.site(sfh, None)
        r.require(bool(calls_in_func(sfh, "magic_matches")), sfh, sfh.loc(), "schema_from_header does not use magic_matches")

    # ---- 5. netstring ----------------------------------------------------------
    nsw = idx.func("util.netstring:netstring")
    rets = [v for v in ret_values(nsw) if v is not None]
    if len(rets) != 1:
        raise AnchorVanished("netstring(): single return")
    rexpr = rets[0]
    with ctx.rule("C38.5", "R5", "netstring writer '<decimal length>:<bytes>,' and split_netstring consume the same "
                  "grammar (delimiter, length slice, payload slice, trailer, advance)", expected=2) as r:
        sp = first_positional_params(nsw)[0]
        r.site(nsw, None, "writer")
        wt = flatten_bytes(rexpr, all_defs(nsw), F, nsw)
        ok = len(wt) == 4 and wt[0] == ("dec", "len(%s)" % sp) and wt[1][0] == "lit" and wt[2] == ("raw", sp) and wt[3][0] == "lit"
        r.require(ok, nsw, nsw.loc(), "netstring() returns %s ; the grammar is <decimal len(s)> <delimiter> s <trailer>" % src(nsw, rexpr))
        delim, trailer = (wt[1][1].decode("latin-1"), wt[3][1].decode("latin-1")) if ok else (":", ",")
        r.require(len(delim) == 1 and len(trailer) == 1 and not delim.isdigit(), nsw, nsw.loc(),
                  "delimiter %r / trailer %r" % (delim, trailer))
        rdf = idx.func("util.netstring:split_netstring")
        rps = first_positional_params(rdf)
        loops = [st for st in rdf.node.body if isinstance(st, ast.While)]
        if len(loops) != 1:
            raise AnchorVanished("split_netstring: single while loop")
        env, ev = straight_line(loops[0].body)
        r.count(len(ev))
        r.site(rdf, loops[0], "reader")
        dn, pn = rps[0], rps[2] if len(rps) > 2 else "position"
        D_, T_ = repr(delim.encode("latin-1")), repr(trailer.encode("latin-1"))
        ref = ("colon = {d}.index({D}, {p})\nlength = int({d}[{p}:colon])\nstring = {d}[colon+1:colon+1+length]\n"
               "position2 = colon+1+length\n").format(d=dn, p=pn, D=D_)
        renv, _ = ref_run(ref)
        app = [e for e in ev if e[0] == "call" and call_tail(e[1]) == "append" and len(e[1].args) == 1]
        r.require(len(app) == 1 and nf(app[0][1].args[0]) == nf(renv["string"]), rdf, rdf.loc(loops[0]),
                  "the element taken is %s ; a netstring's payload is %s" % (
                      nf(app[0][1].args[0]) if app else None, nf(renv["string"])))
        tr_forms = {nf(_sub(ast.parse(t, mode="eval").body, {"P2": renv["position2"]})) for t in (
            "%s[P2] == %s[0]" % (dn, T_), "%s[P2] == %d" % (dn, ord(trailer)), "%s[P2:P2+1] == %s" % (dn, T_))}
        asserts = {nf(e[1]) for e in ev if e[0] == "assert"}
        r.require(bool(asserts & tr_forms), rdf, rdf.loc(loops[0]), "no check that the byte after the payload is the trailer %s "
                  "(checks present: %s)" % (T_, sorted(asserts)))
        want_pos = nf(_sub(ast.parse("P2 + 1", mode="eval").body, {"P2": renv["position2"]}))
        r.require(pn in env and nf(env[pn]) == want_pos, rdf, rdf.loc(loops[0]), "after one netstring the position is %s ; "
                  "specified %s" % (nf(env[pn]) if pn in env else None, want_pos))
        # malformed input is rejected: truncated payload, too few strings, leftover data
        len_forms = {nf(_sub(ast.parse(t, mode="eval").body, {"S": renv["string"], "L": renv["length"]})) for t in (
            "len(S) == L", "L == len(S)")}
        r.require(bool(asserts & len_forms), rdf, rdf.loc(loops[0]), "no check that the payload has the announced length (a "
                  "netstring cut short inside its payload is returned as a shorter string); checks present: %s" % sorted(asserts))
        rcfg = rdf.cfg()
        rn = FlowNorm(rdf)
        r.count(len(rcfg.nodes))
        raw_app = [n for n in ast.walk(loops[0]) if isinstance(n, ast.Call) and call_tail(n) == "append" and len(n.args) == 1]
        elems = attr_path(raw_app[0].func.value) if raw_app else None
        num = rps[1] if len(rps) > 1 else "numstrings"
        tp = rps[3] if len(rps) > 3 else "required_trailer"
        if elems is None or not rcfg.find(is_return):
            raise AnchorVanished("split_netstring: the list of elements / a return statement")

        def enough(n, lab):
            f = rn.edge_fact(n, lab)
            return f is not None and f == rn.at(n).cmp(parse_expr("len(%s) >= %s" % (elems, num)), True)
        for (t, w) in find_path_avoiding(rcfg, is_return, gate_edge=enough):
            r.violation(rdf, rdf.loc(t.ast), "split_netstring returns without the fact len(%s) >= %s: data that holds fewer "
                        "netstrings than asked for is accepted (path %s)" % (elems, num, w.brief()), w)

        def tr3(n, lab, nxt, st):
            if lab == "exc":
                return None
            f = rn.edge_fact(n, lab)
            if f is not None:
                if f[0] == "is not" and {f[1], f[2]} == {tp, "None"}:
                    st = max(st, 1)
                elif f[0] == "is" and {f[1], f[2]} == {tp, "None"}:
                    st = 0
                elif f == rn.at(n).cmp(parse_expr("%s[%s:] == %s" % (dn, pn, tp)), True):
                    st = 2
            if st == 2 and pn in node_stores(n):
                st = 1
            return st
        visited, parent = explore(rcfg, 0, tr3)
        if not any(st >= 1 for (_i, st) in visited):
            raise AnchorVanished("split_netstring no longer tests `%s is not None`" % tp)
        for (nid, st) in sorted(visited):
            if st == 1 and is_return(rcfg.nodes[nid]):
                w = witness(rcfg, parent, (nid, st))
                r.violation(rdf, rdf.loc(rcfg.nodes[nid].ast), "with a required trailer split_netstring returns without the fact "
                            "%s[%s:] == %s: leftover bytes after the last netstring are accepted (path %s)" % (dn, pn, tp, w.brief()), w)
                break

    # ---- 6. URI extension block -----------------------------------------------
    with ctx.rule("C38.6", "R5", "UEB: pack_extension emits key ':' netstring(value) with decimal ints and colon-free keys; "
                  "unpack_extension consumes that grammar; int keys == keys stored from the encoder's integer parameters",
                  expected=4) as r:
        pk = idx.func("uri:pack_extension")
        fors = [st for st in pk.node.body if isinstance(st, ast.For)]
        if len(fors) != 1:
            raise AnchorVanished("pack_extension: single for loop")
        lp = fors[0]
        r.site(pk, lp, "writer")
        apps = [n for n in ast.walk(lp) if isinstance(n, ast.Call) and call_tail(n) == "append" and len(n.args) == 1]
        if len(apps) != 1:
            raise AnchorVanished("pack_extension: single pieces.append")
        doc = " ".join(read_repo_text("docs/specifications/URI-extension.rst").split())
        mo = re.search(r'write\("%s(.)" % k\) write\(netstring\(data\[k\]\)\)', doc)
        if not mo:
            raise AnchorVanished("URI-extension.rst no longer spells out the serialization of an entry")
        spec_delim = mo.group(1).encode("ascii")
        ent = flatten_bytes(apps[0].args[0], {}, F, pk)
        kdelim = None
        nscall = [n for n in ast.walk(apps[0].args[0]) if isinstance(n, ast.Call) and idx.resolve_expr(pk.module, n.func) is nsw]
        okw = len(ent) == 3 and ent[0][0] == "raw" and re.match(r"^\w+$", ent[0][1]) and ent[1][0] == "lit" and ent[2][0] == "raw" \
            and len(nscall) == 1 and len(nscall[0].args) == 1 and ent[2][1] == norm_plain(nscall[0])
        r.require(bool(okw), pk, pk.loc(apps[0]), "a UEB entry is %s ; specified key + b'%s' + netstring(value)" % (
            src(pk, apps[0].args[0]), spec_delim.decode()))
        if okw:
            kdelim = ent[1][1]
            r.require(kdelim == spec_delim, pk, pk.loc(apps[0]), "key delimiter %r ; URI-extension.rst writes 'key%s'" % (
                kdelim, spec_delim.decode()))
        # ints are written in decimal
        dec_ok = False
        for n in ast.walk(lp):
            tst = n.test if isinstance(n, ast.If) else None
            while isinstance(tst, ast.UnaryOp) and isinstance(tst.op, ast.Not) and isinstance(tst.operand, ast.UnaryOp) \
                    and isinstance(tst.operand.op, ast.Not):
                tst = tst.operand.operand
            if isinstance(n, ast.If) and isinstance(tst, ast.Call) and call_tail(tst) == "isinstance" and \
                    len(tst.args) == 2 and attr_path(tst.args[1]) == "int":
                vn = attr_path(tst.args[0])
                for st in n.body:
                    if isinstance(st, ast.Assign) and attr_path(st.targets[0]) == vn:
                        if flatten_bytes(st.value, {}, F, pk) == [("dec", vn)] or norm_plain(st.value) in (
                                norm_src("str(%s).encode('ascii')" % vn), norm_src("str(%s).encode()" % vn),
                                norm_src("str(%s).encode('utf-8')" % vn), norm_src("('%%d' %% %s).encode('ascii')" % vn)):
                            dec_ok = True
        r.require(dec_ok, pk, pk.loc(lp), "integer values are not written in decimal (b'%d' % value); unpack_extension reads "
                  "them with int()")
        # keys cannot contain the delimiter
        rx = None
        for n in ast.walk(lp):
            if isinstance(n, ast.Call) and call_name(n) in ("re.match", "re.fullmatch") and n.args:
                rx = (F.expr(n.args[0], pk), call_name(n))
        if rx is None or not isinstance(rx[0], bytes):
            r.violation(pk, pk.loc(lp), "keys are not restricted by a regular expression: a key containing ':' is split at "
                        "the wrong place by unpack_extension")
        else:
            ra = regex_ast(rx[0].decode("latin-1"))
            excl = _regex_excludes(ra, ord(":"))
            r.require(excl and (regex_end_anchor(ra) is not None or rx[1] == "re.fullmatch"), pk, pk.loc(lp),
                      "the key pattern %r admits ':' (or a suffix after the checked prefix)" % rx[0])
        # reader
        up = idx.func("uri:unpack_extension")
        udp = first_positional_params(up)[0]
        loops = [st for st in up.node.body if isinstance(st, ast.While)]
        if len(loops) != 1:
            raise AnchorVanished("unpack_extension: single while loop")
        r.site(up, loops[0], "reader")
        r.require(N().cmp(loops[0].test, True) == ("truth", udp, None), up, up.loc(loops[0]), "the loop runs while %s ; every byte of the block must "
                  "be consumed" % norm_plain(loops[0].test))
        env, ev = straight_line(loops[0].body)
        r.count(len(ev))
        KD = repr(kdelim or b":")
        D_ = repr(delim.encode("latin-1"))
        T_ = repr(trailer.encode("latin-1"))
        ref = ("c1 = {d}.index({KD})\nkey = {d}[:c1]\nd1 = {d}[c1+1:]\nc2 = d1.index({D})\nlength = int(d1[:c2])\n"
               "d2 = d1[c2+1:]\nvalue = d2[:length]\nrest = d2[length+1:]\n").format(d=udp, KD=KD, D=D_)
        renv, _ = ref_run(ref)
        sets = [e for e in ev if e[0] == "setitem"]
        key_forms = {nf(_sub(ast.parse(t, mode="eval").body, {"K": renv["key"]})) for t in
                     ('str(K, "utf-8")', 'K.decode("utf-8")', 'str(K, "ascii")', 'K.decode("ascii")')}
        r.require(len(sets) == 1 and nf(sets[0][2]) in key_forms and nf(sets[0][3]) == nf(renv["value"]), up, up.loc(loops[0]),
                  "the entry read is [%s] = %s ; the writer's grammar gives [%s] = %s" % (
                      nf(sets[0][2]) if sets else None, nf(sets[0][3]) if sets else None, sorted(key_forms)[0], nf(renv["value"])))
        tr_forms = {nf(_sub(ast.parse(t, mode="eval").body, {"D2": renv["d2"], "length": renv["length"]})) for t in (
            "D2[length:length+1] == %s" % T_, "D2[length] == %s[0]" % T_, "D2[length] == %d" % ord(trailer))}
        asserts = {nf(e[1]) for e in ev if e[0] == "assert"}
        r.require(bool(asserts & tr_forms), up, up.loc(loops[0]), "no check that the value is followed by the trailer %s "
                  "(checks present: %s)" % (T_, sorted(asserts)))
        r.require(udp in env and nf(env[udp]) == nf(renv["rest"]), up, up.loc(loops[0]), "after one entry the remaining data is %s ; "
                  "specified %s" % (nf(env[udp]) if udp in env else None, nf(renv["rest"])))
        # int keys
        intkeys, conv_ok = None, False
        conv_nodes = []
        for st in up.node.body:
            if isinstance(st, ast.For) and isinstance(st.iter, (ast.Tuple, ast.List)) and all(
                    isinstance(x, ast.Constant) and isinstance(x.value, str) for x in st.iter.elts):
                intkeys = {x.value for x in st.iter.elts}
                lv = attr_path(st.target)
                for n in ast.walk(st):
                    if isinstance(n, ast.Assign) and isinstance(n.targets[0], ast.Subscript) and isinstance(n.value, ast.Call) \
                            and call_name(n.value) == "int" and len(n.value.args) == 1 and not n.value.keywords \
                            and norm_plain(n.value.args[0]) == norm_plain(n.targets[0]) and attr_path(n.targets[0].slice) == lv:
                        conv_ok = True
                        conv_nodes.append((n, lv, attr_path(n.targets[0].value)))
        if intkeys is None:
            raise AnchorVanished("unpack_extension: the literal tuple of integer keys")
        r.site(up, None, "int keys %s" % sorted(intkeys))
        r.require(conv_ok, up, up.loc(), "integer keys are not converted with d[k] = int(d[k])")
        ucfg = up.cfg()
        unorm = FlowNorm(up)
        for (cn, lv_, dv_) in conv_nodes:
            def present(n, lab, _lv=lv_, _dv=dv_):
                f = unorm.edge_fact(n, lab)
                return f is not None and f[0] == "in" and f[1] == _lv and f[2] == _dv
            for (t, w) in find_path_avoiding(ucfg, lambda n, _c=cn: n.kind == "stmt" and n.ast is _c, gate_edge=present,
                                             kill=lambda n, _lv=lv_: n.kind == "iter" and _lv in node_stores(n)):
                r.violation(up, up.loc(cn), "%s[%s] is converted to int without the fact `%s in %s`: keys that are present stay "
                            "bytes (or a block without the key fails) on the path %s" % (dv_, lv_, lv_, dv_, w.brief()), w)
        rets_ = ret_values(up)
        dnames = {dv_ for (_c, _l, dv_) in conv_nodes} | {attr_path(e[1]) for e in sets}
        r.require(bool(rets_) and all(v is not None and attr_path(v) in dnames for v in rets_) and len(dnames) == 1, up, up.loc(),
                  "unpack_extension returns %s ; the entries are collected in %s" % (
                      [src(up, v) if v is not None else None for v in rets_], sorted(x for x in dnames if x)))
        enc = idx.cls("immutable.encode:Encoder")
        stored_int, stored_all = set(), set()
        for m in enc.methods.values():
            al = {nm for nm, vs in all_defs(m).items() if any(v is not None and attr_path(v) == "self.uri_extension_data" for v in vs)}
            for n in func_own_nodes(m):
                if isinstance(n, ast.Assign) and isinstance(n.targets[0], ast.Subscript):
                    t = n.targets[0]
                    base = attr_path(t.value)
                    if (base == "self.uri_extension_data" or base in al) and isinstance(t.slice, ast.Constant):
                        stored_all.add(t.slice.value)
                        if (attr_path(n.value) or "") in UEB_INT_PARAMS:
                            stored_int.add(t.slice.value)
        if len(stored_all) < 8:
            raise AnchorVanished("Encoder stores of uri_extension_data keys (found %s)" % sorted(stored_all))
        r.site(enc.qual + " stores %d keys, %d from integer parameters" % (len(stored_all), len(stored_int)))
        r.require(intkeys == stored_int, up, up.loc(), "keys converted to int by unpack_extension: %s ; keys the Encoder stores "
                  "from its integer parameters: %s (a missing key comes back as bytes, an extra one makes int() fail or is "
                  "never converted)" % (sorted(intkeys), sorted(stored_int)))

    # ---- 7. base32 / base62 tables ------------------------------------------------
    with ctx.rule("C38.7", "R5", "base32: what the decoder accepts (alphabet, final characters per length class, whatever tables hold them) includes "
                  "everything the encoder can emit and decodes to the encoded bytes; case and padding are undone symmetrically; base62: alphabet, radix literals and "
                  "translation tables agree", expected=9) as r:
        import base64 as _b64
        b32 = idx.module("allmydata.util.base32")
        enc = idx.func("util.base32:b2a")
        decf = idx.func("util.base32:a2b")

        def emit(b):
            return _b64.b32encode(b).rstrip(b"=").lower()
        chars = module_value(F.fo, b32, "chars")
        emitted = set()
        for v in range(256):
            emitted |= set(emit(bytes([v]) * 5))
        r.site("util.base32:chars")
        r.require(isinstance(chars, bytes) and set(chars) == emitted and len(chars) == len(emitted) == 32,
                  "allmydata.util.base32:chars", b32.relpath, "the alphabet a2b accepts is %r ; b2a emits %r" % (
                      chars, bytes(sorted(emitted))))
        # the decoder, interpreted on probe strings (whatever tables / helpers it consults)
        pr = b32_probe()
        r.site("util.base32:a2b acceptance by length class and final character (%s)" % pr["table"])
        r.count(pr["evaluations"])
        for k, miss in sorted(pr["miss"].items()):
            r.violation(pr["table"], b32.relpath, "encodings of length = %d (mod 8) may end in %r, which a2b rejects "
                        "(%s): a2b(b2a(x)) fails%s" % (k, bytes(sorted(miss)), pr["miss_why"][k], pr["helpers"]))
        r.site(decf, None)
        for p_, got, ref in pr["wrong"][:3]:
            r.violation(decf, decf.loc(), "a2b(%r) evaluates to %r ; the bytes whose encoding this is are %r" % (p_, got, ref))
        r.site(enc, None)
        for x_, got, ref in pr["enc_wrong"][:3]:
            r.violation(enc, enc.loc(), "b2a(%r) evaluates to %s ; specified RFC 4648 base32, '=' padding stripped, lower "
                        "case: %r" % (x_, got, ref))
        for x_, e_, got in pr["rt_wrong"][:3]:
            r.violation(decf, decf.loc(), "a2b(b2a(%r)) = a2b(%r) %s (case and padding are not undone before "
                        "base64.b32decode)" % (x_, e_, got))
        # base62
        b62 = idx.module("allmydata.util.base62")
        c62 = module_value(F.fo, b62, "chars")
        v62 = module_value(F.fo, b62, "vals")
        r.site("util.base62:chars/vals")
        r.require(isinstance(c62, bytes) and len(set(c62)) == len(c62) == 62, "allmydata.util.base62:chars", b62.relpath,
                  "base62 alphabet has %d distinct characters of %d" % (len(set(c62)), len(c62)))
        r.require(v62 == bytes(range(len(c62))), "allmydata.util.base62:vals", b62.relpath, "vals is not the digit values 0..%d" % (len(c62) - 1))
        for nm, a0, a1 in (("c2vtranstable", "chars", "vals"), ("v2ctranstable", "vals", "chars")):
            e_ = b62.assigns.get(nm, [None])[-1]
            r.require(isinstance(e_, ast.Call) and call_tail(e_) == "maketrans" and [attr_path(x) for x in e_.args] == [a0, a1],
                      "allmydata.util.base62:" + nm, b62.relpath, "%s is not maketrans(%s, %s)" % (nm, a0, a1))
        radix = len(c62)
        for fname, table in (("b2a_l", "v2ctranstable"), ("a2b_l", "c2vtranstable"),
                             ("num_octets_that_encode_to_this_many_chars", None), ("num_chars_that_this_many_octets_encode_to", None)):
            fn = idx.func("util.base62:" + fname)
            lits = {n.value for n in func_own_nodes(fn) if isinstance(n, ast.Constant) and isinstance(n.value, int)
                    and not isinstance(n.value, bool) and n.value > 8 and n.value != 256}
            r.site(fn, None, "radix")
            r.require(lits == {radix}, fn, fn.loc(), "%s works in radix %s ; the alphabet has %d characters" % (fname, sorted(lits), radix))
            if table:
                tr = [c for c in calls_in_func(fn, "translate")]
                r.require(bool(tr) and all(len(c.args) == 2 and attr_path(c.args[1]) == table for c in tr), fn, fn.loc(),
                          "%s translates with %s ; specified %s" % (fname, [src(fn, c.args[1]) for c in tr if len(c.args) == 2], table))


    with ctx.rule("C38.8", "R5", "base32: a2b decodes only strings b2a can emit (final characters per length class, alphabet) "
                  "(non-canonical trailing bits are malformed input and must be rejected, not read as a value)", expected=1) as r:
        b32 = idx.module("allmydata.util.base32")
        decf = idx.func("util.base32:a2b")
        pr = b32_probe()
        r.site("util.base32:a2b acceptance by length class and final character (%s)" % pr["table"])
        r.count(pr["evaluations"])
        if pr["extra"]:
            ex_p, ex_v, ex_c = pr["extra_example"]
            r.violation(pr["table"], b32.relpath, "a2b accepts final characters that b2a never emits: %s.  Such a "
                        "string has non-zero bits below the last encoded byte; base64.b32decode drops them, so two different "
                        "strings decode to the same bytes (a2b(%r) == a2b(%r) == %r).  The last quintet of a canonical "
                        "encoding of 8n bits has 5-(8n%%5) zero low bits: the admissible final characters are those whose "
                        "value is a multiple of 2**(5-(8n%%5))%s" % (
                            "; ".join("length = %d (mod 8): %r" % (k, bytes(sorted(v))) for k, v in sorted(pr["extra"].items())),
                            ex_p, ex_c, ex_v, pr["helpers"]))
        for p_, v_ in pr["interior"][:3]:
            r.violation(decf, decf.loc(), "a2b(%r) evaluates to %r although the string contains a character b2a never emits: "
                        "two different strings decode to the same bytes" % (p_, v_))

    # ---- 9. version dispatch of the share-layout readers ---------------------------
    with ctx.rule("C38.9", "R5", "share layout readers (immutable v1/v2 offset table, SDMF/MDMF version byte): after the "
                  "version field is unpacked, a value no writer emits cannot reach the normal exit (it reaches a raise), "
                  "and every value a writer emits can", expected=7) as r:
        wbp = idx.cls("immutable.layout:WriteBucketProxy")
        imm_known = set()
        for ci in [wbp] + list(idx.subclasses(wbp)):
            m = ci.methods.get("_create_offsets")
            if m is not None:
                got = first_packed_constant(F, m, min_values=3)
                if len(got) != 1:
                    raise AnchorVanished("%s: the version constant packed first into the offset table (found %s)" % (
                        m.qual, sorted(got)))
                imm_known |= got
        if len(imm_known) < 2:
            raise AnchorVanished("immutable layout writers (versions found: %s)" % sorted(imm_known))
        sdmf = F.fo.module_const("interfaces", "SDMF_VERSION")
        mdmf = F.fo.module_const("interfaces", "MDMF_VERSION")
        if not (isinstance(sdmf, int) and isinstance(mdmf, int) and sdmf != mdmf):
            raise AnalysisError("interfaces.SDMF_VERSION / MDMF_VERSION = %r / %r" % (sdmf, mdmf))
        # the SDMF/MDMF writers put these constants first
        for q, want in (("mutable.layout:pack_prefix", sdmf), ("mutable.layout:MDMFSlotWriteProxy.get_signable", mdmf)):
            wfn = idx.func(q)
            got = first_packed_constant(F, wfn)
            if got != {want}:
                raise AnalysisError("%s packs version %s first, interfaces says %d" % (wfn.qual, sorted(got), want))
        readers = [
            ("immutable.layout:ReadBucketProxy._parse_offsets", imm_known, "immutable share"),
            ("immutable.downloader.share:Share._satisfy_offsets", imm_known, "immutable share"),
            ("immutable.downloader.share:Share._desire_offsets", imm_known, "immutable share"),
            ("mutable.layout:unpack_share", {sdmf}, "SDMF share"),
            ("mutable.layout:unpack_sdmf_checkstring", {sdmf}, "SDMF checkstring"),
            ("mutable.layout:unpack_mdmf_checkstring", {mdmf}, "MDMF checkstring"),
            ("mutable.layout:MDMFSlotReadProxy._process_encoding_parameters", {sdmf, mdmf}, "mutable share"),
        ]
        for q, known, what in readers:
            fn = idx.func(q)
            vw = VersionWalk(fn, F)
            r.site(fn, vw.starts[0].ast, "%s reader, version variable %s, understands %s" % (what, vw.name, sorted(known)))
            reach = {}
            accepted, rejected = [], []
            first_wit = None
            for u in vw.candidates(known):
                nodes, wit = vw.walk(u)
                reach[u] = nodes
                if u in known and wit is None:
                    rejected.append(u)
                if u not in known and wit is not None:
                    accepted.append(u)
                    first_wit = first_wit or wit
            r.count(vw.states)
            if accepted:
                # which known layout the stray value is read with: nodes only that version reaches
                used = []
                for k in sorted(known):
                    own = reach[k] - set().union(*[reach[j] for j in known if j != k]) if len(known) > 1 else set()
                    if own and own <= reach[accepted[0]]:
                        used.append(k)
                r.violation(fn, fn.loc(vw.starts[0].ast), "%s header with version field %s (writers emit only %s) is not "
                            "rejected: after `%s` no test pins %s to a known constant on the path %s%s" % (
                                what, "/".join(str(v) for v in accepted[:6]), sorted(known), src(fn, vw.starts[0].ast)[:60],
                                vw.name, first_wit.brief(),
                                (" ; it is read with the version-%s layout" % "/".join(map(str, used))) if used else ""),
                            first_wit)
            if rejected:
                r.violation(fn, fn.loc(vw.starts[0].ast), "%s header with version %s, which the writers emit, can never reach "
                            "the normal exit of %s: valid shares are rejected" % (what, rejected, fn.name))

    # ---- 10. schema lookup of the storage containers --------------------------------
    with ctx.rule("C38.10", "R5", "storage containers: the schema lookups return a schema only under the fact that it "
                  "matches the header (version == schema.version / magic_matches), every other header gives None; the "
                  "container classes raise on None before anything else is read, is_valid_header is false on None",
                  expected=6) as r:
        lookups = {}
        for q, kind in (("storage.immutable_schema:schema_from_version", "version"),
                        ("storage.mutable_schema:schema_from_header", "magic")):
            fn = idx.func(q)
            lookups[fn.name] = fn
            cfg = fn.cfg()
            fnn = FlowNorm(fn)
            p0 = first_positional_params(fn)[0]
            rets = [n for n in cfg.find(is_return) if not (n.ast.value is None or (
                isinstance(n.ast.value, ast.Constant) and n.ast.value.value is None))]
            if not rets:
                raise AnchorVanished("%s returns no schema" % fn.qual)
            r.site(fn, rets[0].ast, "lookup by %s" % kind)
            r.count(len(cfg.nodes))
            loopvars = {}
            for n in cfg.nodes:
                if n.kind == "iter" and isinstance(n.ast.target, ast.Name):
                    loopvars[n.ast.target.id] = n
            for rn in rets:
                v = ret_value_of(fn, rn.ast)
                if not (isinstance(v, ast.Name) and v.id in loopvars):
                    r.violation(fn, fn.loc(rn.ast), "%s returns %s, which is not a schema selected by comparing it with "
                                "the header: a container of an unknown version gets this schema" % (fn.name, src(fn, v)))
                    continue
                lv = v.id

                def matches(n, lab, _lv=lv, _fnn=fnn, _kind=kind, _p0=p0):
                    f = _fnn.edge_fact(n, lab)
                    if not f:
                        return False
                    if _kind == "version":
                        return f[0] == "==" and {f[1], f[2]} == {_lv + ".version", _p0}
                    return f[0] == "truth" and f[1] == norm_src("%s.magic_matches(%s)" % (_lv, _p0))
                for (tn, wpath) in find_path_avoiding(cfg, lambda n, _rn=rn: n is _rn, gate_edge=matches,
                                                      kill=lambda n, _lv=lv: n.kind == "iter" and _lv in node_stores(n)):
                    r.violation(fn, fn.loc(tn.ast), "%s returns the schema %s without the fact that it matches the header "
                                "(%s) on the path %s" % (fn.name, lv, "%s.version == %s" % (lv, p0) if kind == "version"
                                                         else "%s.magic_matches(%s)" % (lv, p0), wpath.brief()), wpath)
        for q, lname in (("storage.immutable:ShareFile", "schema_from_version"), ("storage.mutable:MutableShareFile", "schema_from_header")):
            # __init__: None -> raise
            fn = idx.func(q + ".__init__")
            cfg = fn.cfg()
            fnn = FlowNorm(fn)
            stores_ = []
            for n in cfg.nodes:
                if n.kind == "stmt" and isinstance(n.ast, ast.Assign) and len(n.ast.targets) == 1 \
                        and isinstance(n.ast.value, ast.Call) and call_tail(n.ast.value) == lname:
                    stores_.append(n)
            if not stores_:
                raise AnchorVanished("%s no longer looks the schema up with %s" % (fn.qual, lname))
            for sn in stores_:
                r.site(fn, sn.ast, "open path")
                tpath = attr_path(sn.ast.targets[0])
                accept = {tpath, fnn.norm(sn, sn.ast.value)}

                def not_none(n, lab, _fnn=fnn, _accept=accept):
                    f = _fnn.edge_fact(n, lab)
                    if not f:
                        return False
                    if f[0] == "is not" and "None" in (f[1], f[2]):
                        return (f[2] if f[1] == "None" else f[1]) in _accept
                    return f[0] == "truth" and f[1] in _accept
                bad = find_path_avoiding(cfg, lambda n: n.kind == "exit", gate_edge=not_none, start=sn,
                                         kill=lambda n, _sn=sn, _t=tpath: n is not _sn and _t in node_stores(n))
                r.count(len(cfg.nodes))
                for (tn, wpath) in bad:
                    r.violation(fn, fn.loc(sn.ast), "%s.__init__ completes although %s returned None (unknown container "
                                "version): no `%s is not None` fact on the path %s ; the file is then read with whatever "
                                "layout the attributes default to" % (fn.cls.name, lname, tpath, wpath.brief()), wpath)
            # is_valid_header: false when the lookup fails
            iv = idx.func(q + ".is_valid_header")
            calls = calls_in_func(iv, lname)
            if len(calls) != 1:
                raise AnchorVanished("%s: %d calls of %s" % (iv.qual, len(calls), lname))
            r.site(iv, calls[0], "validity test")
            hp = first_positional_params(iv)[0]
            a0 = calls[0].args[0] if calls[0].args else None
            if lname == "schema_from_version":
                vb = {nm for nm, _c in version_bindings(iv).values()}
                r.require(isinstance(a0, ast.Name) and a0.id in vb, iv, iv.loc(calls[0]), "the schema is looked up with %s, "
                          "which is not the version field unpacked from the start of %s" % (src(iv, a0) if a0 is not None else None, hp))
                ev_ = VersionWalk(iv, F).ev
            else:
                r.require(attr_path(a0) == hp, iv, iv.loc(calls[0]), "the schema is looked up with %s, not with the header %s" % (
                    src(iv, a0) if a0 is not None else None, hp))
                vw_ = VersionWalk.__new__(VersionWalk)
                vw_.fn, vw_.F, vw_.vnames, vw_.defs = iv, F, set(), all_defs(iv)
                ev_ = vw_.ev
            rets = ret_values(iv)
            if not rets:
                raise AnchorVanished("%s returns nothing" % iv.qual)
            for v in rets:
                if v is None:
                    continue
                try:
                    res = bool(ev_(v, None, {id(calls[0]): None}))
                except _Undecided:
                    res = None
                r.require(res is False, iv, iv.loc(v), "is_valid_header returns %s, which is %s when %s finds no schema: a "
                          "header of an unknown version is accepted as this container type" % (
                              src(iv, v), "true" if res else "not decidably false", lname))

    _rule_transfer(ctx, idx, F)
    _rule_offset_table(ctx, idx, F)
    _rule_records_stay(ctx, idx)


# ---- 13 / 14. stored lease records stay decodable when the share data next to them is written --------------
def _edge_lin(fnm, n, lab):
    """(op, Poly) with ``0 op poly`` holding on the edge (n, lab), op in '<' '<=' ; None otherwise.  Pass edges of
    assert / precondition count as well (the other edge raises).  A local with several reaching definitions that are
    all the same call (a header field read again after the container grew) is spelt as that call."""
    if n.kind != "test" or not isinstance(lab, tuple):
        return None
    e, pol = n.ast, lab[0] == "T"
    while isinstance(e, ast.UnaryOp) and isinstance(e.op, ast.Not):
        e, pol = e.operand, not pol
    if not isinstance(e, ast.Compare) or len(e.ops) != 1:
        return None
    op = type(e.ops[0])
    neg = {ast.Lt: ast.GtE, ast.LtE: ast.Gt, ast.Gt: ast.LtE, ast.GtE: ast.Lt}
    if op not in neg:
        return None
    if not pol:
        op = neg[op]
    l, r_ = e.left, e.comparators[0]
    if op in (ast.Gt, ast.GtE):
        op = {ast.Gt: ast.Lt, ast.GtE: ast.LtE}[op]
        l, r_ = r_, l
    env = fnm.env_at(n)
    ren = {}
    for name, ds in fnm.rd.get(n.id, {}).items():
        if name in env.defs or len(ds) < 2 or any(d < 0 for d in ds):
            continue
        vals = [fnm._def_value(fnm.cfg.nodes[d], name) for d in ds]
        if all(isinstance(v, ast.Call) for v in vals) and len({norm_plain(v) for v in vals}) == 1:
            ren[name] = norm_plain(vals[0])
    nz = Normaliser(Env(None, extra=env.defs, rename=ren, depth=fnm.depth)) if ren else fnm.at(n)
    try:
        return ("<" if op is ast.Lt else "<=", nz.poly(r_) - nz.poly(l))
    except Exception:
        return None


class _Rename(ast.NodeTransformer):
    def __init__(self, names, exprs):
        self.names, self.exprs = names, exprs

    def visit_Name(self, n):
        if n.id in self.exprs and isinstance(n.ctx, ast.Load):
            return ast.copy_location(copy.deepcopy(self.exprs[n.id]), n)
        if n.id in self.names:
            return ast.copy_location(ast.Name(id=self.names[n.id], ctx=n.ctx), n)
        return n


def _self_helper(fn, st):
    """(call, callee) when the statement is nothing but ``self.h(..)`` of a method of fn's class, else None"""
    if not (isinstance(st, ast.Expr) and isinstance(st.value, ast.Call) and fn.cls is not None):
        return None
    c = st.value
    if not (isinstance(c.func, ast.Attribute) and isinstance(c.func.value, ast.Name) and c.func.value.id == "self"):
        return None
    h = fn.cls.lookup(c.func.attr)
    return (c, h) if h is not None and isinstance(h.node, ast.FunctionDef) else None


def _reaches_call(fn, tail, depth=4, seen=None):
    """does fn (or a self.method it calls, transitively) call something named tail"""
    seen = set() if seen is None else seen
    if fn.qual in seen or depth < 0:
        return False
    seen.add(fn.qual)
    for c in [x for x in func_own_nodes(fn) if isinstance(x, ast.Call)]:
        if call_tail(c) == tail:
            return True
        if fn.cls is not None and isinstance(c.func, ast.Attribute) and attr_path(c.func.value) == "self":
            h = fn.cls.lookup(c.func.attr)
            if h is not None and _reaches_call(h, tail, depth - 1, seen):
                return True
    return False


def _inline_helpers(fn, want, rounds=4):
    """A copy of fn in which every statement ``self.h(args)`` for which want(call, h) holds is replaced by the body of h (its
    parameters bound to the arguments, its locals renamed apart), repeatedly.  Only helpers that are straight procedures are
    followed (no return value, no yield, no nested def, plain positional / keyword binding); others stay calls.  fn itself
    when nothing was followed."""
    node = copy.deepcopy(fn.node)
    counter = [0]
    changed = [False]

    def body_of(c, h):
        hn = h.node
        a = hn.args
        if a.vararg or a.kwarg or a.kwonlyargs or getattr(a, "posonlyargs", None) or hn.decorator_list:
            return None
        ps = [x.arg for x in a.args]
        if not ps or ps[0] != "self" or any(isinstance(x, ast.Starred) for x in c.args) or any(k.arg is None for k in c.keywords):
            return None
        ps = ps[1:]
        bound = dict(zip(ps, c.args))
        if len(c.args) > len(ps):
            return None
        for k in c.keywords:
            if k.arg not in ps or k.arg in bound:
                return None
            bound[k.arg] = k.value
        if set(bound) != set(ps):
            return None                      # defaults: not followed
        body = list(hn.body)
        if body and isinstance(body[0], ast.Expr) and isinstance(body[0].value, ast.Constant) and isinstance(body[0].value.value, str):
            body = body[1:]
        if body and isinstance(body[-1], ast.Return) and body[-1].value is None:
            body = body[:-1]
        inner = [x for s in body for x in ast.walk(s)]
        if not body or any(isinstance(x, (ast.Return, ast.Yield, ast.YieldFrom, ast.FunctionDef, ast.AsyncFunctionDef, ast.Lambda,
                                          ast.ClassDef, ast.Global, ast.Nonlocal, ast.Await)) for x in inner):
            return None
        stored = {x.id for x in inner if isinstance(x, ast.Name) and isinstance(x.ctx, (ast.Store, ast.Del))}
        counter[0] += 1
        pre = "_h%d_" % counter[0]
        names = {x: pre + x for x in stored | set(ps)}
        exprs, head = {}, []
        for p in ps:
            v = bound[p]
            if isinstance(v, ast.Name) and p not in stored:
                exprs[p] = v                  # the same variable under another name
            else:
                t = ast.Assign(targets=[ast.Name(id=names[p], ctx=ast.Store())], value=copy.deepcopy(v), type_comment=None)
                head.append(ast.copy_location(t, c))
        rn = _Rename(names, exprs)
        out = head + [rn.visit(copy.deepcopy(s)) for s in body]
        for s in out:
            ast.fix_missing_locations(s)
        return out

    class T(ast.NodeTransformer):
        def visit_FunctionDef(self, n):
            return n if n is not node else self.generic_visit(n)
        visit_AsyncFunctionDef = visit_Lambda = visit_ClassDef = lambda self, n: n

        def visit_Expr(self, st):
            hit = _self_helper(fn, st)
            if hit is None or not want(*hit):
                return st
            b = body_of(*hit)
            if b is None:
                return st
            changed[0] = True
            return b
    did = False
    for _i in range(rounds):
        changed[0] = False
        T().visit(node)
        if not changed[0]:
            break
        did = True
    if not did:
        return fn
    ast.fix_missing_locations(node)
    g = FuncInfo(fn.module, node, fn.qual, fn.cls, fn.parent)
    g.nested = dict(fn.nested)
    return g


# ---- generators followed: what a lease enumeration hands out ---------------------------------
class _NoStream(Exception):
    pass


SLOT = "_slot_"


class _Stream:
    """The items an iterable hands out: one pass of ``for SLOT in <it>`` and, per pass, the items [(value, [(test, polarity)])]
    in terms of SLOT and the names of the outermost function.  exact: every pass hands out exactly one item, unconditionally
    (then the position enumerate() counts is SLOT, if the passes are range(n))."""
    def __init__(self, it, items, exact):
        self.it, self.items, self.exact = it, items, exact


def _ssub(e, env):
    return _Rename({}, env).visit(copy.deepcopy(e)) if env else copy.deepcopy(e)


def _bind_target(t, v, env):
    env = dict(env)
    if isinstance(t, ast.Name):
        env[t.id] = v
    elif isinstance(t, (ast.Tuple, ast.List)) and isinstance(v, (ast.Tuple, ast.List)) and len(t.elts) == len(v.elts) \
            and not any(isinstance(x, ast.Starred) for x in t.elts):
        for a, b in zip(t.elts, v.elts):
            env = _bind_target(a, b, env)
    else:
        raise _NoStream("cannot bind %s" % ast.unparse(t))
    return env


def _has_yield(n):
    return any(isinstance(x, (ast.Yield, ast.YieldFrom)) for x in own_nodes(n))


def _stream_expr(fn, e, env, depth):
    if depth < 0:
        raise _NoStream("too deep")
    if isinstance(e, ast.Name) and e.id in env:
        e, env = env[e.id], {}
    if isinstance(e, ast.GeneratorExp) and len(e.generators) == 1 and not e.generators[0].is_async:
        g = e.generators[0]
        s = _stream_expr(fn, g.iter, env, depth - 1)
        items = []
        for (v, cs) in s.items:
            env2 = _bind_target(g.target, v, env)
            items.append((_ssub(e.elt, env2), cs + [(_ssub(c, env2), True) for c in g.ifs]))
        return _Stream(s.it, items, s.exact and not g.ifs)
    if isinstance(e, ast.Call) and isinstance(e.func, ast.Name) and not e.keywords and len(e.args) == 1 and e.func.id in ("enumerate", "iter"):
        s = _stream_expr(fn, e.args[0], env, depth - 1)
        if e.func.id == "iter":
            return s
        counts_slots = s.exact and isinstance(s.it, ast.Call) and isinstance(s.it.func, ast.Name) and s.it.func.id == "range" \
            and len(s.it.args) == 1 and not s.it.keywords
        pos = ast.Name(id=SLOT if counts_slots else "_position_among_the_items_handed_out_", ctx=ast.Load())
        return _Stream(s.it, [(ast.Tuple(elts=[pos, v], ctx=ast.Load()), cs) for (v, cs) in s.items], s.exact)
    if isinstance(e, ast.Call) and isinstance(e.func, ast.Attribute) and attr_path(e.func.value) == "self" and fn.cls is not None:
        h = fn.cls.lookup(e.func.attr)
        if h is None or not isinstance(h.node, ast.FunctionDef):
            raise _NoStream("%s is not a method" % e.func.attr)
        a = h.node.args
        ps = [x.arg for x in a.args][1:]
        if a.vararg or a.kwarg or a.kwonlyargs or e.keywords or len(e.args) != len(ps) or any(isinstance(x, ast.Starred) for x in e.args):
            raise _NoStream("binding of %s" % e.func.attr)
        return _stream_func(h, {p_: _ssub(v, env) for p_, v in zip(ps, e.args)}, depth - 1)
    raise _NoStream("iterable %s" % ast.unparse(e)[:80])


def _stream_func(h, env, depth=5):
    body = list(h.node.body)
    if body and isinstance(body[0], ast.Expr) and isinstance(body[0].value, ast.Constant) and isinstance(body[0].value.value, str):
        body = body[1:]
    env = dict(env)
    while body and isinstance(body[0], ast.Assign) and len(body[0].targets) == 1 and isinstance(body[0].targets[0], ast.Name) \
            and not _has_yield(body[0]):
        env[body[0].targets[0].id] = _ssub(body[0].value, env)
        body = body[1:]
    if len(body) == 1 and isinstance(body[0], ast.With) and all(i.optional_vars is None or isinstance(i.optional_vars, ast.Name)
                                                                for i in body[0].items):
        body = list(body[0].body)           # a context manager around the loop does not change what is handed out
    if len(body) != 1:
        raise _NoStream("%s is not a single loop / return" % h.qual)
    st = body[0]
    if isinstance(st, ast.Return) and st.value is not None and not _has_yield(h.node):
        return _stream_expr(h, st.value, env, depth)
    if isinstance(st, ast.Expr) and isinstance(st.value, ast.YieldFrom):
        return _stream_expr(h, st.value.value, env, depth)
    if not isinstance(st, ast.For) or st.orelse:
        raise _NoStream("%s is not a single loop / return" % h.qual)
    it = _ssub(st.iter, env)
    if isinstance(it, ast.Call) and isinstance(it.func, ast.Name) and it.func.id == "range":
        if not isinstance(st.target, ast.Name):
            raise _NoStream("loop target")
        base = _Stream(it, [(ast.Name(id=SLOT, ctx=ast.Load()), [])], True)
    else:
        base = _stream_expr(h, st.iter, env, depth - 1)
    items, exact = [], base.exact
    for (v, cs) in base.items:
        flags = {"early": False}
        got = _collect(st.body, _bind_target(st.target, v, env), list(cs), flags)
        items += got
        exact = exact and len(got) == 1 and got[0][1] == cs and not flags["early"]
    return _Stream(base.it, items, exact)


def _collect(stmts, env, conds, flags):
    """items handed out by one pass through stmts; (items, falls_through)"""
    items = []
    env = dict(env)
    for i, st in enumerate(stmts):
        if isinstance(st, ast.Assign) and len(st.targets) == 1 and not _has_yield(st):
            env = _bind_target(st.targets[0], _ssub(st.value, env), env) if isinstance(st.targets[0], (ast.Name, ast.Tuple)) else env
        elif isinstance(st, ast.Expr) and isinstance(st.value, ast.Yield) and st.value.value is not None:
            items.append((_ssub(st.value.value, env), list(conds)))
        elif isinstance(st, ast.If):
            t = _ssub(st.test, env)
            rest = list(conds)
            for (branch, pol) in ((st.body, True), (st.orelse, False)):
                if any(isinstance(x, (ast.Assign, ast.AugAssign, ast.AnnAssign, ast.NamedExpr)) for b in branch for x in ast.walk(b)) \
                        and stmts[i + 1:]:
                    raise _NoStream("assignment under a condition")
                items += _collect(branch, env, conds + [(t, pol)], flags)
                if branch and isinstance(branch[-1], (ast.Continue, ast.Return, ast.Break, ast.Raise)):
                    rest.append((t, not pol))
                    flags["early"] = True
            conds = rest
        elif isinstance(st, ast.Try):
            if any(_has_yield(x) for hd in st.handlers for x in hd.body) or any(_has_yield(x) for x in st.orelse + st.finalbody):
                raise _NoStream("yield in a handler")
            items += _collect(st.body, env, conds, flags)
            if stmts[i + 1:] and any(isinstance(x, ast.Assign) for b in st.body for x in ast.walk(b)):
                raise _NoStream("assignment under try")
        elif isinstance(st, (ast.Continue, ast.Return, ast.Break, ast.Raise)):
            flags["early"] = True
            break
        elif _has_yield(st) or isinstance(st, (ast.AugAssign, ast.AnnAssign, ast.For, ast.While, ast.With, ast.Delete)):
            raise _NoStream("statement %s" % type(st).__name__)
    return items


def _rule_records_stay(ctx, idx):
    # 13: the relocation of the extra-lease block when the container grows.  C25.10 decides exactly the condition
    # this property needs (the bytes that were encoded are the bytes found at the place the header names afterwards).
    # C25.12 / C25.5 decide the other way a stored record stops decoding to what was encoded: the newest lease schema stores
    # H(secret); a stored lease is handed out in a wrapper type so that the serializer writes its fields as they are.  If a
    # lease derived from a stored one (renew) leaves the wrapper, serialize hashes the stored H(s) again and the record
    # written back decodes to H(H(s)): unserialize(serialize(x)) != x for the lease that was read.  (C25 includes nothing:
    # no cycle.)  Adopted ids: C38.13.10, C38.13.12, C38.13.5.
    ctx.include("C25", ["C25.10", "C25.12", "C25.5"], "C38.13")

    with ctx.rule("C38.14", "R1/R5", "MutableShareFile._write_share_data: every write into the data region (zero fill, the data) "
                  "happens only after the container was grown to offset + len(data) or under the fact that offset + len(data) "
                  "already fits (below the extra-lease offset / inside the existing data), and ends at or before "
                  "DATA_OFFSET + offset + len(data): otherwise it lands on the extra-lease block that follows the data and the "
                  "stored lease records no longer decode", expected=3) as r:
        fn = idx.func(MSF + "._write_share_data")
        ps = first_positional_params(fn)
        if len(ps) < 3:
            raise AnchorVanished("%s(f, offset, data)" % fn.qual)
        fp, off, data = ps[:3]

        def passes_file(c):
            return any(attr_path(a) == fp for a in c.args) or any(attr_path(k.value) == fp for k in c.keywords)

        def data_region_helper(c, h):
            """a helper that is handed the file and grows the container or positions the file relative to DATA_OFFSET: its
            statements belong to the write protocol decided here"""
            if h.name == "_change_container_size" or not passes_file(c):
                return False
            if _reaches_call(h, "_change_container_size"):
                return True
            return any(isinstance(x, ast.Call) and call_tail(x) == "seek" and any(
                attr_path(y) == "self.DATA_OFFSET" for a in x.args for y in ast.walk(a)) for x in func_own_nodes(h))
        fn = _inline_helpers(fn, data_region_helper)
        for c in [x for x in func_own_nodes(fn) if isinstance(x, ast.Call)]:
            if isinstance(c.func, ast.Attribute) and attr_path(c.func.value) == "self" and fn.cls is not None:
                h = fn.cls.lookup(c.func.attr)
                if h is not None and data_region_helper(c, h):
                    raise AnalysisError("%s: the helper %s grows the container or writes the data region and cannot be followed "
                                        "(it returns a value / is not a plain procedure)" % (fn.qual, src(fn, c)))
        cfg = fn.cfg()
        fnm = FlowNorm(fn)
        P0 = Normaliser(Env(None, depth=0))
        pp = lambda s: P0.poly(parse_expr(s))
        LEN = pp("len(%s)" % data)
        END = pp("%s + len(%s)" % (off, data))
        TOP = pp("self.DATA_OFFSET + %s + len(%s)" % (off, data))
        FITS = (pp("self._read_extra_lease_offset(%s)" % fp) - TOP, pp("self._read_data_length(%s)" % fp) - END)

        def file_calls(n):
            return [c for c in node_calls(n) if (isinstance(c.func, ast.Attribute) and attr_path(c.func.value) == fp)
                    or any(attr_path(a) == fp for a in c.args) or any(attr_path(k.value) == fp for k in c.keywords)]

        def direct(n, kinds):
            return [c for c in file_calls(n) if isinstance(c.func, ast.Attribute) and attr_path(c.func.value) == fp and c.func.attr in kinds]

        def nonneg_const(p):
            return p.is_const() and p.const_value() >= 0

        def grown(n):
            for c in node_calls(n):
                if call_name(c) == "self._change_container_size" and len(c.args) == 2 and attr_path(c.args[0]) == fp:
                    try:
                        if nonneg_const(fnm.at(n).poly(c.args[1]) - END):
                            return True
                    except Exception:
                        pass
            return False

        def fits(n, lab):
            f_ = _edge_lin(fnm, n, lab)
            return f_ is not None and any(nonneg_const(x - f_[1]) for x in FITS)   # 0 <= fact <= x

        # file position on entry to each node: the fp.seek(E) node that set it and was not disturbed since, else -1
        def tr_pos(n, lab, nxt, st):
            if lab == "exc":
                return None
            fc = file_calls(n)
            if not fc or all(c in direct(n, ("flush", "tell", "fileno")) for c in fc):
                return st
            sk = [c for c in direct(n, ("seek",)) if len(c.args) == 1 and not c.keywords]
            if len(sk) == 1:
                inner = {id(x) for x in ast.walk(sk[0].args[0])}
                if all(c is sk[0] or id(c) in inner for c in fc):
                    return n.id
            return -1
        pvis, _ppar = explore(cfg, -1, tr_pos)
        r.count(len(pvis))

        def positions(n):
            out = set()
            for (nid, st) in pvis:
                if nid == n.id:
                    try:
                        out.add(fnm.at(cfg.nodes[st]).poly(direct(cfg.nodes[st], ("seek",))[0].args[0]) if st >= 0 else None)
                    except Exception:
                        out.add(None)
            return out

        def written_length(n, e):
            """number of bytes of the value written at node n, as a Poly; None when it is not of a known shape"""
            for _i in range(4):
                if isinstance(e, ast.Name) and e.id != data:
                    ds = fnm.rd.get(n.id, {}).get(e.id)
                    if not ds or len(ds) != 1 or min(ds) < 0:
                        return None
                    n = cfg.nodes[min(ds)]
                    e = fnm._def_value(n, e.id)
            if isinstance(e, ast.Name) and e.id == data and set(fnm.rd.get(n.id, {}).get(data, ())) <= {-1}:
                return LEN
            cnt = None
            if isinstance(e, ast.BinOp) and isinstance(e.op, ast.Mult):
                for a, b in ((e.left, e.right), (e.right, e.left)):
                    if isinstance(a, ast.Constant) and isinstance(a.value, bytes) and len(a.value) == 1:
                        cnt = b
            elif isinstance(e, ast.Call) and isinstance(e.func, ast.Name) and e.func.id == "bytes" and len(e.args) == 1 and not e.keywords \
                    and not isinstance(e.args[0], ast.Constant):
                cnt = e.args[0]
            if cnt is None:
                return None
            try:
                return fnm.at(n).poly(cnt)
            except Exception:
                return None

        gn = [n for n in cfg.nodes if grown(n)]
        for n in gn:
            r.site(fn, n.ast, "container growth")
        wn = [(n, c) for n in cfg.nodes for c in direct(n, ("write", "writelines", "truncate"))]
        if not wn:
            raise AnchorVanished("%s no longer writes to %s" % (fn.qual, fp))
        for (W, wc) in wn:
            r.site(fn, wc, "data-region write")
            # (a) room was made (or known to exist) before the write
            for (t, w) in find_path_avoiding(cfg, lambda x, W=W: x is W, gate_node=grown, gate_edge=fits, skip_exc_edges=True):
                r.violation(fn, fn.loc(wc), "_write_share_data writes %s without having grown the container to %s + len(%s) first "
                            "(self._change_container_size(%s, %s + len(%s))) and without the fact that the write fits below the "
                            "extra-lease offset: the bytes land on the extra-lease block, whose lease records then no longer decode "
                            "(and _change_container_size later moves the overwritten block) (path: %s)" % (
                                src(fn, wc.args[0] if wc.args else wc), off, data, fp, off, data, w.brief()), w)
            # (b) the write ends inside the room that was made
            ln = written_length(W, wc.args[0]) if (wc.func.attr == "write" and len(wc.args) == 1 and not wc.keywords) else None
            ps_ = positions(W)
            if ln is None or len(ps_) != 1 or None in ps_ or len(file_calls(W)) != 1:
                raise AnalysisError("%s: cannot bound the write %s (position %s)" % (fn.qual, src(fn, wc), sorted(map(str, ps_))))
            slack = TOP - (next(iter(ps_)) + ln)
            ok = all(k in ((), tuple(LEN.t)[0]) and v >= 0 for k, v in slack.t.items())
            r.require(ok, fn, fn.loc(wc), "_write_share_data writes %s bytes at %s: that ends at %s, not at or before %s (the end of the "
                      "room the container growth made); the excess lands on the extra-lease block and the stored lease records "
                      "(count field first) no longer decode" % (ln, next(iter(ps_)), next(iter(ps_)) + ln, TOP))
        r.count(len(cfg.nodes) * len(wn))


# ---- 12. immutable share offset table: per-version layout agreement -------------------------
def _rule_offset_table(ctx, idx, F):
    with ctx.rule("C38.12", "R5", "immutable share offset table: for each version a writer emits, the part of every reader that "
                  "only that version reaches binds the table start and the field width / format of that writer's pack "
                  "format; field names are read in the order they are packed; the writer's own fieldsize / fieldstruct / "
                  "first data offset derive from its format", expected=5) as r:
        wbp = idx.cls("immutable.layout:WriteBucketProxy")
        layouts = {}
        names = None
        for ci in [wbp] + list(idx.subclasses(wbp)):
            m = ci.methods.get("_create_offsets")
            if m is None:
                continue
            packs = [c for c in struct_calls(m, "pack") if len(c.args) >= 10]
            if len(packs) != 1:
                raise AnchorVanished("%s: the pack call of the offset table" % m.qual)
            pc = packs[0]
            fmt = F.expr(pc.args[0], m)
            ver = F.expr(pc.args[1], m)
            if not isinstance(fmt, str) or not isinstance(ver, int):
                raise AnalysisError("%s: offset table format / version do not fold" % m.qual)
            fs = struct_fields(fmt)
            r.site(m, pc, "writer v%d %r" % (ver, fmt))
            if not r.require(len(fs) == len(pc.args) - 1 == 9 and len(set(fs[3:])) == 1 and fs[3][0] in "BHILQ", m, m.loc(pc),
                             "the offset table %r is not version, 2 sizes and 6 offsets of one width" % fmt):
                continue
            bo = fmt[0] if fmt[0] in "@=<>!" else ""
            fchar = fs[3][0]
            lay = {"start": prefix_size(fmt, 3), "size": _struct.calcsize(bo + fchar), "char": fchar, "total": _struct.calcsize(fmt)}
            r.require(ver not in layouts, m, m.loc(pc), "two writers emit version %d" % ver)
            layouts[ver] = lay
            keys = []
            for a in pc.args[4:]:
                keys.append(a.slice.value if isinstance(a, ast.Subscript) and isinstance(a.slice, ast.Constant) else None)
            if None in keys:
                raise AnalysisError("%s: offsets are not packed as offsets['name']" % m.qual)
            r.require(names is None or names == keys, m, m.loc(pc), "the writers pack the offsets in different orders: %s / %s" % (names, keys))
            names = names or keys
            fsz = F.fo.class_attr(ci, "fieldsize") if "fieldsize" in ci.attrs else None
            fst = F.fo.class_attr(ci, "fieldstruct") if "fieldstruct" in ci.attrs else None
            r.require(fsz == lay["size"] and fst == bo + fchar, ci.qual, ci.module.relpath, "%s.fieldsize / fieldstruct = %r / %r ; "
                      "the offset fields of %r are %r (%d bytes) and the URI extension length is written with the same format" % (
                          ci.name, fsz, fst, fmt, bo + fchar, lay["size"]))
            first = None
            for n in m.cfg().nodes:
                if n.kind == "stmt" and isinstance(n.ast, ast.Assign) and isinstance(n.ast.value, ast.Name):
                    for t in n.ast.targets:
                        if isinstance(t, ast.Subscript) and isinstance(t.slice, ast.Constant) and t.slice.value == keys[0]:
                            first = FlowNorm(m).resolve(n, n.ast.value)
            v0 = F.expr(first, m) if first is not None else None
            r.require(v0 == lay["total"], m, m.loc(pc), "the first section (%s) is placed at %r ; the offset table %r occupies "
                      "%d bytes from offset 0" % (keys[0], v0, fmt, lay["total"]))
        if len(layouts) < 2:
            raise AnchorVanished("immutable layout writers (versions found: %s)" % sorted(layouts))
        for q, want_names in (("immutable.layout:ReadBucketProxy._parse_offsets", True),
                              ("immutable.downloader.share:Share._satisfy_offsets", True),
                              ("immutable.downloader.share:Share._desire_offsets", False)):
            fn = idx.func(q)
            vw = VersionWalk(fn, F)
            r.site(fn, vw.starts[0].ast, "reader")
            reach = {v: vw.walk(v)[0] for v in layouts}
            r.count(vw.states)
            roles = (set(), set(), set())
            for v, lay in sorted(layouts.items()):
                own = reach[v] - set().union(*[reach[w] for w in layouts if w != v])
                ints, strs = {}, {}
                env = {}
                opaque = {}
                for _pass in range(3):
                    for nid in sorted(own):
                        n = vw.cfg.nodes[nid]
                        if n.kind != "stmt" or not isinstance(n.ast, ast.Assign) or len(n.ast.targets) != 1:
                            continue
                        tp = attr_path(n.ast.targets[0])
                        if tp is None:
                            continue
                        val = F.expr(n.ast.value, fn, local=dict(env))
                        if val is None or isinstance(val, bool):
                            opaque[tp] = n
                            continue
                        opaque.pop(tp, None)
                        if isinstance(val, int):
                            ints[tp] = val
                        elif isinstance(val, str):
                            strs[tp] = val
                        if "." not in tp:
                            env[tp] = val
                if opaque:
                    raise AnalysisError("%s: the version-%d branch binds %s to a value that does not fold to a constant" % (
                        fn.qual, v, sorted(opaque)))
                if not ints:
                    raise AnalysisError("%s: no statement reached only by version %d binds a layout constant" % (fn.qual, v))
                r.require(set(ints.values()) == {lay["start"], lay["size"]}, fn, fn.loc(vw.starts[0].ast),
                          "for a version-%d share %s binds %s ; the version-%d writer puts the offset table at 0x%x with %d-byte "
                          "fields" % (v, fn.name, ", ".join("%s = 0x%x" % kv for kv in sorted(ints.items())), v, lay["start"], lay["size"]))
                roles[0].update(tp for tp, x in ints.items() if x == lay["start"])
                roles[1].update(tp for tp, x in ints.items() if x == lay["size"])
                roles[2].update(strs)
                r.require(all(x in (lay["char"], ">" + lay["char"]) for x in strs.values()), fn, fn.loc(vw.starts[0].ast),
                          "for a version-%d share %s binds %s ; the version-%d writer packs the offsets as %r" % (
                              v, fn.name, ", ".join("%s = %r" % kv for kv in sorted(strs.items())), v, ">" + lay["char"]))
            _layout_shape(r, fn, vw, roles, len(names or []))
            seqs = []
            for x in func_own_nodes(fn):
                if isinstance(x, (ast.Tuple, ast.List)) and len(x.elts) >= 3 and all(
                        isinstance(e, ast.Constant) and isinstance(e.value, str) for e in x.elts) and \
                        set(e.value for e in x.elts) & set(names or []):
                    seqs.append([e.value for e in x.elts])
            if want_names and not seqs:
                raise AnchorVanished("%s: the literal sequence of offset field names" % fn.qual)
            for sq in seqs:
                r.require(sq == names, fn, fn.loc(), "%s reads the offsets as %s ; they are packed as %s" % (fn.name, sq, names))


def _layout_shape(r, fn, vw, roles, nfields):
    """How a reader uses the per-version layout variables: the table is addressed as (start, nfields * width) and
    unpacked either field by field (format variable, data[x:x+width], x advanced by width, stored under the loop's
    field name) or as a whole ('>' + nfields * format character, stored by enumerate index)."""
    start_vars, size_vars, fmt_vars = roles
    if not start_vars or not size_vars:
        raise AnalysisError("%s: the variables holding the table start / field width were not identified" % fn.qual)
    binding = {id(c) for _nm, c in vw.bind.values()}
    table_size = {norm_src("%d * %s" % (nfields, sv)) for sv in size_vars}
    for c in [x for x in func_own_nodes(fn) if isinstance(x, ast.Call)]:
        if len(c.args) == 2 and not c.keywords and call_name(c) != "struct.unpack":
            a0, a1 = attr_path(c.args[0]), _dn(fn, c.args[1])
            if a0 in start_vars or a1 in table_size or attr_path(c.args[1]) in start_vars or _dn(fn, c.args[0]) in table_size:
                r.require(a0 in start_vars and a1 in table_size, fn, fn.loc(c), "the offset table is addressed as %s ; it is "
                          "the range (%s, %d * %s)" % (src(fn, c), "/".join(sorted(start_vars)), nfields, "/".join(sorted(size_vars))))
    for c in struct_calls(fn, "unpack"):
        if id(c) in binding or len(c.args) != 2:
            continue
        fmt, data = c.args
        loop = None
        for lp in [x for x in func_own_nodes(fn) if isinstance(x, ast.For)]:
            if any(x is c for x in ast.walk(lp)):
                loop = lp
        if attr_path(fmt) in fmt_vars:
            ok = isinstance(data, ast.Subscript) and isinstance(data.slice, ast.Slice) and data.slice.step is None \
                and attr_path(data.slice.lower) in start_vars and data.slice.upper is not None \
                and norm_plain(data.slice.upper) in {norm_src("%s + %s" % (attr_path(data.slice.lower), sv)) for sv in size_vars}
            r.require(ok, fn, fn.loc(c), "one offset is unpacked from %s ; field i lives at [x : x + width]" % src(fn, data))
            if not ok:
                continue
            xv = attr_path(data.slice.lower)
            if loop is None or not isinstance(loop.target, ast.Name):
                raise AnalysisError("%s: per-field unpack outside a loop over the field names" % fn.qual)
            adv = [x for x in ast.walk(loop) if isinstance(x, ast.AugAssign) and isinstance(x.op, ast.Add) and attr_path(x.target) == xv
                   and attr_path(x.value) in size_vars]
            adv += [x for x in ast.walk(loop) if isinstance(x, ast.Assign) and len(x.targets) == 1 and attr_path(x.targets[0]) == xv
                    and norm_plain(x.value) in {norm_src("%s + %s" % (xv, sv)) for sv in size_vars}]
            r.require(len(adv) == 1, fn, fn.loc(loop), "%s is not advanced by the field width once per field: every offset is read "
                      "from the same position" % xv)
            vals = {nm for nm, vs in all_defs(fn).items() if vs and all(
                v is not None and isinstance(v, ast.Subscript) and v.value is c and isinstance(v.slice, ast.Constant) and v.slice.value == 0
                for v in vs)}
            st = [x for x in ast.walk(loop) if isinstance(x, ast.Assign) and len(x.targets) == 1 and isinstance(x.targets[0], ast.Subscript)
                  and attr_path(x.targets[0].slice) == loop.target.id]
            r.require(len(st) == 1 and (attr_path(st[0].value) in vals or (
                isinstance(st[0].value, ast.Subscript) and st[0].value.value is c)), fn, fn.loc(loop),
                "the unpacked offset is not stored under the field name %s" % loop.target.id)
            if len(st) == 1:
                tbl = attr_path(st[0].targets[0].value)
                rets = ret_values(fn)
                r.require(bool(rets) and all(v is not None and attr_path(v) == tbl for v in rets), fn, fn.loc(),
                          "%s returns %s ; the offsets are collected in %s" % (fn.name, [src(fn, v) if v is not None else None for v in rets], tbl))
        else:
            got = _dn(fn, fmt)
            want = {norm_src("'>' + %d * %s" % (nfields, fv)) for fv in fmt_vars}
            if not r.require(got in want, fn, fn.loc(c), "the offset table is unpacked with %s ; it holds %d fields of the "
                             "version's format (%s)" % (got, nfields, sorted(want))):
                continue
            fields = {nm for nm, vs in all_defs(fn).items() if vs and all(v is c for v in vs)}
            lps = [lp for lp in func_own_nodes(fn) if isinstance(lp, ast.For) and isinstance(lp.iter, ast.Call)
                   and call_name(lp.iter) == "enumerate" and isinstance(lp.target, ast.Tuple) and len(lp.target.elts) == 2]
            ok = False
            for lp in lps:
                iv, fv = [attr_path(e) for e in lp.target.elts]
                for x in ast.walk(lp):
                    if isinstance(x, ast.Assign) and len(x.targets) == 1 and isinstance(x.targets[0], ast.Subscript) \
                            and attr_path(x.targets[0].slice) == fv and isinstance(x.value, ast.Subscript) \
                            and attr_path(x.value.value) in fields and attr_path(x.value.slice) == iv:
                        ok = True
            r.require(ok, fn, fn.loc(c), "the unpacked fields are not stored as table[name] = fields[index] over enumerate(names)")


# ---- 11. records, counts and headers actually reach the file / the caller --------------
def _deep(fn, e, depth=4):
    """`e` with every local of `fn` that has exactly one definition replaced by that definition (shape comparison only)."""
    params = set(fn.params)
    env = {nm: vs[0] for nm, vs in all_defs(fn).items() if nm not in params and len(vs) == 1 and vs[0] is not None}
    for _i in range(depth):
        e = _sub(e, env)
    return e


def _dn(fn, e):
    return norm_plain(_deep(fn, e))


def _node_with(fn, call):
    return cfg_node_of(fn, call)


def _must_reach(r, fn, gate_nodes, what, start=None):
    """Every non-exceptional path (from `start`, default entry) to the normal exit passes one of gate_nodes."""
    cfg = fn.cfg()
    ids = {n.id for n in gate_nodes}
    bad = find_path_avoiding(cfg, lambda n: n.kind == "exit", gate_node=lambda n: n.id in ids, start=start,
                             skip_exc_edges=True)
    r.count(len(cfg.nodes))
    for (_t, w) in bad:
        r.violation(fn, fn.loc(start.ast if start is not None and start.ast is not None else None),
                    "%s on the path %s" % (what, w.brief()), w)
    return not bad


def _rule_transfer(ctx, idx, F):
    SER = "self._schema.lease_serializer.serialize(%s)"
    UNSER = "self._schema.lease_serializer.unserialize(%s.read(self.LEASE_SIZE))"
    with ctx.rule("C38.11", "R5", "lease records, lease counts and container headers are transferred: the record writers "
                  "write serialize(lease) at the computed offset, the count writers write the count, add_lease stores "
                  "record n and count n+1, the record readers return unserialize(bytes read) (None only for owner 0), "
                  "the count of extra mutable leases grows exactly when a slot beyond it is written, a new container "
                  "gets its header, the serializers hand the record to/from their codec", expected=19) as r:
        # -- record writers
        for q in (SF, MSF):
            fn = idx.func(q + "._write_lease_record")
            ps = first_positional_params(fn)
            if len(ps) < 3:
                raise AnchorVanished("%s(f, lease_number, lease_info)" % fn.qual)
            want = norm_src(SER % ps[2])
            ws = [c for c in calls_in_func(fn, "write") if len(c.args) == 1 and attr_path(c.func.value) == ps[0]
                  and _dn(fn, c.args[0]) == want]
            sk = [c for c in calls_in_func(fn, "seek") if attr_path(c.func.value) == ps[0]]
            if not sk:
                raise AnchorVanished("%s no longer seeks" % fn.qual)
            r.site(fn, sk[0], "record writer")
            if not ws:
                r.violation(fn, fn.loc(), "%s does not write %s to %s: the lease record never reaches the file" % (
                    fn.name, SER % ps[2], ps[0]))
                continue
            wn = [_node_with(fn, c) for c in ws]
            for c in sk:
                _must_reach(r, fn, wn, "after %s.seek(%s) the record %s is not written" % (ps[0], src(fn, c.args[0]), SER % ps[2]),
                            start=_node_with(fn, c))
        # -- immutable lease count
        we = idx.func(SF + "._write_encoded_num_leases")
        wps = first_positional_params(we)
        sk = [c for c in calls_in_func(we, "seek") if attr_path(c.func.value) == wps[0]]
        if not sk:
            raise AnchorVanished("%s no longer seeks" % we.qual)
        r.site(we, sk[0], "count writer")
        ws = [c for c in calls_in_func(we, "write") if len(c.args) == 1 and attr_path(c.func.value) == wps[0]
              and _dn(we, c.args[0]) == wps[1]]
        if not ws:
            r.violation(we, we.loc(), "%s does not write %s: the lease count in the header is never updated and "
                        "get_leases enumerates the old number of records" % (we.name, wps[1]))
        else:
            for c in sk:
                _must_reach(r, we, [_node_with(we, x) for x in ws], "after the seek to the lease count field %s is not written" % wps[1],
                            start=_node_with(we, c))
        wnl = idx.func(SF + "._write_num_leases")
        nps = first_positional_params(wnl)
        r.site(wnl, None, "count writer")
        want = norm_src("struct.pack(self._lease_count_format, %s)" % nps[1])
        cs = [c for c in calls_in_func(wnl, "_write_encoded_num_leases") if len(c.args) == 2 and attr_path(c.args[0]) == nps[0]
              and _dn(wnl, c.args[1]) == want]
        if not cs:
            r.violation(wnl, wnl.loc(), "%s does not hand pack(_lease_count_format, %s) to _write_encoded_num_leases" % (wnl.name, nps[1]))
        else:
            _must_reach(r, wnl, [_node_with(wnl, c) for c in cs], "the lease count is not written")
        # -- immutable add_lease: record n, then count n + 1
        al = idx.func(SF + ".add_lease")
        lp = first_positional_params(al)[0]
        rc = calls_in_func(al, "_read_num_leases")
        if not rc or not rc[0].args:
            raise AnchorVanished("ShareFile.add_lease no longer reads the lease count")
        fv = attr_path(rc[0].args[0])
        r.site(al, rc[0], "append a record")
        cnt = "self._read_num_leases(%s)" % fv
        recs = [c for c in calls_in_func(al, "_write_lease_record") if len(c.args) == 3 and attr_path(c.args[0]) == fv
                and _dn(al, c.args[1]) == norm_src(cnt) and attr_path(c.args[2]) == lp]
        if not recs:
            r.violation(al, al.loc(), "add_lease does not write %s as record number %s (the first free slot): %s" % (
                lp, cnt, [src(al, c) for c in calls_in_func(al, "_write_lease_record")]))
        else:
            _must_reach(r, al, [_node_with(al, c) for c in recs], "add_lease returns without writing the lease record")
        cws = [c for c in calls_in_func(al, "_write_encoded_num_leases") if len(c.args) == 2 and attr_path(c.args[0]) == fv
               and _dn(al, c.args[1]) == norm_src("struct.pack(self._lease_count_format, %s + 1)" % cnt)]
        cws += [c for c in calls_in_func(al, "_write_num_leases") if len(c.args) == 2 and attr_path(c.args[0]) == fv
                and _dn(al, c.args[1]) == norm_src("%s + 1" % cnt)]
        if not cws:
            r.violation(al, al.loc(), "add_lease does not store the lease count %s + 1 after appending one record: %s" % (
                cnt, [src(al, c) for c in calls_in_func(al, "_write_encoded_num_leases") + calls_in_func(al, "_write_num_leases")]))
        else:
            _must_reach(r, al, [_node_with(al, c) for c in cws], "add_lease returns without storing the new lease count")
        # -- immutable reader
        gl = idx.func(SF + ".get_leases")
        ys = [n for n in func_own_nodes(gl) if isinstance(n, ast.Yield) and n.value is not None]
        if not ys:
            raise AnchorVanished("ShareFile.get_leases yields nothing")
        r.site(gl, ys[0], "record reader")
        for y in ys:
            got = _dn(gl, y.value)
            r.require(re.match(r"^self\._schema\.lease_serializer\.unserialize\(\w+\.read\(self\.LEASE_SIZE\)\)$", got) is not None,
                      gl, gl.loc(y), "get_leases yields %s ; a lease is %s" % (got, UNSER % "f"))
        gcfg = gl.cfg()
        gnorm = FlowNorm(gl)
        rd_nodes = [n for n in gcfg.nodes if any(call_tail(c) == "read" and c.args and attr_path(c.args[0]) == "self.LEASE_SIZE"
                                                 for c in node_calls(n))]
        sk_nodes = [n for n in gcfg.nodes if any(call_tail(c) == "seek" and c.args and attr_path(c.args[0]) == "self._lease_offset"
                                                 for c in node_calls(n))]
        if not rd_nodes:
            raise AnchorVanished("ShareFile.get_leases no longer reads LEASE_SIZE bytes")
        skids = {n.id for n in sk_nodes}
        rdids = {n.id for n in rd_nodes}
        for (t, w) in find_path_avoiding(gcfg, lambda n: n.id in rdids, gate_node=lambda n: n.id in skids):
            r.violation(gl, gl.loc(t.ast), "lease records are read without a seek to self._lease_offset: after the header the file "
                        "position is the start of the share data (path %s)" % w.brief(), w)
        dvars = {t for n in rd_nodes for t in node_stores(n) if "." not in t and not t.endswith("[]")}
        ynodes = [n for n in gcfg.nodes if n.ast is not None and n.kind == "stmt" and any(isinstance(x, ast.Yield) for x in own_nodes(n.ast))]

        def tr_y(n, lab, nxt, st):
            if lab == "exc":
                return None
            if n.id in rdids:
                st = 0
            f = gnorm.edge_fact(n, lab)
            if f is not None and f[1] in dvars:
                st = 1 if f[0] == "false" else 0
            return st
        visited, parent = explore(gcfg, 0, tr_y)
        for yn in ynodes:
            if (yn.id, 1) in visited and (yn.id, 0) not in visited:
                w = witness(gcfg, parent, (yn.id, 1))
                r.violation(gl, gl.loc(yn.ast), "a lease is yielded only when the bytes read are empty: every stored record is "
                            "skipped (path %s)" % w.brief(), w)
        # -- a new immutable container gets its header
        ini = idx.func(SF + ".__init__")
        ips = first_positional_params(ini)
        if len(ips) < 3:
            raise AnchorVanished("ShareFile.__init__(filename, max_size, create, ...)")
        mp, cp = ips[1], ips[2]
        icfg = ini.cfg()
        inorm = FlowNorm(ini)
        hw = set()
        for c in calls_in_func(ini, "write"):
            a = _deep(ini, c.args[0]) if len(c.args) == 1 else None
            if isinstance(a, ast.Call) and call_tail(a) == "header" and len(a.args) == 1 and attr_path(a.args[0]) == mp \
                    and isinstance(a.func, ast.Attribute) and attr_path(a.func.value) in ("self._schema", "schema"):
                hw.add(_node_with(ini, c).id)

        def tr(n, lab, nxt, st):
            if lab == "exc":
                return None
            f = inorm.edge_fact(n, lab)
            if f is not None and f[0] == "truth" and f[1] == cp:
                st = max(st, 1)
            if st == 1 and n.id in hw:
                st = 2
            return st
        visited, parent = explore(icfg, 0, tr)
        r.site(ini, None, "create path")
        r.count(len(visited))
        if not any(st >= 1 for (_i, st) in visited):
            raise AnchorVanished("ShareFile.__init__ has no branch on %s" % cp)
        if (icfg.exit.id, 1) in visited:
            w = witness(icfg, parent, (icfg.exit.id, 1))
            r.violation(ini, ini.loc(), "with %s true the container is created without writing self._schema.header(%s): the "
                        "file has no version / size header and cannot be opened again (path %s)" % (cp, mp, w.brief()), w)
        cr = idx.func(MSF + ".create")
        hcs = calls_in_func(cr, "header")
        r.site(cr, hcs[0] if hcs else None, "create path")
        wr = [c for c in calls_in_func(cr, "write") if len(c.args) == 1 and isinstance(_deep(cr, c.args[0]), ast.Call)
              and call_tail(_deep(cr, c.args[0])) == "header"]
        if not wr:
            r.violation(cr, cr.loc(), "MutableShareFile.create does not write the schema header to the new file")
        else:
            _must_reach(r, cr, [_node_with(cr, c) for c in wr], "create() returns without writing the header")
        # -- mutable: the count of extra leases grows exactly when a slot beyond it is written
        wl = idx.func(MSF + "._write_lease_record")
        fp, ln = first_positional_params(wl)[:2]
        wcfg = wl.cfg()
        wnorm = FlowNorm(wl)
        cnt = "self._read_num_extra_leases(%s)" % fp
        cnt_names = [cnt] + [nm for nm, vs in all_defs(wl).items() if vs and all(
            v is not None and norm_plain(v) == norm_src(cnt) for v in vs)]
        bump = set()
        for c in calls_in_func(wl, "_write_num_extra_leases"):
            if len(c.args) == 2 and attr_path(c.args[0]) == fp and _dn(wl, c.args[1]) == norm_src(cnt + " + 1"):
                bump.add(_node_with(wl, c).id)
            else:
                r.violation(wl, wl.loc(c), "the extra-lease count is set to %s ; one appended record makes it %s + 1" % (
                    src(wl, c.args[1]) if len(c.args) == 2 else None, cnt))
        if not calls_in_func(wl, "_write_num_extra_leases"):
            raise AnchorVanished("MutableShareFile._write_lease_record no longer updates the extra-lease count")

        def in_range(nrm, n, lab, _ln=ln):
            f = nrm.edge_fact(n, lab)
            if f is None:
                return False
            here = nrm.at(n)
            if f == here.cmp(parse_expr("%s < 4" % _ln), True):
                return True
            return any(f == here.cmp(parse_expr("%s - 4 < %s" % (_ln, c_)), True) for c_ in cnt_names)

        def tr2(n, lab, nxt, st):
            if lab == "exc":
                return None
            known, flags, counted = st
            if n.kind == "test":
                f = wnorm.edge_fact(n, lab)
                if f is not None and f[0] in ("truth", "false") and f[1] in dict(flags):
                    if dict(flags)[f[1]] != (f[0] == "truth"):
                        return None
                if in_range(wnorm, n, lab):
                    known = True
            elif n.kind == "stmt" and isinstance(n.ast, ast.Assign) and len(n.ast.targets) == 1 and isinstance(
                    n.ast.targets[0], ast.Name):
                nm = n.ast.targets[0].id
                d = dict(flags)
                if isinstance(n.ast.value, ast.Constant) and isinstance(n.ast.value.value, bool):
                    d[nm] = n.ast.value.value
                else:
                    d.pop(nm, None)
                flags = tuple(sorted(d.items()))
            if n.id in bump:
                counted = True
            return (known, flags, counted)
        visited, parent = explore(wcfg, (False, (), False), tr2)
        r.site(wl, None, "extra-lease count")
        r.count(len(visited))
        for (nid, st) in sorted(visited, key=lambda x: (x[0], str(x[1]))):
            if nid != wcfg.exit.id:
                continue
            known, _flags, counted = st
            if not known and not counted:
                w = witness(wcfg, parent, (nid, st))
                r.violation(wl, wl.loc(), "a record is written to a slot that is not known to exist (neither %s < 4 nor "
                            "%s - 4 < %s holds) and the extra-lease count is not incremented: the lease is never read "
                            "back (path %s)" % (ln, ln, cnt, w.brief()), w)
                break
        for (nid, st) in sorted(visited, key=lambda x: (x[0], str(x[1]))):
            if nid == wcfg.exit.id and st[0] and st[2]:
                w = witness(wcfg, parent, (nid, st))
                r.violation(wl, wl.loc(), "the extra-lease count is incremented although an existing slot was overwritten: "
                            "the count then covers a record that is not in the file (path %s)" % w.brief(), w)
                break
        # -- mutable record reader
        rl = idx.func(MSF + "._read_lease_record")
        fp, ln = first_positional_params(rl)[:2]
        rcfg = rl.cfg()
        rnorm = FlowNorm(rl)
        r.site(rl, None, "record reader")
        r.count(len(rcfg.nodes))
        cnt = "self._read_num_extra_leases(%s)" % fp
        cnt_names = [cnt] + [nm for nm, vs in all_defs(rl).items() if vs and all(
            v is not None and norm_plain(v) == norm_src(cnt) for v in vs)]
        good = []
        for n in rcfg.find(is_return):
            v = ret_value_of(rl, n.ast)
            if v is None or (isinstance(v, ast.Constant) and v.value is None):
                continue
            got = _dn(rl, v)
            if r.require(got == norm_src(UNSER % fp), rl, rl.loc(n.ast), "_read_lease_record returns %s ; the record is %s" % (
                    got, UNSER % fp)):
                good.append(n)
        if not good:
            r.violation(rl, rl.loc(), "_read_lease_record never returns the unserialized record: every lease slot reads as empty")
        for n in good:
            v = ret_value_of(rl, n.ast)

            def nonzero(m, lab, _v=v):
                f = rnorm.edge_fact(m, lab)
                return f is not None and f == rnorm.at(m).cmp(parse_expr("(%s).owner_num != 0" % ast.unparse(_v)), True)
            for (_t, w) in find_path_avoiding(rcfg, lambda m, _n=n: m is _n, gate_edge=nonzero):
                r.violation(rl, rl.loc(n.ast), "the record is returned without the fact owner_num != 0 (owner 0 marks an empty "
                            "slot) on the path %s" % w.brief(), w)
        if good:
            gids = {n.id for n in good}
            lv = [ast.unparse(ret_value_of(rl, n.ast)) for n in good]

            def zero(m, lab):
                f = rnorm.edge_fact(m, lab)
                return f is not None and any(f == rnorm.at(m).cmp(parse_expr("(%s).owner_num == 0" % x), True) for x in lv)
            for (_t, w) in find_path_avoiding(rcfg, lambda m: m.kind == "exit", gate_node=lambda m: m.id in gids, gate_edge=zero,
                                              skip_exc_edges=True):
                r.violation(rl, rl.loc(), "_read_lease_record returns None (empty slot) without the fact owner_num == 0: a "
                            "stored lease is dropped on the path %s" % w.brief(), w)

        def beyond(m, lab, _ln=ln):
            f = rnorm.edge_fact(m, lab)
            if f is None:
                return False
            here = rnorm.at(m)
            return any(f == here.cmp(parse_expr("%s - 4 %s %s" % (_ln, op, c_)), True) for c_ in cnt_names for op in (">=", ">"))
        for (t, w) in find_path_avoiding(rcfg, raises("IndexError"), gate_edge=beyond):
            r.violation(rl, rl.loc(t.ast), "IndexError is raised for a lease number that is not known to be beyond the slots "
                        "(no fact %s - 4 >= %s): _enumerate_leases stops at it and the remaining leases are lost (path %s)" % (
                            ln, cnt, w.brief()), w)
        # -- mutable slot enumeration
        gs = idx.func(MSF + "._get_num_lease_slots")
        gp = first_positional_params(gs)[0]
        rets = ret_values(gs)
        r.site(gs, None, "slot count")
        r.require(bool(rets) and all(v is not None and _dn(gs, v) == norm_src("4 + self._read_num_extra_leases(%s)" % gp) for v in rets),
                  gs, gs.loc(), "_get_num_lease_slots returns %s ; there are 4 header slots + the extra-lease count" % (
                      [src(gs, v) if v is not None else None for v in rets]))
        en = idx.func(MSF + "._enumerate_leases")
        ep = first_positional_params(en)[0]
        r.site(en, None, "enumeration")
        loops = [n for n in func_own_nodes(en) if isinstance(n, ast.For)]
        ok = len(loops) == 1 and norm_plain(loops[0].iter) == norm_src("range(self._get_num_lease_slots(%s))" % ep) \
            and isinstance(loops[0].target, ast.Name)
        direct_loop = len(loops) == 1 and isinstance(loops[0].iter, ast.Call) and call_name(loops[0].iter) == "range"
        if not ok and not direct_loop:
            # the enumeration is composed of generators (helpers that yield, generator expressions, enumerate, yield from):
            # follow them to the one loop over the slots and to what is handed out per slot
            try:
                stream = _stream_func(en, {})
            except _NoStream as e:
                raise AnalysisError("%s: what it hands out cannot be followed (%s)" % (en.qual, e))
            r.count(len(stream.items))
            ok = False
            if r.require(norm_plain(stream.it) == norm_src("range(self._get_num_lease_slots(%s))" % ep), en, en.loc(),
                         "_enumerate_leases does not visit range(_get_num_lease_slots(%s)) (the generators it is composed of loop "
                         "over %s)" % (ep, src(en, stream.it))):
                rec = norm_src("self._read_lease_record(%s, %s)" % (ep, SLOT))
                want = norm_src("(%s, self._read_lease_record(%s, %s))" % (SLOT, ep, SLOT))
                r.require(bool(stream.items) and all(norm_plain(v) == want for (v, _cs) in stream.items), en, en.loc(),
                          "_enumerate_leases yields %s per slot %s ; specified (slot, record of that slot)" % (
                              [src(en, v) for (v, _cs) in stream.items], SLOT))
                P = Normaliser(Env(None, depth=0))
                for (v, cs) in stream.items:
                    facts = [P.cmp(t, pol) for (t, pol) in cs]
                    known = any((f[0] == "is not" and {f[1], f[2]} == {"None", rec}) or (f[0] == "truth" and f[1] == rec) for f in facts)
                    r.require(known, en, en.loc(v), "a slot is yielded without the fact that its record is not None: empty slots "
                              "are reported and stored leases are not (conditions: %s)" % [(src(en, t), pol) for (t, pol) in cs])
        else:
            r.require(ok, en, en.loc(), "_enumerate_leases does not visit range(_get_num_lease_slots(%s))" % ep)
        if ok:
            iv = loops[0].target.id
            ys = [n for n in func_own_nodes(en) if isinstance(n, ast.Yield)]
            want = norm_src("(%s, self._read_lease_record(%s, %s))" % (iv, ep, iv))
            r.require(bool(ys) and all(y.value is not None and _dn(en, y.value) == want for y in ys), en, en.loc(),
                      "_enumerate_leases yields %s ; specified (slot, record of that slot)" % (
                          [src(en, y.value) if y.value is not None else None for y in ys]))
            ecfg = en.cfg()
            enorm = FlowNorm(en)
            recs = {nm for nm, vs in all_defs(en).items() if vs and all(
                v is not None and isinstance(v, ast.Call) and call_tail(v) == "_read_lease_record" for v in vs)}
            yn = [n for n in ecfg.nodes if n.kind == "stmt" and n.ast is not None and any(isinstance(x, ast.Yield) for x in own_nodes(n.ast))]

            def not_none(n, lab):
                f = enorm.edge_fact(n, lab)
                if f is None:
                    return False
                if f[0] == "is not" and "None" in (f[1], f[2]):
                    x = f[2] if f[1] == "None" else f[1]
                    return x in recs or x == norm_src("self._read_lease_record(%s, %s)" % (ep, iv))
                return f[0] == "truth" and f[1] in recs
            ynids = {n.id for n in yn}
            for (t, w) in find_path_avoiding(ecfg, lambda n: n.id in ynids, gate_edge=not_none,
                                             kill=lambda n: n.kind == "stmt" and bool(recs & node_stores(n))):
                r.violation(en, en.loc(t.ast), "a slot is yielded without the fact that its record is not None: empty slots are "
                            "reported and stored leases are not (path %s)" % w.brief(), w)
        # -- accessor readers hand back what they unpacked
        for q in (SF + "._read_num_leases", MSF + "._read_data_length", MSF + "._read_extra_lease_offset",
                  MSF + "._read_num_extra_leases"):
            fn = idx.func(q)
            ups = struct_calls(fn, "unpack")
            if len(ups) != 1:
                raise AnchorVanished("%s: %d struct.unpack calls" % (fn.qual, len(ups)))
            r.site(fn, ups[0], "accessor result")
            rets = [n.value for n in func_own_nodes(fn) if isinstance(n, ast.Return)]
            want = norm_plain(ast.Subscript(value=ups[0], slice=ast.Constant(value=0), ctx=ast.Load()))
            r.require(bool(rets) and all(v is not None and _dn(fn, v) == want for v in rets), fn, fn.loc(),
                      "%s returns %s ; the field is the value it unpacked" % (fn.name, [src(fn, v) if v is not None else None for v in rets]))
        # -- serializers hand the record to / from their codec
        for cname in ("CleartextLeaseSerializer", "HashedLeaseSerializer"):
            ci = idx.cls("storage.lease_schema:" + cname)
            se, un = ci.lookup("serialize"), ci.lookup("unserialize")
            if se is None or un is None:
                raise AnchorVanished("%s.serialize/unserialize" % cname)
            sp = first_positional_params(se)[0]
            r.site(se, None, "serializer")
            rets = ret_values(se)
            r.require(bool(rets) and all(v is not None and isinstance(v, ast.Call) and attr_path(v.func) == "self._to_data"
                                         and len(v.args) == 1 and attr_path(v.args[0]) == sp for v in rets), se, se.loc(),
                      "%s.serialize returns %s ; the bytes are self._to_data(%s)" % (cname, [src(se, v) if v is not None else None for v in rets], sp))
            _must_reach(r, se, se.cfg().find(is_return), "%s.serialize ends without returning the record bytes" % cname)
            up = first_positional_params(un)[0]
            rets = ret_values(un)

            def has_from(v, _up=up):
                return v is not None and any(isinstance(x, ast.Call) and attr_path(x.func) == "self._from_data" and len(x.args) == 1
                                             and attr_path(x.args[0]) == _up for x in ast.walk(v))
            r.require(bool(rets) and all(has_from(v) for v in rets), un, un.loc(),
                      "%s.unserialize returns %s ; the lease is built from self._from_data(%s)" % (
                          cname, [src(un, v) if v is not None else None for v in rets], up))
        hl = idx.func("storage.lease_schema:HashedLeaseSerializer._hash_lease_info")
        hp = first_positional_params(hl)[0]
        assoc = calls_in_func(hl, "assoc")
        if not assoc:
            raise AnchorVanished("_hash_lease_info no longer builds the hashed lease with attr.assoc")
        for c in assoc:
            r.site(hl, c, "hashed secrets")
            kws = {k.arg: k.value for k in c.keywords}
            r.require(set(kws) == {"renew_secret", "cancel_secret"} and len(c.args) == 1 and attr_path(c.args[0]) == hp, hl, hl.loc(c),
                      "the hashed lease replaces %s of %s ; specified renew_secret and cancel_secret of %s" % (
                          sorted(k for k in kws if k), src(hl, c.args[0]) if c.args else None, hp))
            for k, v in kws.items():
                ok = isinstance(v, ast.Call) and call_tail(v) == "_hash_secret" and len(v.args) == 1 and attr_path(v.args[0]) == "%s.%s" % (hp, k)
                r.require(ok, hl, hl.loc(c), "%s of the stored lease is %s ; specified _hash_secret(%s.%s)" % (k, src(hl, v), hp, k))


# -- small helpers used above ------------------------------------------------------
def _returns_with(self, fn, local):
    """Fold the single return value of fn with its parameters bound to constants (no branches taken into account
    other than `if ...: raise`)."""
    env = dict(local)
    for st in fn.node.body:
        if isinstance(st, ast.Assign) and len(st.targets) == 1 and isinstance(st.targets[0], ast.Name):
            v = self.expr(st.value, fn, local=env)
            if v is None:
                return None
            env[st.targets[0].id] = v
        elif isinstance(st, ast.Return):
            return self.expr(st.value, fn, local=env)
    return None


Folding.returns_with = _returns_with


def _nopass(stmts):
    return [st for st in stmts if not isinstance(st, ast.Pass)]


def _concat_parts(e):
    if isinstance(e, ast.BinOp) and isinstance(e.op, ast.Add):
        return _concat_parts(e.left) + _concat_parts(e.right)
    return [e]


def _regex_excludes(ra, ch) -> bool:
    """No character position of the pattern can match `ch` (conservative: unknown constructs -> False)."""
    for op, av in ra:
        if op == "AT":
            continue
        if op == "LITERAL":
            if av == ch:
                return False
        elif op == "IN":
            for a, b in av:
                if a == "LITERAL":
                    if b == ch:
                        return False
                elif a == "RANGE":
                    if b[0] <= ch <= b[1]:
                        return False
                else:
                    return False
        elif op in ("MAX_REPEAT", "MIN_REPEAT"):
            if not _regex_excludes(av[2], ch):
                return False
        elif op == "SUBPATTERN":
            if not _regex_excludes(av[1], ch):
                return False
        elif op == "BRANCH":
            if not all(_regex_excludes(x, ch) for x in av):
                return False
        else:
            return False
    return True


