"""C39 SFTP writes are never lost to the background download (frontends/sftpd.py)."""
from sa.h import *

EXPLANATION = (
    "Decided on OverwriteableFileConsumer (all paths): (a) monotone merge - while consecutive overwrite regions are "
    "merged, the running end of the merged region only grows (each re-assignment is max(end, .) or guarded by . > end); "
    "(b) downloaded bytes are written to the temp file only at offset self.downloaded, only after the overwrite heap "
    "was consulted on that call (heap empty or its first region starts at/after the downloaded chunk), the partial "
    "write before a region is exactly the prefix data[:start-downloaded], skipping a region slices data by "
    "end-downloaded and advances downloaded to that same end, and a region reaching past the chunk re-queues "
    "(next_downloaded, end) and returns without writing; (c) overwrite() zero-fills the gap before the data write, "
    "records (start,end) whenever end > downloaded with start covering the zero-fill, and grows current_size "
    "monotonically; (d) read() touches the temp file only in a callback of when_reached_or_failed(min(offset+length, "
    "download_size)); when_reached_or_failed answers immediately only when index <= downloaded or the download is done; "
    "(e) set_current_size truncates / zero-extends before publishing the new size and clamps download_size. "
    "Undecided: byte-level results of arbitrary histories, heap ordering (heapq), interleavings with the reactor.")
TECHNIQUE = "static analysis: CFG x monitor path rules with flow-sensitive normal forms (monotone-update, must-precede, pairing)"

CLS = "frontends.sftpd:OverwriteableFileConsumer"


def _heap_top_unpack(fn, cfg, heap="self.overwrites"):
    """Nodes `(a, b) = self.overwrites[0]` -> list of (node, a, b)."""
    out = []
    for n in cfg.stmt_nodes():
        a = n.ast
        if isinstance(a, ast.Assign) and len(a.targets) == 1 and isinstance(a.targets[0], ast.Tuple) \
                and len(a.targets[0].elts) == 2 and isinstance(a.value, ast.Subscript) \
                and attr_path(a.value.value) == heap and isinstance(a.value.slice, ast.Constant) and a.value.slice.value == 0:
            s, e = [attr_path(x) for x in a.targets[0].elts]
            out.append((n, s, e))
    return out


def run(ctx: Context):
    idx = ctx.idx
    W = idx.func(CLS + ".write")
    cfg = W.cfg()
    fnorm = FlowNorm(W, keep={"data", "next_downloaded"} | {x for n in cfg.stmt_nodes() for x in node_stores(n)
                                                       if isinstance(n.ast, ast.Assign) and isinstance(n.ast.targets[0], ast.Tuple)})
    tops = _heap_top_unpack(W, cfg)
    if len(tops) < 2:
        raise AnchorVanished("write(): expected the outer and the merging unpack of self.overwrites[0]")
    # outer unpack = the one whose names are re-used by the merge loop; merge unpack binds other names
    outer = tops[0]
    start_v, end_v = outer[1], outer[2]
    merges = [t for t in tops[1:] if t[2] != end_v]
    if not merges:
        raise AnchorVanished("write(): merge loop unpack of self.overwrites[0] not found")

    # -- (a) monotone merge -------------------------------------------------
    with ctx.rule("C39.1", "R1", "write(): every re-assignment of the merged region's end is max(end, x) or guarded by x > end",
                  expected=1) as r:
        for n in cfg.stmt_nodes():
            if n is outer[0] or end_v not in node_stores(n):
                continue
            v = assign_value(n, end_v)
            r.site(W, n.ast, "end := %s" % (src(W, v) if v is not None else "?"))
            if v is None:
                r.violation(W, W.loc(n.ast), "the merged region's end `%s` is re-bound by a non-assignment" % end_v)
                continue
            ok = False
            if isinstance(v, ast.Call) and call_tail(v) == "max" and any(attr_path(a) == end_v for a in v.args):
                ok = True
            if not ok:
                vn = fnorm.norm(n, v)

                def grows(t, lab, _vn=vn):
                    f = fnorm.edge_fact(t, lab)
                    return bool(f) and f[0] == "<" and f[1] == end_v and f[2] == _vn
                kill_names = {end_v} | names_in(v)
                bad = find_path_avoiding(cfg, lambda x, _n=n: x is _n, gate_edge=grows,
                                         kill=lambda x, _k=kill_names: bool(_k & node_stores(x)))
                r.count(len(cfg.nodes))
                ok = not bad
                if bad:
                    r.violation(W, W.loc(n.ast), "merged overwrite region can shrink: `%s = %s` is neither max(%s, .) nor "
                                "guarded by %s > %s; a nested later overwrite then lets the download clobber the tail of "
                                "an earlier one (path: %s)" % (end_v, src(W, v), end_v, src(W, v), end_v, bad[0][1].brief()),
                                bad[0][1])
        # the merge loop stops only when the next region starts after the merged end
        for (mn, s1, e1) in merges:
            brk = [b for b in cfg.stmt_nodes() if isinstance(b.ast, ast.Break)]
            okb = False
            for b in brk:
                for (p, lab) in cfg.predecessors(b):
                    f = fnorm.edge_fact(p, lab)
                    if f and f[0] == "<" and f[1] == end_v and f[2] == s1:
                        okb = True
            r.require(okb, W, W.loc(mn.ast), "merge loop does not stop exactly when the next region starts after the merged end")

    # -- (b) downloaded data placement --------------------------------------
    with ctx.rule("C39.2", "R1", "write(): downloaded bytes go to offset self.downloaded, after consulting the overwrite "
                  "heap; prefix/suffix slicing is paired with the downloaded counter; chunks are dropped/clipped only as the size allows", expected=6) as r:
        fw = [n for n in cfg.stmt_nodes() if any(call_name(c) == "self.f.write" for c in node_calls(n))]
        if len(fw) < 2:
            raise AnchorVanished("write(): expected the prefix write and the final write to self.f")
        for n in fw:
            r.site(W, n.ast, "f.write")
            preds = cfg.predecessors(n)
            ok = len(preds) == 1 and any(call_name(c) == "self.f.seek" and len(c.args) == 1
                                         and attr_path(c.args[0]) == "self.downloaded" for c in node_calls(preds[0][0]))
            r.require(ok, W, W.loc(n.ast), "temp-file write is not immediately preceded by seek(self.downloaded)")
            c = [c for c in node_calls(n) if call_name(c) == "self.f.write"][0]
            a0 = c.args[0]
            if isinstance(a0, ast.Subscript):
                # prefix write: data[:start - self.downloaded] under start > self.downloaded
                sl = a0.slice
                okp = isinstance(sl, ast.Slice) and sl.lower is None and sl.upper is not None and \
                    norm_plain(sl.upper) == norm_src("%s - self.downloaded" % start_v) and attr_path(a0.value) == "data"
                r.require(okp, W, W.loc(n.ast), "partial write before an overwritten region is %s, expected data[:%s - self.downloaded]"
                          % (src(W, a0), start_v))

                def before(t, lab):
                    f = fnorm.edge_fact(t, lab)
                    return bool(f) and f[0] == "<" and f[1] == "self.downloaded" and f[2] == start_v
                for (t, w) in find_path_avoiding(cfg, lambda x, _n=n: x is _n, gate_edge=before):
                    r.violation(W, W.loc(n.ast), "prefix write not guarded by %s > self.downloaded" % start_v, w)
            else:
                r.require(attr_path(a0) == "data", W, W.loc(n.ast), "final write writes %s, not the remaining data" % src(W, a0))

                def consulted(t, lab):
                    f = fnorm.edge_fact(t, lab)
                    if not f:
                        return False
                    if f[0] == "<=" and f[1] == "len(self.overwrites)" and f[2] == "0":
                        return True
                    if f[0] == "false" and f[1] in ("self.overwrites", "len(self.overwrites)"):
                        return True
                    return f[0] == "<=" and f[2] == start_v and "next_downloaded" in f[1] or \
                        (f[0] == "<=" and f[2] == start_v and f[1] == norm_src("self.downloaded + len(data)"))
                for (t, w) in find_path_avoiding(cfg, lambda x, _n=n: x is _n, gate_edge=consulted):
                    r.violation(W, W.loc(n.ast), "downloaded data written without consulting the overwrite heap on this call "
                                "(path: %s)" % w.brief(), w)
                # after the final write the counter advances to next_downloaded
                ups = find_path_from_to_avoiding(cfg, lambda x, _n=n: x is _n, has_call("_update_downloaded"))
                for (s, w) in ups:
                    r.violation(W, W.loc(n.ast), "final write is not followed by _update_downloaded", w)
        # skip pairing: data = data[(end - self.downloaded):] ; _update_downloaded(end)
        skips = [n for n in cfg.stmt_nodes() if isinstance(n.ast, ast.Assign) and attr_path(n.ast.targets[0]) == "data"
                 and isinstance(n.ast.value, ast.Subscript) and isinstance(n.ast.value.slice, ast.Slice)
                 and n.ast.value.slice.upper is None and n.ast.value.slice.lower is not None]
        if not skips:
            raise AnchorVanished("write(): the suffix slice that skips an overwritten region was not found")
        for n in skips:
            r.site(W, n.ast, "skip")
            lo = norm_plain(n.ast.value.slice.lower)
            r.require(lo == norm_src("%s - self.downloaded" % end_v), W, W.loc(n.ast),
                      "skip over an overwritten region slices data[%s:], expected data[%s - self.downloaded:]" % (lo, end_v))
            nxt = [m for (m, l) in cfg.successors(n) if l is None]
            oku = len(nxt) == 1 and any(call_tail(c) == "_update_downloaded" and len(c.args) == 1
                                        and attr_path(c.args[0]) == end_v for c in node_calls(nxt[0]))
            r.require(oku, W, W.loc(n.ast), "after skipping to %s the downloaded counter is not advanced to that same %s" % (end_v, end_v))

            def within(t, lab):
                f = fnorm.edge_fact(t, lab)
                return bool(f) and f[0] == "<=" and f[1] == "self.downloaded" and f[2] == end_v
            for (t, w) in find_path_avoiding(cfg, lambda x, _n=n: x is _n, gate_edge=within):
                r.violation(W, W.loc(n.ast), "suffix slice taken without %s >= self.downloaded (negative slice start)" % end_v, w)
        # region past the chunk: re-queue (next_downloaded, end), advance, return without writing
        pushes = [n for n in cfg.stmt_nodes() if calls_at(n, "heappush")]
        if not pushes:
            raise AnchorVanished("write(): re-queue of the remaining overwrite region not found")
        for n in pushes:
            r.site(W, n.ast, "re-queue")
            c = calls_at(n, "heappush")[0]
            okq = len(c.args) == 2 and attr_path(c.args[0]) == "self.overwrites" and isinstance(c.args[1], ast.Tuple) \
                and len(c.args[1].elts) == 2 and attr_path(c.args[1].elts[1]) == end_v \
                and fnorm.norm(n, c.args[1].elts[0]) in ("next_downloaded", norm_src("self.downloaded + len(data)"))
            r.require(okq, W, W.loc(n.ast), "remaining overwrite region re-queued as %s, expected (next_downloaded, %s)" % (
                src(W, c.args[1]) if len(c.args) > 1 else "?", end_v))

            def past(t, lab):
                f = fnorm.edge_fact(t, lab)
                return bool(f) and f[0] == "<=" and f[2] == end_v and ("next_downloaded" in f[1] or f[1] == norm_src("self.downloaded + len(data)"))
            for (t, w) in find_path_avoiding(cfg, lambda x, _n=n: x is _n, gate_edge=past):
                r.violation(W, W.loc(n.ast), "re-queue not guarded by %s >= next_downloaded" % end_v, w)
            # no f.write after the re-queue on this call
            visited, parent = explore(cfg, 0, lambda a, lab, b, s: None if lab == "exc" else 0, start=n)
            for (nid, s) in visited:
                if cfg.nodes[nid] in fw:
                    r.violation(W, W.loc(n.ast), "downloaded data is written after an overwrite region covering the rest of "
                                "the chunk was found", witness(cfg, parent, (nid, s)))
        # the re-queue path advances the downloaded counter to next_downloaded before returning
        for n in pushes:
            for (st, w) in find_path_from_to_avoiding(cfg, lambda x, _n=n: x is _n, lambda x: any(
                    call_tail(c) == "_update_downloaded" and len(c.args) == 1 and fnorm.norm(x, c.args[0]) in
                    ("next_downloaded", norm_src("self.downloaded + len(data)")) for c in node_calls(x))):
                r.violation(W, W.loc(n.ast), "after re-queueing the rest of an overwrite region the downloaded counter is not "
                            "advanced to next_downloaded: the same chunk position is processed again on the next call", w)
        # downloaded data is dropped only when the consumer is closed or the (possibly truncated) download size is
        # reached; every other early return loses original file content
        early = [n for n in cfg.find(is_return) if not any(p_.kind == "stmt" and calls_at(p_, "_update_downloaded")
                                                          for (p_, _l) in cfg.predecessors(n))]
        for n in early:
            r.site(W, n.ast, "early return")

            def excused(t, lab):
                f = fnorm.edge_fact(t, lab)
                if not f:
                    return False
                return (f[0] == "truth" and f[1] == "self.is_closed") or \
                       (f[0] == "<=" and f[1] == "self.download_size" and f[2] == "self.downloaded")
            for (t, w) in find_path_avoiding(cfg, lambda x, _n=n: x is _n, gate_edge=excused):
                r.violation(W, W.loc(n.ast), "write() drops a downloaded chunk although the consumer is open and the download "
                            "size has not been reached (path: %s)" % w.brief(), w)
        # a chunk reaching past download_size (file truncated meanwhile) is clipped before anything is written
        clip = [n for n in cfg.stmt_nodes() if isinstance(n.ast, ast.Assign) and attr_path(n.ast.targets[0]) == "data"
                and isinstance(n.ast.value, ast.Subscript) and isinstance(n.ast.value.slice, ast.Slice)
                and n.ast.value.slice.lower is None and n.ast.value.slice.upper is not None]
        okc = [n for n in clip if norm_plain(n.ast.value.slice.upper) == norm_src("self.download_size - self.downloaded")]
        r.require(bool(okc), W, W.loc(), "a chunk that reaches past download_size is no longer clipped to download_size - downloaded: "
                  "downloaded bytes would be written beyond a truncation")
        for cn in okc:
            r.site(W, cn.ast, "clip")

            def fits(t, lab):
                f = fnorm.edge_fact(t, lab)
                return bool(f) and f[0] == "<=" and f[2] == "self.download_size" and (
                    "next_downloaded" in f[1] or f[1] == norm_src("self.downloaded + len(data)"))
            for wn in fw:
                for (t, w) in find_path_avoiding(cfg, lambda x, _n=wn: x is _n, gate_node=lambda x, _c=cn: x is _c, gate_edge=fits):
                    r.violation(W, W.loc(wn.ast), "downloaded data can be written without clipping the chunk to download_size", w)
        # the heap entry is popped before the merge loop (no region is consulted twice)
        pops = [n for n in cfg.stmt_nodes() if calls_at(n, "heappop")]
        r.require(len(pops) >= 2, W, W.loc(), "heap entries are no longer popped when consumed")

    # -- (c) overwrite() ------------------------------------------------------
    with ctx.rule("C39.3", "R1/R2", "overwrite(): zero-fill precedes the data write, (start,end) recorded whenever end > downloaded, "
                  "current_size grows monotonically", expected=3) as r:
        O = idx.func(CLS + ".overwrite")
        g = O.cfg()
        on = FlowNorm(O)
        ps = first_positional_params(O)
        off, dat = ps[0], ps[1]
        dw = [n for n in g.stmt_nodes() if any(call_name(c) == "self.f.write" and c.args and attr_path(c.args[0]) == dat
                                               for c in node_calls(n))]
        if len(dw) != 1:
            raise AnchorVanished("overwrite(): the data write to the temp file was not found")
        dwn = dw[0]
        r.site(O, dwn.ast, "data write")
        # zero fill under offset > current_size
        zf = [n for n in g.stmt_nodes() if any(call_name(c) == "self.f.write" and c.args and isinstance(c.args[0], ast.BinOp)
                                               for c in node_calls(n))]
        okz = False
        for n in zf:
            c = [c for c in node_calls(n) if call_name(c) == "self.f.write"][0]
            b = c.args[0]
            if isinstance(b.op, ast.Mult):
                parts = [b.left, b.right]
                zero = [p for p in parts if isinstance(p, ast.Constant) and p.value == b"\x00"]
                cnt = [p for p in parts if not (isinstance(p, ast.Constant) and p.value == b"\x00")]
                if zero and cnt and norm_plain(cnt[0]) == norm_src("%s - self.current_size" % off):
                    preds = g.predecessors(n)
                    if len(preds) == 1 and any(call_name(cc) == "self.f.seek" and attr_path(cc.args[0]) == "self.current_size"
                                               for cc in node_calls(preds[0][0])):
                        okz = True
                        r.site(O, n.ast, "zero fill")
                        # every path to the data write with offset > current_size passes the zero fill
                        def beyond_false(t, lab):
                            f = on.edge_fact(t, lab)
                            return bool(f) and f[0] == "<=" and f[1] == off and f[2] == "self.current_size"
                        for (t, w) in find_path_avoiding(g, lambda x: x is dwn, gate_node=lambda x, _n=n: x is _n, gate_edge=beyond_false):
                            r.violation(O, O.loc(dwn.ast), "data can be written beyond EOF without zero-filling the gap", w)
        r.require(okz, O, O.loc(), "gap between current EOF and the write offset is not zero-filled at seek(current_size)")
        # the seek before the data write: offset on the in-range branch
        okseek = any(call_name(c) == "self.f.seek" and attr_path(c.args[0]) == off for n in g.stmt_nodes() for c in node_calls(n))
        r.require(okseek, O, O.loc(), "in-range overwrite does not seek to the write offset")
        # recording
        pushes = [n for n in g.stmt_nodes() if calls_at(n, "heappush")]
        if not pushes:
            raise AnchorVanished("overwrite(): region is never recorded in the overwrite heap")
        for n in pushes:
            r.site(O, n.ast, "record")
            c = calls_at(n, "heappush")[0]
            tup = c.args[1] if len(c.args) == 2 else None
            okt = attr_path(c.args[0]) == "self.overwrites" and isinstance(tup, ast.Tuple) and len(tup.elts) == 2
            r.require(okt, O, O.loc(n.ast), "recorded region is not a (start, end) pair on self.overwrites")
            if okt:
                e = on.norm(n, tup.elts[1])
                r.require(e == norm_src("%s + len(%s)" % (off, dat)), O, O.loc(n.ast), "recorded end is %s, expected offset+len(data)" % e)
                # start: offset, or current_size on the zero-fill branch (both reach here) -> it must be the variable
                sname = attr_path(tup.elts[0])
                sdefs = [assign_value(m, sname) for m in g.stmt_nodes() if sname and sname in node_stores(m)]
                sn = sorted(norm_plain(x) for x in sdefs if x is not None)
                r.require(sn == sorted([off, "self.current_size"]), O, O.loc(n.ast),
                          "recorded start has definitions %s, expected {offset, current_size(zero-fill start)}" % sn)
        # push happens on every path where end > downloaded
        endexpr = norm_src("%s + len(%s)" % (off, dat))

        def not_needed(t, lab):
            f = on.edge_fact(t, lab)
            return bool(f) and f[0] == "<=" and f[1] == endexpr and f[2] == "self.downloaded"
        for (t, w) in find_path_avoiding(g, lambda x: x.kind == "exit", gate_node=has_call("heappush"), gate_edge=not_needed):
            r.violation(O, O.loc(), "overwrite can return without recording a region that the download has not passed yet "
                        "(path: %s)" % w.brief(), w)
        # push after the data write; current_size monotone
        for (t, w) in find_path_avoiding(g, has_call("heappush"), gate_node=lambda x: x is dwn):
            r.violation(O, O.loc(t.ast), "region recorded before the data is in the temp file", w)
        cs = [n for n in g.stmt_nodes() if "self.current_size" in node_stores(n)]
        for n in cs:
            v = assign_value(n, "self.current_size")
            okm = isinstance(v, ast.Call) and call_tail(v) == "max" and any(attr_path(a) == "self.current_size" for a in v.args) \
                and any(on.norm(n, a) == endexpr for a in v.args)
            r.require(okm, O, O.loc(n.ast), "current_size := %s is not max(current_size, end)" % src(O, v))
        r.require(bool(cs), O, O.loc(), "overwrite no longer updates current_size")

    # -- (d) read() ----------------------------------------------------------
    with ctx.rule("C39.4", "E7/R1", "read(): the temp file is read only in a callback of when_reached_or_failed(min(offset+length, "
                  "download_size)); when_reached_or_failed answers at once only if index <= downloaded or done", expected=2) as r:
        R = idx.func(CLS + ".read")
        ps = first_positional_params(R)
        rn = FlowNorm(R)
        # no f.read / f.seek in read() itself
        for c in calls_in_func(R):
            if call_name(c) in ("self.f.read", "self.f.seek"):
                r.violation(R, R.loc(c), "read() touches the temp file before the download reached the requested range")
        readers = [f for f in R.nested.values() if any(call_name(c) == "self.f.read" for c in calls_in_func(f))]
        if len(readers) != 1:
            raise AnchorVanished("read(): the callback that reads the temp file was not found")
        cb = readers[0]
        r.site(R, cb.node, "reader callback")
        regs = [x for x in registrations(R) if isinstance(x.target, ast.Name) and x.target.id == cb.name]
        r.require(len(regs) == 1 and regs[0].kind == "cb", R, R.loc(), "reader callback is not registered with addCallback exactly once")
        if regs:
            dv = regs[0].recv
            g = R.cfg()
            dn = [n for n in g.stmt_nodes() if dv in node_stores(n)]
            okd = False
            for n in dn:
                v = assign_value(n, dv)
                if isinstance(v, ast.Call) and call_tail(v) == "when_reached_or_failed" and len(v.args) == 1:
                    need = rn.norm(n, v.args[0])
                    want = "min(%s, self.download_size)" % norm_src("%s + %s" % (ps[0], ps[1]))
                    want2 = "min(self.download_size, %s)" % norm_src("%s + %s" % (ps[0], ps[1]))
                    okd = need in (want, want2)
                    r.require(okd, R, R.loc(n.ast), "read waits for %s, expected min(offset+length, download_size)" % need)
            r.require(okd, R, R.loc(), "the Deferred carrying the reader callback does not come from when_reached_or_failed")
        # the callback reads `length` at `offset`
        sk = [c for c in calls_in_func(cb) if call_name(c) == "self.f.seek"]
        rd = [c for c in calls_in_func(cb) if call_name(c) == "self.f.read"]
        r.require(len(sk) == 1 and attr_path(sk[0].args[0]) == ps[0] and len(rd) == 1 and attr_path(rd[0].args[0]) == ps[1],
                  cb, cb.loc(), "reader callback does not seek(offset) / read(length)")
        # EOF clipping: length := current_size - offset under offset+length > current_size
        clip = [n for n in R.cfg().stmt_nodes() if ps[1] in node_stores(n)]
        for n in clip:
            v = assign_value(n, ps[1])
            r.require(v is not None and norm_plain(v) == norm_src("self.current_size - %s" % ps[0]), R, R.loc(n.ast),
                      "length is clipped to %s, expected current_size - offset" % (src(R, v) if v is not None else "?"))
        Wf = idx.func(CLS + ".when_reached_or_failed")
        r.site(Wf, None)
        wg = Wf.cfg()
        wn = FlowNorm(Wf)
        ip = first_positional_params(Wf)[0]
        for n in wg.find(is_return):
            v = n.ast.value
            if isinstance(v, ast.Call) and call_tail(v) in ("succeed", "execute"):
                def reached(t, lab):
                    f = wn.edge_fact(t, lab)
                    if not f:
                        return False
                    return (f[0] == "<=" and f[1] == ip and f[2] == "self.downloaded") or \
                           (f[0] == "is not" and {f[1], f[2]} == {"None", "self.done_status"})
                for (t, w) in find_path_avoiding(wg, lambda x, _n=n: x is _n, gate_edge=reached):
                    r.violation(Wf, Wf.loc(n.ast), "a waiter is released although the download has neither reached its index nor finished", w)
        pushes = [n for n in wg.stmt_nodes() if calls_at(n, "heappush")]
        r.require(bool(pushes) and all(attr_path(calls_at(n, "heappush")[0].args[0]) == "self.milestones" and
                                       isinstance(calls_at(n, "heappush")[0].args[1], ast.Tuple) and
                                       attr_path(calls_at(n, "heappush")[0].args[1].elts[0]) == ip for n in pushes),
                  Wf, Wf.loc(), "pending waiter is not queued as (index, d) on self.milestones")

    # -- (d2) milestones fire only when reached --------------------------------
    with ctx.rule("C39.5", "R1", "_update_downloaded(): a milestone is released only when its index <= max(new_downloaded, end of the "
                  "overwrite region containing it); download_done only when that milestone >= download_size", expected=2) as r:
        U = idx.func(CLS + "._update_downloaded")
        g = U.cfg()
        un = FlowNorm(U, keep={"milestone"} | {x for n in g.stmt_nodes() for x in node_stores(n)
                                             if isinstance(n.ast, ast.Assign) and isinstance(n.ast.targets[0], ast.Tuple)})
        p0 = first_positional_params(U)[0]
        fires = [n for n in g.stmt_nodes() if calls_at(n, "eventually_callback")]
        if not fires:
            raise AnchorVanished("_update_downloaded(): milestone release not found")
        mt = _heap_top_unpack(U, g, "self.milestones")
        if not mt:
            raise AnchorVanished("_update_downloaded(): unpack of self.milestones[0] not found")
        nxt = mt[0][1]
        for n in fires:
            r.site(U, n.ast, "release")

            def due(t, lab):
                f = un.edge_fact(t, lab)
                return bool(f) and f[0] == "<=" and f[1] == nxt and f[2] == "milestone"
            for (t, w) in find_path_avoiding(g, lambda x, _n=n: x is _n, gate_edge=due, kill=stores("milestone")):
                r.violation(U, U.loc(n.ast), "milestone released without %s <= milestone" % nxt, w)
        # milestone's definitions: new_downloaded, or end of heap-top region under start <= new_downloaded and end > milestone
        ms = [n for n in g.stmt_nodes() if "milestone" in node_stores(n)]
        ot = _heap_top_unpack(U, g)
        for n in ms:
            v = assign_value(n, "milestone")
            vn = norm_plain(v) if v is not None else None
            if vn == p0:
                continue
            oke = bool(ot) and vn == ot[0][2]
            r.require(oke, U, U.loc(n.ast), "milestone := %s is neither new_downloaded nor the end of the first overwrite region" % vn)
            if oke:
                def covers(t, lab, _s=ot[0][1]):
                    f = un.edge_fact(t, lab)
                    return bool(f) and f[0] == "<=" and f[1] == _s and f[2] == p0
                for (t, w) in find_path_avoiding(g, lambda x, _n=n: x is _n, gate_edge=covers):
                    r.violation(U, U.loc(n.ast), "milestone extended to the end of an overwrite region that does not start at/before "
                                "the downloaded position", w)
        dd = [n for n in g.stmt_nodes() if calls_at(n, "download_done")]
        for n in dd:
            r.site(U, n.ast, "download_done")

            def complete(t, lab):
                f = un.edge_fact(t, lab)
                return bool(f) and f[0] == "<=" and f[1] == "self.download_size" and f[2] == "milestone"
            for (t, w) in find_path_avoiding(g, lambda x, _n=n: x is _n, gate_edge=complete, kill=stores("milestone")):
                r.violation(U, U.loc(n.ast), "download declared done before the milestone reached download_size", w)
        # self.downloaded := new_downloaded first
        st = [n for n in g.stmt_nodes() if "self.downloaded" in node_stores(n)]
        r.require(len(st) == 1 and attr_path(assign_value(st[0], "self.downloaded")) == p0, U, U.loc(),
                  "_update_downloaded does not set self.downloaded to its argument")

    # -- (e) set_current_size ----------------------------------------------------
    with ctx.rule("C39.6", "R1", "set_current_size(): truncate under size < current_size or size < downloaded; zero-extend through "
                  "overwrite() before publishing the new size; download_size clamped", expected=3) as r:
        S = idx.func(CLS + ".set_current_size")
        g = S.cfg()
        sn = FlowNorm(S)
        p0 = first_positional_params(S)[0]
        pub = [n for n in g.stmt_nodes() if "self.current_size" in node_stores(n)]
        if len(pub) != 1 or attr_path(assign_value(pub[0], "self.current_size")) != p0:
            raise AnchorVanished("set_current_size(): publication of the new size not found")
        pubn = pub[0]
        tr = [n for n in g.stmt_nodes() if any(call_name(c) == "self.f.truncate" for c in node_calls(n))]
        r.require(bool(tr), S, S.loc(), "shrinking no longer truncates the temp file")
        for n in tr:
            r.site(S, n.ast, "truncate")
            c = [c for c in node_calls(n) if call_name(c) == "self.f.truncate"][0]
            r.require(attr_path(c.args[0]) == p0, S, S.loc(n.ast), "temp file truncated to %s" % src(S, c.args[0]))
        # shrink below current_size must truncate before publishing
        def not_smaller(t, lab):
            f = sn.edge_fact(t, lab)
            return bool(f) and f[0] == "<=" and f[1] == "self.current_size" and f[2] == p0
        for (t, w) in find_path_avoiding(g, lambda x: x is pubn, gate_node=lambda x: x in tr, gate_edge=not_smaller):
            r.violation(S, S.loc(pubn.ast), "size can shrink below current_size without truncating the temp file "
                        "(stale bytes reappear on a later extension)", w)
        ext = [n for n in g.stmt_nodes() if calls_at(n, "overwrite")]
        r.require(bool(ext), S, S.loc(), "growing no longer zero-extends through overwrite()")
        for n in ext:
            r.site(S, n.ast, "zero-extend")
            c = calls_at(n, "overwrite")[0]
            okx = len(c.args) == 2 and attr_path(c.args[0]) == "self.current_size" and isinstance(c.args[1], ast.BinOp) \
                and isinstance(c.args[1].op, ast.Mult) and any(
                    norm_plain(x) == norm_src("%s - self.current_size" % p0) for x in (c.args[1].left, c.args[1].right))
            r.require(okx, S, S.loc(n.ast), "extension is %s, expected overwrite(current_size, zeros * (size - current_size))" % src(S, c))

        def not_larger(t, lab):
            f = sn.edge_fact(t, lab)
            return bool(f) and f[0] == "<=" and f[1] == p0 and f[2] == "self.current_size"
        for (t, w) in find_path_avoiding(g, lambda x: x is pubn, gate_node=lambda x: x in ext, gate_edge=not_larger):
            r.violation(S, S.loc(pubn.ast), "size can grow without zero-filling the new range", w)
        dl = [n for n in g.stmt_nodes() if "self.download_size" in node_stores(n)]
        r.require(bool(dl), S, S.loc(), "download_size is no longer clamped to the new size")
        for n in dl:
            r.site(S, n.ast, "clamp")
            r.require(attr_path(assign_value(n, "self.download_size")) == p0, S, S.loc(n.ast), "download_size := %s" % src(S, n.ast))

            def smaller(t, lab):
                f = sn.edge_fact(t, lab)
                return bool(f) and f[0] == "<" and f[1] == p0 and f[2] == "self.download_size"
            for (t, w) in find_path_avoiding(g, lambda x, _n=n: x is _n, gate_edge=smaller):
                r.violation(S, S.loc(n.ast), "download_size changed without size < download_size", w)
        for (t, w) in find_path_avoiding(g, lambda x: x.kind == "exit", gate_node=lambda x: x in dl,
                                         gate_edge=lambda t, lab: bool(sn.edge_fact(t, lab)) and sn.edge_fact(t, lab)[0] == "<="
                                         and sn.edge_fact(t, lab)[1] == "self.download_size" and sn.edge_fact(t, lab)[2] == p0):
            r.violation(S, S.loc(), "download_size can stay above the new size (download would write past the truncation)", w)
