"""C39 SFTP writes are never lost to the background download (frontends/sftpd.py)."""
from sa.h import *

EXPLANATION = (
    "Decided on OverwriteableFileConsumer (all paths): (a) monotone merge - while consecutive overwrite regions are "
    "merged, the running end of the merged region only grows (each re-assignment is max(end, .) or guarded by . > end) - also when "
    "write() delegates the merge to a helper method self.<m>() whose result (or one element of it) becomes the region's end: there the "
    "returned local starts as the end of the first heap record (or as write()'s end, passed in), every later re-binding of it is "
    "max(end, .) or guarded by . > end (a tuple unpack of a popped record is not), a further record is popped only on paths that "
    "established record-start <= merged end, and write() has not removed the record the helper starts from; the same is decided when write() "
    "does not unpack self.overwrites[0] at all but compares self.overwrites[0][0] in place with the end of the chunk and takes the whole region "
    "from the helper (`(start, end) = self.<m>()`, the helper pops the first record too): then the start handed back is bound only from the "
    "start of the first record of the heap, never from a later one (C39.14); "
    "(b) downloaded bytes are written to the temp file only at offset self.downloaded, only after the overwrite heap "
    "was consulted on that call (heap empty or its first region starts at/after the downloaded chunk), the partial "
    "write before a region is exactly the prefix data[:start-downloaded], skipping a region slices data by "
    "end-downloaded and advances downloaded to that same end, and a region reaching past the chunk re-queues "
    "(next_downloaded, end) and returns without writing; (c) overwrite() zero-fills the gap before the data write, "
    "records (start,end) whenever end > downloaded with start covering the zero-fill, and grows current_size "
    "monotonically; (d) read() touches the temp file only in a callback of when_reached_or_failed(min(offset+length, "
    "download_size)); when_reached_or_failed answers immediately only when index <= downloaded or the download is done; "
    "read() shortens length to current_size - offset only when offset+length reaches past current_size (and does so whenever "
    "the reader callback asserts current_size >= offset+length), and answers without waiting only at/after EOF; "
    "(e) set_current_size truncates / zero-extends before publishing the new size, clamps download_size, and declares the "
    "download done only under downloaded >= download_size; (f) the first entry of the overwrite / milestone heap is read only "
    "when the heap is known non-empty and each turn of the milestone loop pops the entry it released. "
    "Decided on GeneralSFTPFile (the handle in front of the consumer): (g) close() takes the commit decision synchronously: it returns "
    "without queueing the commit on self.async_ only when the handle was already closed, was not opened with a flag set that includes "
    "FXF_WRITE, was abandoned, or self.has_changed (sampled in close() itself) is false; therefore every request that performs or "
    "queues self.consumer.overwrite / self.consumer.set_current_size (writeChunk, setAttrs with a size) sets has_changed = True in its "
    "own body before it returns (not in the queued callback) - except on paths that passed an edge fact over never re-bound locals of "
    "the request whose negation guards every path to that call inside the queued callback (setAttrs without a size) -, is refused "
    "on handles for which close() skips the commit, its write callback is really queued (not defined and dropped / errback only), and "
    "has_changed is never re-assigned to anything but True outside __init__; (h) the commit reads the consumer's temp file (get_file) "
    "only inside callbacks of self.consumer.when_done(), chains such an upload on every way through, and returns that Deferred (so that "
    "_do_close closes the consumer only afterwards); when_done() returns a new Deferred fired only from a callback of self.done, "
    "self.done is created unfired and fired only by download_done(). "
    "Decided on the consumer's bookkeeping as a whole (every method of the class, nested callbacks and local aliases included, and stores from "
    "outside the class): (i) a record leaves the pending-overwrite heap only by a heappop in the own body of write() / its merge helper; "
    "any other pop, remove, clear, del, element store or re-binding of the heap - wherever it is - is reported unless it happens after "
    "is_closed was set, re-binds the heap to a copy / re-ordering of itself, replaces the first record by one with start <= its start and "
    "end >= its end, or is a filter [ELT for (s, e) in heap if C] whose dropped records (C false) provably start at/after a bound the "
    "download never passes again (download_size, current_size, a parameter every way through the method clamps download_size to) or end "
    "at/before self.downloaded or lie inside a region (a, b) that the method pushes onto the heap on every way afterwards, and whose ELT keeps the record's start (or lowers it) and its end (or raises it, or clips it to such a bound); "
    "(j) in write() a record is taken off the heap only after the first record was read since the last change of the heap and found to start "
    "before the end of the chunk (while merging: at/before the merged end), and from every take every way to the write of the chunk's rest, to "
    "the next record, or out of write() re-queues (., end), skips the chunk to end, or passes end < self.downloaded; (k) self.downloaded is "
    "stored only by __init__ / _update_downloaded, which only write() calls - with the end of the chunk, or with a value established to lie "
    "between self.downloaded and the end of the chunk - (other methods may pass / store self.downloaded itself or min(self.downloaded, B) for "
    "such a bound B); self.current_size is stored only by __init__ / overwrite / set_current_size; every store of self.download_size after "
    "__init__ is min(self.download_size, .) or guarded by . < self.download_size; a waiting reader leaves self.milestones only by a heappop "
    "in _update_downloaded / download_done. "
    "Undecided: a write() that reads the first record in yet another way (start bound from self.overwrites[0][0] to a plain local, the "
    "region popped by write() itself without an unpack of self.overwrites[0], a helper that returns something else than locals) gives "
    "ANALYSIS-ERROR; whether a record pushed onto the heap outside overwrite() / write() denotes bytes the client really wrote; whether a store "
    "that lowers download_size outside set_current_size stops the download too early; a heap handed to code outside the class "
    "(ANALYSIS-ERROR); removals hidden behind setattr / __dict__; byte-level results of arbitrary histories, heap ordering (heapq), interleavings with the reactor; liveness "
    "(a milestone that is never released, an overwrite region that is not merged / a milestone not extended over it, a download "
    "that is not declared done after a truncation only delay reads); the `size < downloaded` truncate clause of set_current_size "
    "(value-level: no reachable state was found in which it alone matters); whether read() at offset == current_size raises "
    "EOFError or returns b''; behaviour of overwrite()/read() on a closed consumer; which uploader the commit picks (mutable / immutable) and the result "
    "of a failed download; requests arriving after close().")
TECHNIQUE = "static analysis: CFG x monitor path rules with flow-sensitive normal forms (monotone-update, must-precede, pairing), Deferred-chain registration model, who-may-mutate classification of every use of the bookkeeping state"

CLS = "frontends.sftpd:OverwriteableFileConsumer"


def _heap_top_unpack(fn, cfg, heap="self.overwrites"):
    """Nodes `(a, b) = self.overwrites[0]` -> list of (node, a, b)."""
    out = []
    for n in cfg.stmt_nodes():
        a = n.ast
        if isinstance(a, ast.Assign) and len(a.targets) == 1 and isinstance(a.targets[0], ast.Tuple) \
                and len(a.targets[0].elts) == 2 and isinstance(a.value, ast.Subscript) \
                and attr_path(a.value.value) == heap and isinstance(a.value.slice, ast.Constant) and a.value.slice.value == 0:
            s, e = [attr_path(x) for x in a.targets[0].elts]
            out.append((n, s, e))
    return out


def _le_fact(f, a, b):
    """Does the edge fact `f` state a < b / a <= b?  Compared as the polynomial difference b - a, so that
    `x + y > z` (which the normaliser moves to one side) and `z < x + y` match alike.  Returns '<', '<=' or None."""
    if not f or f[0] not in ("<", "<=") or f[2] is None:
        return None
    try:
        if norm_src("(%s) - (%s)" % (f[2], f[1])) == norm_src("(%s) - (%s)" % (b, a)):
            return f[0]
    except Exception:
        return None
    return None


def _nonempty_fact(f, heap):
    """Edge fact that implies `heap` has at least one entry."""
    if not f:
        return False
    ln = "len(%s)" % heap
    if f[0] == "truth" and f[1] in (heap, ln):
        return True
    if f[0] == "!=" and {f[1], f[2]} == {"0", ln}:
        return True
    if f[0] in ("<", "<=") and f[2] == ln:
        try:
            c = int(f[1])
        except (TypeError, ValueError):
            return False
        return c >= 0 if f[0] == "<" else c >= 1
    return False


def _heap_top_reads(n, heap):
    """Load-context `heap[0]` subscripts evaluated at CFG node n."""
    out = []
    for e in node_exprs(n):
        for x in own_nodes(e):
            if isinstance(x, ast.Subscript) and isinstance(x.ctx, ast.Load) and attr_path(x.value) == heap \
                    and isinstance(x.slice, ast.Constant) and x.slice.value == 0:
                out.append(x)
    return out


def _direct_exams(cfg, fnorm, nd_forms, heap="self.overwrites"):
    """Test nodes that compare the start of the first heap record, read in place (`heap[0][0]`), with the end of the
    delivered chunk (one of the normal forms `nd_forms`), in either direction."""
    top_s = norm_src("%s[0][0]" % heap)
    out = []
    for n in cfg.nodes:
        if n.kind != "test" or not _heap_top_reads(n, heap):
            continue
        for (_d, lab) in cfg.successors(n):
            if not isinstance(lab, tuple):
                continue
            f = fnorm.edge_fact(n, lab)
            if any(_le_fact(f, top_s, x) is not None or _le_fact(f, x, top_s) is not None for x in nd_forms):
                out.append(n)
                break
    return out


def _f_call(n, name=None):
    """Calls on the temp file (self.f.<name>) at node n."""
    return [c for c in node_calls(n) if (call_name(c) or "").startswith("self.f.") and (name is None or call_name(c) == "self.f." + name)]


# ---------------------------------------------------------------- GeneralSFTPFile (file handle in front of the consumer)
GCLS = "frontends.sftpd:GeneralSFTPFile"
FLAG = "self.has_changed"
# calls on the consumer that change the file's contents
QUEUED_MUTATORS = ("self.consumer.overwrite", "self.consumer.set_current_size")
_REG_KINDS = {"addCallback": "cb", "addBoth": "both", "addCallbacks": "pair"}


def _all_nested(fn):
    out = {}
    for f in fn.nested.values():
        out[f.name] = f
        for k, v in _all_nested(f).items():
            out.setdefault(k, v)
    return out


def _tree_calls(node):
    return [x for x in ast.walk(node) if isinstance(x, ast.Call)]


def _reached_callables(fn, cls, target, depth=3):
    """ASTs (Lambda / FunctionDef) of the callables that a registration target may run: the lambda itself, the nested
    function of `fn` it names, a method `self.m` of the class, and the nested functions / methods those call by name."""
    nested = _all_nested(fn)
    out, seen = [], set()

    def add(t, d):
        body = None
        if isinstance(t, ast.Lambda):
            body = t
        elif isinstance(t, ast.Name) and t.id in nested:
            body = nested[t.id].node
        elif isinstance(t, ast.Attribute) and cls is not None and (attr_path(t) or "").startswith("self.") \
                and attr_path(t).count(".") == 1 and t.attr in cls.methods:
            body = cls.methods[t.attr].node
        if body is None or id(body) in seen:
            return
        seen.add(id(body))
        out.append(body)
        if d > 0:
            for c in _tree_calls(body):
                add(c.func, d - 1)
    add(target, depth)
    return out


def _cfg_node_of(cfg, call):
    for n in cfg.nodes:
        if n.kind in ("entry", "exit", "raise"):
            continue
        for e in node_exprs(n):
            if any(x is call for x in ast.walk(e)):
                return n
    return None


def _truthy_const(v):
    return isinstance(v, ast.Constant) and bool(v.value) and not isinstance(v.value, (str, bytes))


def _flag_mask(s):
    """`self.flags & (A | B | ..)` (normal-form string) -> frozenset of the flag names, else None."""
    try:
        e = parse_expr(s)
    except Exception:
        return None
    if not (isinstance(e, ast.BinOp) and isinstance(e.op, ast.BitAnd)):
        return None
    sides = [e.left, e.right]
    fl = [x for x in sides if attr_path(x) == "self.flags"]
    if len(fl) != 1:
        return None
    other = [x for x in sides if x is not fl[0]][0]
    names = set()

    def collect(x):
        if isinstance(x, ast.BinOp) and isinstance(x.op, ast.BitOr):
            return collect(x.left) and collect(x.right)
        if isinstance(x, ast.Name):
            names.add(x.id)
            return True
        return False
    return frozenset(names) if collect(other) and names else None


def _strip_chain(v):
    while isinstance(v, ast.Call) and isinstance(v.func, ast.Attribute) and v.func.attr in ("addCallback", "addErrback", "addBoth", "addCallbacks"):
        v = v.func.value
    return v


def _fact_names(f):
    """Names used by an edge fact if it is built only from plain names, constants and operators (no attribute, call or
    subscript: nothing whose value can change between the request and the queued callback), else None."""
    names = set()
    for side in (f[1], f[2]):
        if side is None:
            continue
        try:
            e = parse_expr(side)
        except Exception:
            return None
        for x in ast.walk(e):
            if isinstance(x, ast.Name):
                names.add(x.id)
            elif not isinstance(x, (ast.Constant, ast.BinOp, ast.UnaryOp, ast.BoolOp, ast.Compare, ast.operator, ast.unaryop,
                                    ast.boolop, ast.cmpop, ast.expr_context, ast.Tuple)):
                return None
    return names - {"None", "True", "False"}


def _request_frozen_names(m):
    """Locals / parameters of request `m` that a queued callback sees exactly as the request left them: bound in m's own body
    (or a parameter), never bound in any nested function and never declared nonlocal / global."""
    mg = m.cfg()
    own = set(m.params) | {x for n in mg.nodes if n.kind not in ("entry", "exit", "raise") for x in node_stores(n) if "." not in x and "[" not in x}
    spoiled = set()
    for f in _all_nested(m).values():
        own.discard(f.name)
        a = f.node.args
        for p_ in list(a.posonlyargs) + list(a.args) + list(a.kwonlyargs) + [x for x in (a.vararg, a.kwarg) if x is not None]:
            spoiled.add(p_.arg)
        for x in ast.walk(f.node):
            if x is f.node:
                continue
            if isinstance(x, ast.Name) and isinstance(x.ctx, (ast.Store, ast.Del)):
                spoiled.add(x.id)
            elif isinstance(x, (ast.FunctionDef, ast.AsyncFunctionDef, ast.ClassDef)):
                spoiled.add(x.name)
            elif isinstance(x, ast.arg):
                spoiled.add(x.arg)
            elif isinstance(x, (ast.Import, ast.ImportFrom)):
                spoiled.update((al.asname or al.name).split(".")[0] for al in x.names)
            elif isinstance(x, ast.ExceptHandler) and x.name:
                spoiled.add(x.name)
    for x in ast.walk(m.node):
        if isinstance(x, (ast.Nonlocal, ast.Global)):
            spoiled.update(x.names)
    return own - spoiled


def _callback_unreachable_facts(m, reg, mutators):
    """Facts over frozen request locals under which the callback queued by registration `reg` cannot reach any of its
    mutator calls: for each mutator call (it must sit in the own body of the directly registered nested function) the
    negations of the edge facts that guard every path to it; intersection over the calls.  Empty set = no such fact."""
    nested = _all_nested(m)
    t = reg.target
    if not (isinstance(t, ast.Name) and t.id in nested):
        return set()
    f = nested[t.id]
    frozen = _request_frozen_names(m)
    calls = [c for b in _reached_callables(m, None, t) for c in _tree_calls(b) if call_name(c) in mutators]
    own = list(func_own_nodes(f))
    fg = f.cfg()
    fn_ = FlowNorm(f, keep=frozen)
    result = None
    seen = set()
    for c in calls:
        if id(c) in seen:
            continue
        seen.add(id(c))
        if not any(x is c for x in own):
            return set()            # a mutator call in a helper / lambda / deeper function: not analysed, no excuse
        nc = _cfg_node_of(fg, c)
        if nc is None:
            return set()
        facts = set()
        for tn in fg.nodes:
            if tn.kind != "test":
                continue
            labs = [lab for (_d, lab) in fg.successors(tn) if isinstance(lab, tuple)]
            for lab in labs:
                others = [l2 for l2 in labs if l2[0] != lab[0]]
                if not others:
                    continue
                neg = fn_.edge_fact(tn, others[0])
                if not neg:
                    continue
                nm = _fact_names(neg)
                if not nm or not nm <= frozen:
                    continue
                if not find_path_avoiding(fg, lambda x, _n=nc: x is _n, gate_edge=lambda a, l, _t=tn, _k=lab[0]: a is _t and isinstance(l, tuple) and l[0] == _k):
                    facts.add(tuple(neg))
        result = facts if result is None else (result & facts)
    return result or set()


# ---------------------------------------------------------------- the merge of consecutive overwrite records
HEAP = "self.overwrites"
_HEAP_MUTATING_METHODS = ("pop", "clear", "remove", "append", "extend", "insert", "sort")


def _is_heap_top(v, heap=HEAP):
    return isinstance(v, ast.Subscript) and attr_path(v.value) == heap and isinstance(v.slice, ast.Constant) and v.slice.value == 0


def _is_heap_pop(v, heap=HEAP):
    return isinstance(v, ast.Call) and call_tail(v) == "heappop" and bool(v.args) and attr_path(v.args[0]) == heap


def _heap_pops(n, heap=HEAP):
    return [c for c in node_calls(n) if _is_heap_pop(c, heap)]


def _mutates_heap(n, heap=HEAP):
    if n.kind in ("entry", "exit", "raise"):
        return False
    st = node_stores(n)
    if heap in st or (heap + "[]") in st:
        return True
    for c in node_calls(n):
        if call_tail(c) in ("heappop", "heappush", "heapreplace", "heappushpop", "heapify") and c.args and attr_path(c.args[0]) == heap:
            return True
        if isinstance(c.func, ast.Attribute) and attr_path(c.func.value) == heap and c.func.attr in _HEAP_MUTATING_METHODS:
            return True
    return False


def _binding(n, name):
    """How CFG node n binds the local `name`: ('expr', value) for a plain / element-wise assignment, ('elt', value, i) when
    `name` is element i of a tuple target that unpacks `value`, ('other',) for any other binding (for target, augmented
    assignment, with .. as, ..); None when n does not bind it."""
    if name not in node_stores(n):
        return None
    a = n.ast
    if n.kind == "stmt" and isinstance(a, ast.Assign):
        for t in a.targets:
            if attr_path(t) == name:
                return ("expr", a.value)
            if isinstance(t, (ast.Tuple, ast.List)):
                idxs = [i for i, tt in enumerate(t.elts) if attr_path(tt) == name]
                if not idxs or any(isinstance(tt, ast.Starred) for tt in t.elts):
                    continue
                if isinstance(a.value, (ast.Tuple, ast.List)) and len(a.value.elts) == len(t.elts):
                    return ("expr", a.value.elts[idxs[-1]])
                return ("elt", a.value, idxs[-1])
    if n.kind == "stmt" and isinstance(a, ast.AnnAssign) and attr_path(a.target) == name and a.value is not None:
        return ("expr", a.value)
    return ("other",)


def _self_method_call(v, cls):
    """`self.<m>(..)` where <m> is a method of the class (or a base class) -> its FuncInfo, else None."""
    if isinstance(v, ast.Call) and isinstance(v.func, ast.Attribute) and attr_path(v.func.value) == "self" and cls is not None:
        return cls.lookup(v.func.attr)
    return None


def _delegated_merge(fnorm, n, name, cls):
    """Is the binding of `name` at node n the result (or one element of the result) of a helper method of the class?
    -> (call, FuncInfo, element index or None), else None."""
    b = _binding(n, name)
    if not b or b[0] == "other":
        return None
    v = b[1]
    if isinstance(v, ast.Name):
        v = fnorm.resolve(n, v)
    h = _self_method_call(v, cls)
    if h is None:
        return None
    return (v, h, b[2] if b[0] == "elt" else None)


def _elt_expr(v, i):
    return ast.Subscript(value=v, slice=ast.Constant(value=i), ctx=ast.Load())


def _bound_arg(call, H, pname):
    """The argument expression that `call` binds to parameter `pname` of method H (None: default / not decidable)."""
    ps = first_positional_params(H)
    for k in call.keywords:
        if k.arg == pname:
            return k.value
    if any(isinstance(a, ast.Starred) for a in call.args) or any(k.arg is None for k in call.keywords):
        return None
    if pname in ps and ps.index(pname) < len(call.args):
        return call.args[ps.index(pname)]
    return None


def _popped_between(g, a, b):
    """Over the non-exceptional paths of CFG g from node a to node b: does the code in between change the overwrite heap?
    -> True (on every path), False (on none), None (on some).  `a` may be a list of nodes (the verdicts must agree)."""
    if isinstance(a, (list, tuple)):
        got = {_popped_between(g, x, b) for x in a}
        return got.pop() if len(got) == 1 else None

    def tr(x, lab, y, st):
        if lab == "exc" or (x is b):
            return None
        return st or (x is not a and _mutates_heap(x))
    vis, _par = explore(g, False, tr, start=a)
    got = {st for (nid, st) in vis if nid == b.id}
    if got == {True}:
        return True
    if got == {False}:
        return False
    return None


def _check_merge_helper(r, caller, call_node, call, H, comp, caller_end, caller_top_node, cls):
    """Decide the merge conditions inside helper method H, whose result (element `comp` of it, or all of it) becomes the
    end of the merged overwrite region in `caller`:
      * the local that is returned as the merged end starts as the end of the first heap record (or as the caller's end),
      * every later re-binding of it is max(end, x) or guarded by x > end (the merged end never shrinks),
      * a record is popped as merged only when it starts at/before the merged end.
    Returns the helper functions that were analysed (for the heap discipline rule)."""
    hg = H.cfg()
    tuple_names = {x for n in hg.stmt_nodes() for x in node_stores(n)
                   if isinstance(n.ast, ast.Assign) and isinstance(n.ast.targets[0], (ast.Tuple, ast.List)) and "." not in x and "[" not in x}
    pre = FlowNorm(H, keep=tuple_names)
    rets = hg.find(is_return)
    if not rets:
        r.violation(H, H.loc(), "%s() hands no merged region back to %s()" % (H.name, caller.name))
        return [H]
    ends = set()
    for rn in rets:
        v = rn.ast.value
        if v is not None and comp is not None:
            if isinstance(v, ast.Name):
                v = pre.resolve(rn, v)
            v = v.elts[comp] if isinstance(v, (ast.Tuple, ast.List)) and len(v.elts) > comp else None
        if not isinstance(v, ast.Name):
            raise AnalysisError("%s(): the merged end handed back to %s() (%s) is not a local; the merge cannot be decided"
                                % (H.name, caller.name, src(H, rn.ast)))
        ends.add(v.id)
    if len(ends) != 1:
        raise AnalysisError("%s(): different locals (%s) are returned as the merged end" % (H.name, sorted(ends)))
    EH = ends.pop()
    hn = FlowNorm(H, keep=tuple_names | {EH})
    rd = C.reaching_defs(hg)
    analysed = [H]
    from_param = EH in H.params
    caller_popped = _popped_between(caller.cfg(), caller_top_node, call_node)
    if caller_popped is None:
        raise AnalysisError("%s(): the first overwrite record is removed on some paths to the call of %s() only; the merge cannot be decided"
                            % (caller.name, H.name))
    if from_param:
        a = _bound_arg(call, H, EH)
        r.require(a is not None and attr_path(a) == caller_end, caller, caller.loc(call_node.ast),
                  "%s() starts the merged end from its argument `%s`, which %s() binds to %s, not to the end `%s` of the region it examined"
                  % (H.name, EH, caller.name, src(caller, a) if a is not None else "nothing", caller_end))

    def shrink_msg(n, what):
        return ("merged overwrite region can shrink: %s() re-binds the merged end `%s` to %s, which is neither max(%s, .) nor guarded by "
                ". > %s; a smaller write nested in a larger pending one then lets the download clobber the tail of the larger one"
                % (H.name, EH, what, EH, EH))

    n_defs = 0
    for n in hg.stmt_nodes() + [x for x in hg.nodes if x.kind in ("iter", "with", "except")]:
        b = _binding(n, EH)
        if b is None:
            continue
        n_defs += 1
        r.site(H, n.ast, "merged end := %s" % src(H, n.ast))
        prior = rd.get(n.id, {}).get(EH, frozenset())
        if b[0] == "other":
            r.violation(H, H.loc(n.ast), shrink_msg(n, "a loop / with / augmented target"))
            continue
        v = b[1]
        rv = pre.resolve(n, v) if isinstance(v, ast.Name) else v
        if not prior:
            # first definition: the end of the first heap record
            if b[0] == "elt":
                if not (_is_heap_top(rv) or _is_heap_pop(rv)):
                    raise AnalysisError("%s(): the merged end starts from %s, not from the first record of %s; cannot be decided"
                                        % (H.name, src(H, n.ast), HEAP))
                r.require(b[2] == 1, H, H.loc(n.ast), "%s(): the merged end `%s` starts as element %d of the first overwrite record, "
                          "not as its end" % (H.name, EH, b[2]))
            else:
                ok0 = isinstance(rv, ast.Subscript) and isinstance(rv.slice, ast.Constant) and rv.slice.value == 1 and \
                    (_is_heap_top(rv.value) or _is_heap_pop(rv.value) or
                     (isinstance(rv.value, ast.Name) and (_is_heap_top(pre.resolve(n, rv.value)) or _is_heap_pop(pre.resolve(n, rv.value)))))
                if not ok0:
                    raise AnalysisError("%s(): the merged end starts from %s, not from the first record of %s; cannot be decided"
                                        % (H.name, src(H, n.ast), HEAP))
            # the record the helper starts from is the one the caller examined: no heap change in between
            r.require(not caller_popped, caller, caller.loc(call_node.ast), "%s() changes %s between reading its first record and calling "
                      "%s(), which starts the merge from the first record again: a record is merged without having been compared "
                      "with the region" % (caller.name, HEAP, H.name))
            continue
        # a re-binding: monotone
        if b[0] == "expr" and isinstance(rv, ast.Call) and call_tail(rv) == "max" and not rv.keywords \
                and any(attr_path(a_) == EH for a_ in rv.args):
            continue
        if _self_method_call(rv, cls) is not None:
            raise AnalysisError("%s(): the merge is delegated once more (%s); cannot be decided" % (H.name, src(H, n.ast)))
        if b[0] == "expr":
            vn = hn.norm(n, v)
            kills = {EH} | names_in(v)
            heapish = HEAP in vn
        else:
            if _is_heap_pop(rv) or _is_heap_top(rv):
                vn = norm_src("%s[0][%d]" % (HEAP, b[2]))
                kills, heapish = {EH}, True
            else:
                vn = hn.norm(n, _elt_expr(v, b[2]))
                kills, heapish = {EH} | names_in(v), False

        def grows(t, lab, _vn=vn):
            f = hn.edge_fact(t, lab)
            return bool(f) and f[0] == "<" and f[1] == EH and f[2] == _vn
        bad = find_path_avoiding(hg, lambda x, _n=n: x is _n, gate_edge=grows,
                                 kill=lambda x, _k=kills, _h=heapish: bool(_k & node_stores(x)) or (_h and _mutates_heap(x)))
        r.count(len(hg.nodes))
        if bad:
            r.violation(H, H.loc(n.ast), shrink_msg(n, "`%s`" % src(H, n.ast)) + " (path: %s)" % bad[0][1].brief(), bad[0][1])
    if not n_defs and not from_param:
        raise AnalysisError("%s(): the merged end `%s` is never bound" % (H.name, EH))

    # a record is popped as merged only when it starts at/before the merged end
    pops = [n for n in hg.nodes if n.kind not in ("entry", "exit", "raise") and _heap_pops(n)]
    top_starts = [norm_src("%s[0][0]" % HEAP)] + [s for (_n, s, _e) in _heap_top_unpack(H, hg) if s]

    def adjoining(t, lab):
        f = hn.edge_fact(t, lab)
        return any(_le_fact(f, s0, EH) is not None for s0 in top_starts)

    def stale(x):
        return _mutates_heap(x) or bool(set(top_starts[1:]) & node_stores(x))
    for p_ in pops:
        r.site(H, p_.ast, "record popped")
        # the first pop on a path removes the record the caller examined - unless the caller has removed that one itself
        starts = [q for q in pops] + ([None] if caller_popped else [])
        for q in starts:
            if q is None:
                bad = find_path_avoiding(hg, lambda x, _p=p_: x is _p, gate_edge=adjoining, kill=stale, skip_exc_edges=True)
            else:
                bad = []
                for (d, lab) in hg.successors(q):
                    if lab == "exc":
                        continue
                    bad = find_path_avoiding(hg, lambda x, _p=p_: x is _p, gate_edge=adjoining, kill=stale, start=d, skip_exc_edges=True)
                    if bad:
                        break
            r.count(len(hg.nodes))
            if bad:
                r.violation(H, H.loc(p_.ast), "%s() pops a further record of %s as merged without having established that it starts "
                            "at/before the merged end `%s`: the download data between two separate overwrites is skipped (path: %s)"
                            % (H.name, HEAP, EH, bad[0][1].brief()), bad[0][1])
                break
    return analysed


def _check_helper_start(r, caller, call_node, call, H, comp, caller_start, exam_nodes):
    """Helper method H hands back (as element `comp` of its result) the start of the region that `caller` then protects: the
    heap is ordered by start, so the merged region starts where the first record starts.  Decide that the returned local is
    bound only from element 0 of the first record (heap[0] / the first heappop on every path), and that the caller has not
    removed that record itself."""
    hg = H.cfg()
    tuple_names = {x for n in hg.stmt_nodes() for x in node_stores(n)
                   if isinstance(n.ast, ast.Assign) and isinstance(n.ast.targets[0], (ast.Tuple, ast.List)) and "." not in x and "[" not in x}
    pre = FlowNorm(H, keep=tuple_names)
    rets = hg.find(is_return)
    if not rets:
        r.violation(H, H.loc(), "%s() hands no region back to %s()" % (H.name, caller.name))
        return
    names = set()
    for rn in rets:
        v = rn.ast.value
        if isinstance(v, ast.Name):
            v = pre.resolve(rn, v)
        v = v.elts[comp] if isinstance(v, (ast.Tuple, ast.List)) and len(v.elts) > comp else None
        if not isinstance(v, ast.Name):
            raise AnalysisError("%s(): the region start handed back to %s() (%s) is not a local; cannot be decided"
                                % (H.name, caller.name, src(H, rn.ast)))
        names.add(v.id)
    if len(names) != 1:
        raise AnalysisError("%s(): different locals (%s) are returned as the region's start" % (H.name, sorted(names)))
    SH = names.pop()
    if SH in H.params:
        a = _bound_arg(call, H, SH)
        r.site(H, None, "start := parameter %s" % SH)
        r.require(a is not None and attr_path(a) == caller_start, caller, caller.loc(call_node.ast),
                  "%s() hands back its argument `%s` as the region's start, which %s() does not bind to the start `%s` of the record it "
                  "examined" % (H.name, SH, caller.name, caller_start))
    # heap state on arrival at each node: has a record been removed since H was entered?
    vis, par = explore(hg, False, lambda x, lab, y, st: None if lab == "exc" else (st or (x.kind not in ("entry", "exit", "raise") and _mutates_heap(x))))
    caller_popped = _popped_between(caller.cfg(), exam_nodes, call_node)
    rdh = C.reaching_defs(hg)
    n_defs = 0
    for n in hg.stmt_nodes() + [x for x in hg.nodes if x.kind in ("iter", "with", "except")]:
        b = _binding(n, SH)
        if b is None:
            continue
        n_defs += 1
        r.site(H, n.ast, "region start := %s" % src(H, n.ast))
        why = "the prefix of the downloaded chunk that write() puts in front of the region then covers bytes of the first pending overwrite " \
              "(or stops short of it)"
        if b[0] == "other" or (SH in H.params):
            r.violation(H, H.loc(n.ast), "%s() re-binds the start `%s` of the region it hands back (%s): %s" % (H.name, SH, src(H, n.ast), why))
            continue
        v = b[1]
        rv = pre.resolve(n, v) if isinstance(v, ast.Name) else v
        if b[0] == "elt":
            from_rec, which = (_is_heap_top(rv) or _is_heap_pop(rv)), b[2]
        else:
            from_rec = isinstance(rv, ast.Subscript) and isinstance(rv.slice, ast.Constant) and isinstance(rv.slice.value, int) and \
                (_is_heap_top(rv.value) or _is_heap_pop(rv.value) or
                 (isinstance(rv.value, ast.Name) and (_is_heap_top(pre.resolve(n, rv.value)) or _is_heap_pop(pre.resolve(n, rv.value)))))
            which = rv.slice.value if from_rec else None
        if not from_rec:
            raise AnalysisError("%s(): the region's start is bound from %s, not from a record of %s; cannot be decided" % (H.name, src(H, n.ast), HEAP))
        r.require(which == 0, H, H.loc(n.ast), "%s(): the start `%s` of the region handed back is element %s of the heap record, not its start: %s"
                  % (H.name, SH, which, why))
        # the node(s) at which the record itself was read (`rec = heappop(..)` ... `start, end = rec`)
        carrier = v if isinstance(v, ast.Name) else (rv.value if b[0] == "expr" and isinstance(rv.value, ast.Name) else None)
        origin = [n.id]
        if carrier is not None:
            origin = sorted(rdh.get(n.id, {}).get(carrier.id, frozenset()), key=str)
            if not origin or not all(isinstance(d, int) and 0 <= d < len(hg.nodes) for d in origin):
                raise AnalysisError("%s(): where the record `%s` was read cannot be decided" % (H.name, carrier.id))
        later = sorted((nid, st) for (nid, st) in vis if nid in origin and st)
        r.count(len(vis))
        if later:
            r.violation(H, H.loc(n.ast), "%s() takes the start `%s` of the region it hands back from a record that is not the first one of %s "
                        "(records were already removed when `%s` runs): the merged region starts where its first record starts; %s (path: %s)"
                        % (H.name, SH, HEAP, src(H, n.ast), why, witness(hg, par, later[0]).brief()), witness(hg, par, later[0]))
        if caller_popped is None:
            raise AnalysisError("%s(): the first overwrite record is removed on some paths to the call of %s() only; cannot be decided"
                                % (caller.name, H.name))
        r.require(not caller_popped, caller, caller.loc(call_node.ast), "%s() changes %s between comparing its first record with the chunk and "
                  "calling %s(), which takes the region's start from the first record again" % (caller.name, HEAP, H.name))
    if not n_defs and SH not in H.params:
        raise AnalysisError("%s(): the region start `%s` is never bound" % (H.name, SH))


# ---------------------------------------------------------------- who may take records out of a heap
_HEAPQ_TAKING = ("heappop",)
_HEAPQ_REPLACING = ("heapreplace", "heappushpop")
_HEAPQ_KEEPING = ("heappush", "heapify")
_LIST_REMOVING = ("pop", "remove", "clear", "__delitem__", "__setitem__", "__init__", "__imul__")
_LIST_KEEPING = ("append", "extend", "insert", "sort", "reverse", "copy", "index", "count", "__len__", "__iter__", "__getitem__",
                 "__contains__")
_PURE_READERS = ("len", "list", "sorted", "tuple", "iter", "bool", "enumerate", "repr", "str", "min", "max", "sum", "any", "all",
                 "id", "reversed", "nsmallest", "nlargest", "isinstance", "type", "zip", "set", "frozenset")


def _parent_map(root):
    par = {}
    for p_ in ast.walk(root):
        for c in ast.iter_child_nodes(p_):
            par[id(c)] = p_
    return par


def _heap_events(root, is_heap_path):
    """Every use of the heap (an expression whose attribute path satisfies `is_heap_path`, or a local alias of it) inside
    `root` (nested functions and lambdas included), classified by what it does to the heap's records:
      ('pop', call)        heapq.heappop(H)
      ('replace', call)    heapq.heapreplace(H, x) / heappushpop(H, x)
      ('remove', node, what)   H.pop() / H.remove() / H.clear() / del H[..] / H[..] = x / H *= n / del H
      ('rebind', stmt, value or None)   H = value (None: bound by a loop / with / unpacking)
      ('keep', node)       heappush / heapify / append / sort / H += x ...: no record leaves
      ('escape', node, what)   the list itself is handed to code this rule does not follow
    Reads (len, H[0], iteration, tests, formatting, copies) are not reported."""
    par = _parent_map(root)
    aliases = set()

    def is_heap(e):
        if isinstance(e, ast.Name):
            return e.id in aliases
        p_ = attr_path(e)
        return p_ is not None and isinstance(e, ast.Attribute) and is_heap_path(p_)
    changed = True
    while changed:
        changed = False
        for st in ast.walk(root):
            if isinstance(st, ast.Assign) and is_heap(st.value):
                for t in st.targets:
                    if isinstance(t, ast.Name) and t.id not in aliases:
                        aliases.add(t.id)
                        changed = True
    out = []

    def enclosing_stmt(x):
        while x is not None and not isinstance(x, ast.stmt):
            if isinstance(x, ast.comprehension):
                return x
            x = par.get(id(x))
        return x
    for x in ast.walk(root):
        if not isinstance(x, (ast.Attribute, ast.Name)) or not is_heap(x):
            continue
        p_ = par.get(id(x))
        if isinstance(x.ctx, (ast.Store, ast.Del)):
            st = enclosing_stmt(x)
            if isinstance(x, ast.Name):
                # (re-)binding of a local alias: only `alias = H` keeps it an alias
                if not (isinstance(st, ast.Assign) and is_heap(st.value) and any(t is x for t in st.targets)):
                    out.append(("escape", x, "the local `%s` names the heap and is bound to something else as well" % x.id))
                continue
            if isinstance(st, ast.Assign):
                out.append(("rebind", st, st.value if any(t is x for t in st.targets) else None))
            elif isinstance(st, ast.AnnAssign):
                if st.value is not None:
                    out.append(("rebind", st, st.value))
            elif isinstance(st, ast.AugAssign):
                if isinstance(st.op, ast.Add):
                    out.append(("keep", st))
                else:
                    out.append(("remove", st, "an augmented assignment"))
            elif isinstance(st, ast.Delete):
                out.append(("remove", st, "del"))
            else:
                out.append(("rebind", st if st is not None else x, None))
            continue
        # a load
        if isinstance(p_, ast.Subscript) and p_.value is x:
            if isinstance(p_.ctx, (ast.Store, ast.Del)):
                out.append(("remove", enclosing_stmt(p_) or p_, "an element / slice store" if isinstance(p_.ctx, ast.Store) else "del of an element / slice"))
            continue
        if isinstance(p_, ast.Attribute) and p_.value is x:
            pp = par.get(id(p_))
            if isinstance(pp, ast.Call) and pp.func is p_:
                if p_.attr in _LIST_REMOVING:
                    out.append(("remove", pp, ".%s()" % p_.attr))
                elif p_.attr in _LIST_KEEPING:
                    out.append(("keep", pp))
                else:
                    out.append(("escape", pp, "the method .%s()" % p_.attr))
            else:
                out.append(("escape", p_, "the bound method .%s" % p_.attr))
            continue
        if isinstance(p_, ast.Call) and p_.func is not x:
            t = call_tail(p_)
            first = bool(p_.args) and p_.args[0] is x
            if t in _HEAPQ_TAKING and first:
                out.append(("pop", p_))
            elif t in _HEAPQ_REPLACING and first:
                out.append(("replace", p_))
            elif t in _HEAPQ_KEEPING and first:
                out.append(("keep", p_))
            elif (t in _PURE_READERS and call_name(p_) in (t, "heapq." + t)) or t in ("log", "msg"):
                pass
            else:
                out.append(("escape", p_, "the call %s(..)" % (call_name(p_) or "?")))
            continue
        if isinstance(p_, (ast.Assign, ast.AnnAssign)) and p_.value is x:
            tg = p_.targets if isinstance(p_, ast.Assign) else [p_.target]
            if not all(isinstance(t, ast.Name) for t in tg):
                out.append(("escape", p_, "a second reference stored in %s" % ", ".join(filter(None, (attr_path(t) for t in tg)))))
            continue
        if isinstance(p_, (ast.Return, ast.Yield, ast.YieldFrom, ast.Await, ast.NamedExpr, ast.Lambda, ast.Dict, ast.Set, ast.keyword)):
            out.append(("escape", p_, "a %s" % type(p_).__name__.lower()))
            continue
        if isinstance(p_, (ast.Tuple, ast.List)):
            q = p_
            while isinstance(q, (ast.Tuple, ast.List)):
                q = par.get(id(q))
            if not (isinstance(q, ast.BinOp) and isinstance(q.op, ast.Mod)) and not isinstance(q, (ast.FormattedValue, ast.JoinedStr)):
                out.append(("escape", p_, "a container holding the list"))
            continue
        # tests, comparisons, iteration, arithmetic (H + [..] builds a new list), formatting, bare expressions: reads
    return out


def _keeps_all(v, is_heap):
    """Does expression v evaluate to a list holding every record of the heap (possibly re-ordered, possibly with more)?"""
    if is_heap(v):
        return True
    if isinstance(v, ast.Call) and call_name(v) in ("list", "sorted") and len(v.args) == 1 \
            and all(k.arg in ("key", "reverse") for k in v.keywords):
        return _keeps_all(v.args[0], is_heap)
    if isinstance(v, ast.Call) and isinstance(v.func, ast.Attribute) and v.func.attr == "copy" and not v.args and not v.keywords:
        return _keeps_all(v.func.value, is_heap)
    if isinstance(v, ast.Subscript) and isinstance(v.slice, ast.Slice) and v.slice.lower is None and v.slice.upper is None \
            and v.slice.step is None:
        return _keeps_all(v.value, is_heap)
    if isinstance(v, ast.BinOp) and isinstance(v.op, ast.Add):
        return _keeps_all(v.left, is_heap) or _keeps_all(v.right, is_heap)
    return False


def _reach_bounds(m):
    """Normal forms B such that, once method m has returned, the download never delivers a byte at or beyond B:
    self.download_size (write() clips every chunk to it), self.current_size (download_size <= current_size is the class
    invariant, restored by set_current_size before it returns - C39.6), and a never re-bound parameter p of m when every
    way through m establishes download_size <= p (stores download_size = p, or passes that comparison)."""
    out = {"self.download_size", "self.current_size"}
    if isinstance(m.node, ast.Lambda):
        return out
    g = m.cfg()
    fnm = FlowNorm(m)
    rebound = {x.id for x in ast.walk(m.node) if isinstance(x, ast.Name) and isinstance(x.ctx, (ast.Store, ast.Del))}
    for p_ in first_positional_params(m):
        if p_ in rebound:
            continue

        def clamps(x, _p=p_):
            return "self.download_size" in node_stores(x) and attr_path(assign_value(x, "self.download_size")) == _p

        def below(t, lab, _p=p_):
            return _le_fact(fnm.edge_fact(t, lab), "self.download_size", _p) is not None
        if not find_path_avoiding(g, lambda x: x.kind == "exit", gate_node=clamps, gate_edge=below, skip_exc_edges=True):
            out.add(p_)
    return out


def _alternatives(nm, e, pol, limit=64):
    """Condition e being true (pol) / false (not pol), as a list of alternatives, each a list of canonical comparisons that
    all hold in that alternative (an empty list: nothing is known)."""
    while isinstance(e, ast.UnaryOp) and isinstance(e.op, ast.Not):
        e, pol = e.operand, not pol
    if isinstance(e, ast.Compare) and len(e.ops) > 1:
        terms = [e.left] + list(e.comparators)
        e = ast.BoolOp(op=ast.And(), values=[ast.Compare(left=terms[i], ops=[e.ops[i]], comparators=[terms[i + 1]]) for i in range(len(e.ops))])
    if isinstance(e, ast.BoolOp):
        subs = [_alternatives(nm, v, pol, limit) for v in e.values]
        conj = isinstance(e.op, ast.And) if pol else isinstance(e.op, ast.Or)    # all parts hold / all parts fail
        if not conj:
            return [a for sub in subs for a in sub][:limit] if sum(len(x) for x in subs) <= limit else [[]]
        alts = [[]]
        for sub in subs:
            alts = [a + b_ for a in alts for b_ in sub]
            if len(alts) > limit:
                return [[]]
        return alts
    try:
        f = nm.cmp(e, pol)
    except Exception:
        f = None
    return [[f]] if f else [[]]


def _unreachable_or_covered(facts, s, en, bounds, covers):
    """Do the comparisons `facts` (all hold) show that the download can no longer touch the record (s, en) - it starts at/after a
    reach bound, or ends at/before the downloaded position - or that a region (a, b) of `covers` contains it?"""
    def le(a, b_):
        return any(_le_fact(f, a, b_) is not None for f in facts) or _same_src(a, b_)
    if any(le(B, s) for B in sorted(bounds)) or le(en, "self.downloaded"):
        return True
    return any(le(a, s) and le(en, b_) for (a, b_) in covers)


def _same_src(a, b_):
    try:
        return norm_src(a) == norm_src(b_)
    except Exception:
        return False


def _covering_pushes(m, stmt, heap=HEAP):
    """Regions (a, b) - normal forms - that method m pushes onto the heap on every way from statement `stmt` to its return,
    with a and b not re-bound in between."""
    if isinstance(m.node, ast.Lambda) or not any(x is stmt for x in func_own_nodes(m)):
        return []
    g = m.cfg()
    R = _cfg_node_of(g, stmt)
    if R is None:
        return []
    nm = N(m)
    out = []
    for P in g.stmt_nodes():
        for c in node_calls(P):
            if not (call_tail(c) == "heappush" and len(c.args) == 2 and attr_path(c.args[0]) == heap
                    and isinstance(c.args[1], ast.Tuple) and len(c.args[1].elts) == 2):
                continue
            a, b_ = c.args[1].elts
            if find_path_from_to_avoiding(g, lambda x, _R=R: x is _R, lambda x, _P=P: x is _P):
                continue
            names = names_in(a) | names_in(b_)
            if find_path_avoiding(g, lambda x, _P=P: x is _P, gate_node=lambda x, _R=R: x is _R, start=R,
                                  kill=lambda x, _k=names, _R=R: x is not _R and bool(_k & node_stores(x)), skip_exc_edges=True):
                continue
            out.append((nm.norm(a), nm.norm(b_)))
    return out


def _rebind_loss(m, stmt, value, is_heap):
    """`H = value` outside the constructor: None when every record of H that the download can still reach is kept (or covered
    by the record that replaces it), else a description of what is lost."""
    if value is None:
        return "is bound by a loop / with / unpacking target"
    if _keeps_all(value, is_heap):
        return None
    comp = value
    if isinstance(comp, ast.Call) and call_name(comp) in ("list", "sorted") and len(comp.args) == 1 \
            and all(k.arg in ("key", "reverse") for k in comp.keywords):
        comp = comp.args[0]
    if not isinstance(comp, (ast.ListComp, ast.GeneratorExp)) or (isinstance(comp, ast.GeneratorExp) and comp is value):
        if isinstance(value, (ast.List, ast.Tuple)) and not value.elts or (isinstance(value, ast.Call) and call_name(value) == "list" and not value.args):
            return "is emptied: every pending overwrite record is forgotten"
        return "is re-bound to `%s`, which is not shown to keep the pending records" % src(m, value)
    if len(comp.generators) != 1 or comp.generators[0].is_async or not _keeps_all(comp.generators[0].iter, is_heap):
        return "is re-bound to `%s`, which is not a filter over the heap's own records" % src(m, value)
    gen = comp.generators[0]
    t = gen.target
    rec = None
    if isinstance(t, (ast.Tuple, ast.List)) and len(t.elts) == 2 and all(isinstance(x, ast.Name) for x in t.elts):
        s, en = t.elts[0].id, t.elts[1].id
    elif isinstance(t, ast.Name):
        rec = t.id
        s, en = "%s[0]" % rec, "%s[1]" % rec
    else:
        return "is re-bound to `%s` (records are not unpacked as (start, end))" % src(m, value)
    bounds = _reach_bounds(m)
    nm = N(m)
    # what each kept record becomes
    elt = comp.elt
    if not (rec is not None and isinstance(elt, ast.Name) and elt.id == rec):
        if not (isinstance(elt, ast.Tuple) and len(elt.elts) == 2):
            return "rewrites each record as `%s`, which is not a (start, end) pair covering the record" % src(m, elt)
        S, E = elt.elts

        def same(x, y):
            try:
                return norm_plain(x) == norm_src(y)
            except Exception:
                return False

        def is_call(x, name):
            return isinstance(x, ast.Call) and call_name(x) == name and not x.keywords and len(x.args) >= 2
        ok_s = same(S, s) or (is_call(S, "min") and any(same(a, s) for a in S.args))
        ok_e = same(E, en) or (is_call(E, "max") and any(same(a, en) for a in E.args)) or \
            (is_call(E, "min") and len(E.args) == 2 and any(same(a, en) for a in E.args)
             and any(norm_plain(a) in bounds for a in E.args if not same(a, en)))
        if not ok_s:
            return "rewrites each record's start as `%s`: bytes of the record before that are no longer protected" % src(m, S)
        if not ok_e:
            return "rewrites each record's end as `%s`: bytes of the record beyond that, which the download can still reach, are no " \
                   "longer protected" % src(m, E)
    covers = _covering_pushes(m, stmt)
    for c in gen.ifs:
        if not all(_unreachable_or_covered(alt, s, en, bounds, covers) for alt in _alternatives(nm, c, False)):
            return ("drops every record for which `%s` is false, although such a record can start below the point the download "
                    "still reaches and is not contained in a region recorded instead (it is dropped whole, also when it straddles "
                    "that point)" % src(m, c))
    return None


def _store_targets(st):
    """Flattened store / delete targets of a statement-like AST node."""
    tg = []
    if isinstance(st, ast.Assign):
        tg = list(st.targets)
    elif isinstance(st, (ast.AugAssign, ast.AnnAssign)):
        tg = [st.target]
    elif isinstance(st, ast.Delete):
        tg = list(st.targets)
    elif isinstance(st, (ast.For, ast.AsyncFor, ast.comprehension)):
        tg = [st.target]
    elif isinstance(st, (ast.With, ast.AsyncWith)):
        tg = [i.optional_vars for i in st.items if i.optional_vars is not None]
    elif isinstance(st, ast.NamedExpr):
        tg = [st.target]
    flat = []
    while tg:
        t = tg.pop()
        if isinstance(t, (ast.Tuple, ast.List)):
            tg.extend(t.elts)
        elif isinstance(t, ast.Starred):
            tg.append(t.value)
        else:
            flat.append(t)
    return flat


def run(ctx: Context):
    idx = ctx.idx
    W = idx.func(CLS + ".write")
    cfg = W.cfg()
    DATA = first_positional_params(W)[0]
    # the local holding the position after this chunk: <nd> = self.downloaded + len(data)
    want_nd = norm_src("self.downloaded + len(%s)" % DATA)
    nds = [t.id for n in cfg.stmt_nodes() if isinstance(n.ast, ast.Assign) and len(n.ast.targets) == 1
           for t in n.ast.targets if isinstance(t, ast.Name) and norm_plain(n.ast.value) == want_nd]
    if len(set(nds)) != 1:
        raise AnchorVanished("write(): the local holding self.downloaded + len(data) (position after this chunk) was not found")
    ND = nds[0]
    fnorm = FlowNorm(W, keep={DATA, ND} | {x for n in cfg.stmt_nodes() for x in node_stores(n)
                                           if isinstance(n.ast, ast.Assign) and isinstance(n.ast.targets[0], ast.Tuple)})

    def is_nd(s):
        return s in (ND, want_nd)
    OC = idx.cls(CLS)
    tops = _heap_top_unpack(W, cfg)
    # the nodes at which write() compares the start of the first pending record with the end of the chunk: the unpack
    # `(start, end) = self.overwrites[0]` whose start is then tested, or a test that reads self.overwrites[0][0] itself
    direct_exams = _direct_exams(cfg, fnorm, (ND, want_nd))
    if tops:
        # outer unpack = the one whose names are re-used by the merge loop; merge unpack binds other names
        outer = tops[0]
        start_v, end_v = outer[1], outer[2]
        exam_nodes = [outer[0]]
    else:
        # write() names the region only when it takes it off the heap: `(start, end) = self.<helper>()`, the helper pops the
        # first record (and what it merges with it) and hands the region back - followed through the call graph
        binds = []
        for n in cfg.stmt_nodes():
            a = n.ast
            if isinstance(a, ast.Assign) and len(a.targets) == 1 and isinstance(a.targets[0], ast.Tuple) and len(a.targets[0].elts) == 2 \
                    and all(isinstance(t, ast.Name) for t in a.targets[0].elts):
                v = fnorm.resolve(n, a.value) if isinstance(a.value, ast.Name) else a.value
                hm = _self_method_call(v, OC)
                if hm is not None and not isinstance(hm.node, ast.Lambda) and \
                        any(_mutates_heap(x) or _heap_top_reads(x, HEAP) for x in hm.cfg().nodes if x.kind not in ("entry", "exit", "raise")):
                    binds.append((n, a.targets[0].elts[0].id, a.targets[0].elts[1].id))
        if not binds or not direct_exams:
            raise AnchorVanished("write(): the unpack of self.overwrites[0] (the region the downloaded chunk is compared with) was not found, "
                                 "nor a test of self.overwrites[0][0] against the end of the chunk followed by `(start, end) = self.<helper>()`")
        if len({(b[1], b[2]) for b in binds}) != 1 or binds[0][1] == binds[0][2]:
            raise AnalysisError("write(): the region taken off %s is bound to different locals (%s); cannot be decided"
                                % (HEAP, sorted({(b[1], b[2]) for b in binds})))
        outer = (None, binds[0][1], binds[0][2])
        start_v, end_v = outer[1], outer[2]
        exam_nodes = list(direct_exams)
    TOP_S = norm_src("%s[0][0]" % HEAP)
    START_FORMS = (start_v, TOP_S) if tops else (TOP_S,)
    merges = [t for t in tops[1:] if t[2] != end_v]
    # the merge of consecutive records may be done by a helper method whose result becomes the region's end
    delegated = {}
    for n in cfg.stmt_nodes():
        if n is not outer[0] and end_v in node_stores(n):
            dm = _delegated_merge(fnorm, n, end_v, OC)
            if dm is not None:
                delegated[n.id] = (n,) + dm
    if not merges and not delegated:
        raise AnchorVanished("write(): the merge of consecutive overwrite records (neither a merging unpack of self.overwrites[0] "
                             "nor a helper method whose result becomes the region's end) was not found")
    merge_helpers = []

    # -- (a) monotone merge -------------------------------------------------
    with ctx.rule("C39.1", "R1", "write(): every re-assignment of the merged region's end is max(end, x) or guarded by x > end",
                  expected=1) as r:
        for n in cfg.stmt_nodes():
            if n is outer[0] or end_v not in node_stores(n):
                continue
            if n.id in delegated:
                r.site(W, n.ast, "end := result of %s() (decided by C39.10)" % delegated[n.id][2].name)
                continue
            v = assign_value(n, end_v)
            r.site(W, n.ast, "end := %s" % (src(W, v) if v is not None else "?"))
            if v is None:
                r.violation(W, W.loc(n.ast), "the merged region's end `%s` is re-bound by a non-assignment" % end_v)
                continue
            ok = False
            if isinstance(v, ast.Call) and call_tail(v) == "max" and any(attr_path(a) == end_v for a in v.args):
                ok = True
            if not ok:
                vn = fnorm.norm(n, v)

                def grows(t, lab, _vn=vn):
                    f = fnorm.edge_fact(t, lab)
                    return bool(f) and f[0] == "<" and f[1] == end_v and f[2] == _vn
                kill_names = {end_v} | names_in(v)
                bad = find_path_avoiding(cfg, lambda x, _n=n: x is _n, gate_edge=grows,
                                         kill=lambda x, _k=kill_names: bool(_k & node_stores(x)))
                r.count(len(cfg.nodes))
                ok = not bad
                if bad:
                    r.violation(W, W.loc(n.ast), "merged overwrite region can shrink: `%s = %s` is neither max(%s, .) nor "
                                "guarded by %s > %s; a nested later overwrite then lets the download clobber the tail of "
                                "an earlier one (path: %s)" % (end_v, src(W, v), end_v, src(W, v), end_v, bad[0][1].brief()),
                                bad[0][1])
        # the merge loop stops only when the next region starts after the merged end
        for (mn, s1, e1) in merges:
            brk = [b for b in cfg.stmt_nodes() if isinstance(b.ast, ast.Break)]
            okb = False
            def after_end(t, lab, _s1=s1):
                f = fnorm.edge_fact(t, lab)
                return bool(f) and f[0] == "<" and f[1] == end_v and f[2] == _s1
            for b in brk:
                # the break is reached from the merge unpack only over the edge `start1 > end`
                if not find_path_avoiding(cfg, lambda x, _b=b: x is _b, gate_edge=after_end, start=mn,
                                          kill=lambda x, _k={end_v, s1}: x is not mn and bool(_k & node_stores(x))) \
                        and any(after_end(t, lab) for t in cfg.nodes for (_d, lab) in cfg.successors(t)):
                    okb = True
            r.require(okb, W, W.loc(mn.ast), "merge loop does not stop exactly when the next region starts after the merged end")

    # -- (a') the same merge, done by a helper method -----------------------------
    with ctx.rule("C39.10", "R1", "write(): wherever the merge of consecutive overwrite records is done (in write() itself or in a helper "
                  "method self.<m>() whose result becomes the region's end), the merged end starts as the end of the first record, "
                  "never shrinks, and a record is merged only when it starts at/before the merged end", expected=1) as r:
        for n in cfg.stmt_nodes():
            if n is outer[0] or end_v not in node_stores(n):
                continue
            if n.id not in delegated:
                r.site(W, n.ast, "merged in write() (decided by C39.1)")
                continue
            (_n, call, H, comp) = delegated[n.id]
            r.site(W, n.ast, "merged by %s()" % H.name)
            merge_helpers += [h for h in _check_merge_helper(r, W, n, call, H, comp, end_v, exam_nodes, OC) if h not in merge_helpers]

    # -- (a'') the start of a region that a helper hands back -----------------------
    with ctx.rule("C39.14", "R1", "write(): when a helper method hands back the start of the region as well (`(start, end) = self.<m>()`), "
                  "that start is the start of the first record of the heap - the one write() compared with the chunk -, bound once and "
                  "never re-bound while further records are merged", expected=1) as r:
        n14 = 0
        rdw = C.reaching_defs(cfg)

        def start_used(dn):
            for x in cfg.nodes:
                if x.kind in ("entry", "exit", "raise") or dn.id not in rdw.get(x.id, {}).get(start_v, frozenset()):
                    continue
                if any(isinstance(y, ast.Name) and y.id == start_v and isinstance(y.ctx, ast.Load) for e in node_exprs(x) for y in own_nodes(e)):
                    return True
            return False
        for (_n, call, H, comp) in [delegated[k] for k in sorted(delegated)]:
            b0 = _binding(_n, start_v)
            if b0 is None or not start_used(_n):
                continue
            n14 += 1
            if b0[0] != "elt" or b0[2] == comp:
                raise AnalysisError("write(): `%s` - how the region's start is bound cannot be decided" % src(W, _n.ast))
            _check_helper_start(r, W, _n, call, H, b0[2], start_v, exam_nodes)
        if not n14:
            r.site(W, outer[0].ast if outer[0] is not None else None, "start read in write() from the first record (decided by C39.2 / C39.12)")

    # -- (b) downloaded data placement --------------------------------------
    with ctx.rule("C39.2", "R1", "write(): downloaded bytes go to offset self.downloaded, after consulting the overwrite "
                  "heap; prefix/suffix slicing is paired with the downloaded counter; chunks are dropped/clipped only as the size allows", expected=6) as r:
        fw = [n for n in cfg.stmt_nodes() if any(call_name(c) == "self.f.write" for c in node_calls(n))]
        if len(fw) < 2:
            raise AnchorVanished("write(): expected the prefix write and the final write to self.f")
        def seek_dl(x):
            return any(len(c.args) == 1 and attr_path(c.args[0]) == "self.downloaded" for c in _f_call(x, "seek"))

        def moves(x):       # anything that moves the file position or the downloaded counter
            return bool(_f_call(x)) or bool(calls_at(x, "_update_downloaded")) or "self.downloaded" in node_stores(x)
        for n in fw:
            r.site(W, n.ast, "f.write")
            for (t, w) in find_path_avoiding(cfg, lambda x, _n=n: x is _n, gate_node=seek_dl, kill=moves):
                r.violation(W, W.loc(n.ast), "temp-file write is not preceded by seek(self.downloaded) (file position / counter "
                            "changed in between, or no seek at all)", w)
            c = [c for c in node_calls(n) if call_name(c) == "self.f.write"][0]
            a0 = c.args[0]
            if isinstance(a0, ast.Subscript):
                # prefix write: data[:start - self.downloaded] under start > self.downloaded
                sl = a0.slice
                okp = isinstance(sl, ast.Slice) and sl.lower is None and sl.upper is not None and \
                    norm_plain(sl.upper) == norm_src("%s - self.downloaded" % start_v) and attr_path(a0.value) == DATA
                r.require(okp, W, W.loc(n.ast), "partial write before an overwritten region is %s, expected data[:%s - self.downloaded]"
                          % (src(W, a0), start_v))

                def before(t, lab):
                    f = fnorm.edge_fact(t, lab)
                    return bool(f) and f[0] == "<" and f[1] == "self.downloaded" and f[2] == start_v
                for (t, w) in find_path_avoiding(cfg, lambda x, _n=n: x is _n, gate_edge=before):
                    r.violation(W, W.loc(n.ast), "prefix write not guarded by %s > self.downloaded" % start_v, w)
            else:
                r.require(attr_path(a0) == DATA, W, W.loc(n.ast), "final write writes %s, not the remaining data" % src(W, a0))

                def consulted(t, lab):
                    f = fnorm.edge_fact(t, lab)
                    if not f:
                        return False
                    if f[0] == "<=" and f[1] == "len(self.overwrites)" and f[2] == "0":
                        return True
                    if f[0] == "false" and f[1] in ("self.overwrites", "len(self.overwrites)"):
                        return True
                    return f[0] == "<=" and f[2] in START_FORMS and is_nd(f[1])
                for (t, w) in find_path_avoiding(cfg, lambda x, _n=n: x is _n, gate_edge=consulted):
                    r.violation(W, W.loc(n.ast), "downloaded data written without consulting the overwrite heap on this call "
                                "(path: %s)" % w.brief(), w)
                # after the final write the counter advances to next_downloaded
                ups = find_path_from_to_avoiding(cfg, lambda x, _n=n: x is _n, has_call("_update_downloaded"))
                for (s, w) in ups:
                    r.violation(W, W.loc(n.ast), "final write is not followed by _update_downloaded", w)
        # skip pairing: data = data[(end - self.downloaded):] ; _update_downloaded(end)
        skips = [n for n in cfg.stmt_nodes() if isinstance(n.ast, ast.Assign) and attr_path(n.ast.targets[0]) == DATA
                 and isinstance(n.ast.value, ast.Subscript) and isinstance(n.ast.value.slice, ast.Slice)
                 and n.ast.value.slice.upper is None and n.ast.value.slice.lower is not None]
        if not skips:
            raise AnchorVanished("write(): the suffix slice that skips an overwritten region was not found")
        for n in skips:
            r.site(W, n.ast, "skip")
            lo = norm_plain(n.ast.value.slice.lower)
            r.require(lo == norm_src("%s - self.downloaded" % end_v), W, W.loc(n.ast),
                      "skip over an overwritten region slices data[%s:], expected data[%s - self.downloaded:]" % (lo, end_v))
            def adv_end(x):
                return any(len(c.args) == 1 and attr_path(c.args[0]) == end_v for c in calls_at(x, "_update_downloaded"))

            def leaves_region(x):     # the position is used / the operands change / the call ends
                return x.kind == "exit" or bool(_f_call(x)) or bool(calls_at(x, "_update_downloaded")) \
                    or is_return(x) or bool({end_v, DATA, "self.downloaded"} & node_stores(x))
            for (st, w) in find_path_from_to_avoiding(cfg, lambda x, _n=n: x is _n, adv_end, ends=leaves_region):
                r.violation(W, W.loc(n.ast), "after skipping to %s the downloaded counter is not advanced to that same %s" % (end_v, end_v), w)

            def within(t, lab):
                f = fnorm.edge_fact(t, lab)
                return bool(f) and f[0] == "<=" and f[1] == "self.downloaded" and f[2] == end_v
            for (t, w) in find_path_avoiding(cfg, lambda x, _n=n: x is _n, gate_edge=within):
                r.violation(W, W.loc(n.ast), "suffix slice taken without %s >= self.downloaded (negative slice start)" % end_v, w)
        # region past the chunk: re-queue (next_downloaded, end), advance, return without writing
        pushes = [n for n in cfg.stmt_nodes() if calls_at(n, "heappush")]
        if not pushes:
            raise AnchorVanished("write(): re-queue of the remaining overwrite region not found")
        for n in pushes:
            r.site(W, n.ast, "re-queue")
            c = calls_at(n, "heappush")[0]
            okq = len(c.args) == 2 and attr_path(c.args[0]) == "self.overwrites" and isinstance(c.args[1], ast.Tuple) \
                and len(c.args[1].elts) == 2 and attr_path(c.args[1].elts[1]) == end_v \
                and is_nd(fnorm.norm(n, c.args[1].elts[0]))
            r.require(okq, W, W.loc(n.ast), "remaining overwrite region re-queued as %s, expected (%s, %s)" % (
                src(W, c.args[1]) if len(c.args) > 1 else "?", ND, end_v))

            def past(t, lab):
                f = fnorm.edge_fact(t, lab)
                return bool(f) and f[0] == "<=" and f[2] == end_v and is_nd(f[1])
            for (t, w) in find_path_avoiding(cfg, lambda x, _n=n: x is _n, gate_edge=past):
                r.violation(W, W.loc(n.ast), "re-queue not guarded by %s >= next_downloaded" % end_v, w)
            # no f.write after the re-queue on this call
            visited, parent = explore(cfg, 0, lambda a, lab, b, s: None if lab == "exc" else 0, start=n)
            for (nid, s) in visited:
                if cfg.nodes[nid] in fw:
                    r.violation(W, W.loc(n.ast), "downloaded data is written after an overwrite region covering the rest of "
                                "the chunk was found", witness(cfg, parent, (nid, s)))
        # the re-queue path advances the downloaded counter to next_downloaded before returning
        for n in pushes:
            for (st, w) in find_path_from_to_avoiding(cfg, lambda x, _n=n: x is _n, lambda x: any(
                    call_tail(c) == "_update_downloaded" and len(c.args) == 1 and is_nd(fnorm.norm(x, c.args[0]))
                    for c in node_calls(x))):
                r.violation(W, W.loc(n.ast), "after re-queueing the rest of an overwrite region the downloaded counter is not "
                            "advanced to next_downloaded: the same chunk position is processed again on the next call", w)
        # downloaded data is dropped only when the consumer is closed or the (possibly truncated) download size is
        # reached; every other early return loses original file content
        early = [n for n in cfg.find(is_return)]
        if not early:
            raise AnchorVanished("write(): no early return (closed consumer / download size reached) found")
        for n in early:
            r.site(W, n.ast, "return")

            def excused(t, lab):
                f = fnorm.edge_fact(t, lab)
                if not f:
                    return False
                return (f[0] == "truth" and f[1] == "self.is_closed") or \
                       (f[0] == "<=" and f[1] == "self.download_size" and f[2] == "self.downloaded")
            for (t, w) in find_path_avoiding(cfg, lambda x, _n=n: x is _n, gate_node=has_call("_update_downloaded"), gate_edge=excused):
                r.violation(W, W.loc(n.ast), "write() drops a downloaded chunk although the consumer is open and the download "
                            "size has not been reached (path: %s)" % w.brief(), w)
        # a chunk reaching past download_size (file truncated meanwhile) is clipped before anything is written
        clip = [n for n in cfg.stmt_nodes() if isinstance(n.ast, ast.Assign) and attr_path(n.ast.targets[0]) == DATA
                and isinstance(n.ast.value, ast.Subscript) and isinstance(n.ast.value.slice, ast.Slice)
                and n.ast.value.slice.lower is None and n.ast.value.slice.upper is not None]
        okc = [n for n in clip if norm_plain(n.ast.value.slice.upper) == norm_src("self.download_size - self.downloaded")]
        r.require(bool(okc), W, W.loc(), "a chunk that reaches past download_size is no longer clipped to download_size - downloaded: "
                  "downloaded bytes would be written beyond a truncation")
        for cn in okc:
            r.site(W, cn.ast, "clip")

            def fits(t, lab):
                f = fnorm.edge_fact(t, lab)
                return bool(f) and f[0] == "<=" and f[2] == "self.download_size" and is_nd(f[1])
            for wn in fw:
                for (t, w) in find_path_avoiding(cfg, lambda x, _n=wn: x is _n, gate_node=lambda x, _c=cn: x is _c, gate_edge=fits):
                    r.violation(W, W.loc(wn.ast), "downloaded data can be written without clipping the chunk to download_size", w)
        # the heap entry is popped before the merge loop (no region is consulted twice)
        pops = [n for n in cfg.stmt_nodes() if calls_at(n, "heappop")]
        pops += [n for h in merge_helpers for n in h.cfg().stmt_nodes() if calls_at(n, "heappop")]
        r.require(len(pops) >= 2, W, W.loc(), "heap entries are no longer popped when consumed")

    # -- (c) overwrite() ------------------------------------------------------
    with ctx.rule("C39.3", "R1/R2", "overwrite(): zero-fill precedes the data write, (start,end) recorded whenever end > downloaded, "
                  "current_size grows monotonically", expected=3) as r:
        O = idx.func(CLS + ".overwrite")
        g = O.cfg()
        on = FlowNorm(O)
        ps = first_positional_params(O)
        off, dat = ps[0], ps[1]
        dw = [n for n in g.stmt_nodes() if any(call_name(c) == "self.f.write" and c.args and attr_path(c.args[0]) == dat
                                               for c in node_calls(n))]
        if len(dw) != 1:
            raise AnchorVanished("overwrite(): the data write to the temp file was not found")
        dwn = dw[0]
        r.site(O, dwn.ast, "data write")
        # zero fill under offset > current_size
        zf = [n for n in g.stmt_nodes() if any(call_name(c) == "self.f.write" and c.args and isinstance(c.args[0], ast.BinOp)
                                               for c in node_calls(n))]
        okz = False
        for n in zf:
            c = [c for c in node_calls(n) if call_name(c) == "self.f.write"][0]
            b = c.args[0]
            if isinstance(b.op, ast.Mult):
                parts = [b.left, b.right]
                zero = [p for p in parts if isinstance(p, ast.Constant) and p.value == b"\x00"]
                cnt = [p for p in parts if not (isinstance(p, ast.Constant) and p.value == b"\x00")]
                if zero and cnt and on.norm(n, cnt[0]) == norm_src("%s - self.current_size" % off):
                    def seek_eof(x):
                        return any(len(cc.args) == 1 and attr_path(cc.args[0]) == "self.current_size" for cc in _f_call(x, "seek"))
                    if not find_path_avoiding(g, lambda x, _n=n: x is _n, gate_node=seek_eof,
                                              kill=lambda x: bool(_f_call(x)) or "self.current_size" in node_stores(x)):
                        okz = True
                        r.site(O, n.ast, "zero fill")
                        # every path to the data write with offset > current_size passes the zero fill
                        def beyond_false(t, lab):
                            f = on.edge_fact(t, lab)
                            return bool(f) and f[0] == "<=" and f[1] == off and f[2] == "self.current_size"
                        for (t, w) in find_path_avoiding(g, lambda x: x is dwn, gate_node=lambda x, _n=n: x is _n, gate_edge=beyond_false):
                            r.violation(O, O.loc(dwn.ast), "data can be written beyond EOF without zero-filling the gap", w)
        r.require(okz, O, O.loc(), "gap between current EOF and the write offset is not zero-filled at seek(current_size)")
        # the seek before the data write: offset on the in-range branch
        okseek = any(call_name(c) == "self.f.seek" and attr_path(c.args[0]) == off for n in g.stmt_nodes() for c in node_calls(n))
        r.require(okseek, O, O.loc(), "in-range overwrite does not seek to the write offset")
        # recording
        pushes = [n for n in g.stmt_nodes() if calls_at(n, "heappush")]
        if not pushes:
            raise AnchorVanished("overwrite(): region is never recorded in the overwrite heap")
        for n in pushes:
            r.site(O, n.ast, "record")
            c = calls_at(n, "heappush")[0]
            tup = c.args[1] if len(c.args) == 2 else None
            okt = attr_path(c.args[0]) == "self.overwrites" and isinstance(tup, ast.Tuple) and len(tup.elts) == 2
            r.require(okt, O, O.loc(n.ast), "recorded region is not a (start, end) pair on self.overwrites")
            if okt:
                e = on.norm(n, tup.elts[1])
                r.require(e == norm_src("%s + len(%s)" % (off, dat)), O, O.loc(n.ast), "recorded end is %s, expected offset+len(data)" % e)
                # start: offset, or current_size on the zero-fill branch (both reach here) -> it must be the variable
                sname = attr_path(tup.elts[0])
                sdefs = [assign_value(m, sname) for m in g.stmt_nodes() if sname and sname in node_stores(m)]
                sn = sorted(norm_plain(x) for x in sdefs if x is not None)
                r.require(sn == sorted([off, "self.current_size"]), O, O.loc(n.ast),
                          "recorded start has definitions %s, expected {offset, current_size(zero-fill start)}" % sn)
        # push happens on every path where end > downloaded
        endexpr = norm_src("%s + len(%s)" % (off, dat))

        def not_needed(t, lab):
            f = on.edge_fact(t, lab)
            return bool(f) and f[0] == "<=" and f[1] == endexpr and f[2] == "self.downloaded"
        for (t, w) in find_path_avoiding(g, lambda x: x.kind == "exit", gate_node=has_call("heappush"), gate_edge=not_needed):
            r.violation(O, O.loc(), "overwrite can return without recording a region that the download has not passed yet "
                        "(path: %s)" % w.brief(), w)
        # push after the data write; current_size monotone
        for (t, w) in find_path_avoiding(g, has_call("heappush"), gate_node=lambda x: x is dwn):
            r.violation(O, O.loc(t.ast), "region recorded before the data is in the temp file", w)
        cs = [n for n in g.stmt_nodes() if "self.current_size" in node_stores(n)]
        for n in cs:
            v = assign_value(n, "self.current_size")
            okm = isinstance(v, ast.Call) and call_tail(v) == "max" and any(attr_path(a) == "self.current_size" for a in v.args) \
                and any(on.norm(n, a) == endexpr for a in v.args)
            r.require(okm, O, O.loc(n.ast), "current_size := %s is not max(current_size, end)" % src(O, v))
        r.require(bool(cs), O, O.loc(), "overwrite no longer updates current_size")

    # -- (d) read() ----------------------------------------------------------
    with ctx.rule("C39.4", "E7/R1", "read(): the temp file is read only in a callback of when_reached_or_failed(min(offset+length, "
                  "download_size)); when_reached_or_failed answers at once only if index <= downloaded or done", expected=2) as r:
        R = idx.func(CLS + ".read")
        ps = first_positional_params(R)
        rn = FlowNorm(R)
        # no f.read / f.seek in read() itself
        for c in calls_in_func(R):
            if call_name(c) in ("self.f.read", "self.f.seek"):
                r.violation(R, R.loc(c), "read() touches the temp file before the download reached the requested range")
        readers = [f for f in R.nested.values() if any(call_name(c) == "self.f.read" for c in calls_in_func(f))]
        if len(readers) != 1:
            raise AnchorVanished("read(): the callback that reads the temp file was not found")
        cb = readers[0]
        r.site(R, cb.node, "reader callback")
        regs = [x for x in registrations(R) if isinstance(x.target, ast.Name) and x.target.id == cb.name]
        r.require(len(regs) == 1 and regs[0].kind == "cb", R, R.loc(), "reader callback is not registered with addCallback exactly once")
        if regs:
            dv = regs[0].recv
            g = R.cfg()
            dn = [n for n in g.stmt_nodes() if dv in node_stores(n)]
            okd = False
            for n in dn:
                v = assign_value(n, dv)
                if isinstance(v, ast.Call) and call_tail(v) == "when_reached_or_failed" and len(v.args) == 1:
                    need = rn.norm(n, v.args[0])
                    want = "min(%s, self.download_size)" % norm_src("%s + %s" % (ps[0], ps[1]))
                    want2 = "min(self.download_size, %s)" % norm_src("%s + %s" % (ps[0], ps[1]))
                    okd = need in (want, want2)
                    r.require(okd, R, R.loc(n.ast), "read waits for %s, expected min(offset+length, download_size)" % need)
            r.require(okd, R, R.loc(), "the Deferred carrying the reader callback does not come from when_reached_or_failed")
        # the callback reads `length` at `offset`
        sk = [c for c in calls_in_func(cb) if call_name(c) == "self.f.seek"]
        rd = [c for c in calls_in_func(cb) if call_name(c) == "self.f.read"]
        r.require(len(sk) == 1 and attr_path(sk[0].args[0]) == ps[0] and len(rd) == 1 and attr_path(rd[0].args[0]) == ps[1],
                  cb, cb.loc(), "reader callback does not seek(offset) / read(length)")
        # EOF clipping: length := current_size - offset under offset+length > current_size
        rg = R.cfg()
        clip = [n for n in rg.stmt_nodes() if ps[1] in node_stores(n)]
        reqend = "%s + %s" % (ps[0], ps[1])
        for n in clip:
            v = assign_value(n, ps[1])
            r.require(v is not None and norm_plain(v) == norm_src("self.current_size - %s" % ps[0]), R, R.loc(n.ast),
                      "length is clipped to %s, expected current_size - offset" % (src(R, v) if v is not None else "?"))

            # the clip only ever shortens the request: it happens under offset + length > (or >=) current_size;
            # anywhere else it LENGTHENS an in-range read (more bytes returned than asked for)
            def past_eof(t, lab):
                return _le_fact(rn.edge_fact(t, lab), "self.current_size", reqend) is not None
            for (t, w) in find_path_avoiding(rg, lambda x, _n=n: x is _n, gate_edge=past_eof,
                                             kill=lambda x, _n=n: x is not _n and bool({ps[0], ps[1], "self.current_size"} & node_stores(x))):
                r.violation(R, R.loc(n.ast), "read(): %s is re-computed as current_size - %s although the request does not reach past "
                            "the end of the file: an in-range read returns more bytes than requested" % (ps[1], ps[0]), w)
        # the reader callback insists on current_size >= offset + length: a request reaching past EOF must have been clipped
        cn = N(cb)
        insists = False
        for x in func_own_nodes(cb):
            t = None
            if isinstance(x, ast.Assert):
                t = x.test
            elif isinstance(x, ast.Call) and call_tail(x) in ("_assert", "precondition") and x.args:
                t = x.args[0]
            if t is not None and _le_fact(cn.cmp(t, True), reqend, "self.current_size") is not None:
                insists = True
        if insists:
            r.require(bool(clip), R, R.loc(), "read(): a request reaching past the end of the file is no longer clipped to current_size - %s, "
                      "but the reader callback asserts current_size >= %s: such a read fails instead of returning the bytes up to EOF"
                      % (ps[0], reqend))
        # read() answers without waiting for the download (any return that does not hand out the Deferred of
        # when_reached_or_failed) only at/after the end of the file
        for n in rg.find(is_return):
            v = n.ast.value
            if v is not None and regs and regs[0].recv in depends_on(R, v):
                continue
            if v is None or (isinstance(v, ast.Constant) and v.value is None):
                continue        # returns no Deferred at all: the caller crashes at once, nothing is read

            def at_eof(t, lab):
                return _le_fact(rn.edge_fact(t, lab), "self.current_size", ps[0]) is not None
            for (t, w) in find_path_avoiding(rg, lambda x, _n=n: x is _n, gate_edge=at_eof):
                r.violation(R, R.loc(n.ast), "read() answers %s without waiting for the download although %s < current_size is possible: "
                            "an in-range read does not return the file's bytes" % (src(R, v), ps[0]), w)
        Wf = idx.func(CLS + ".when_reached_or_failed")
        r.site(Wf, None)
        wg = Wf.cfg()
        wn = FlowNorm(Wf)
        ip = first_positional_params(Wf)[0]
        for n in wg.find(is_return):
            v = n.ast.value
            if isinstance(v, ast.Call) and call_tail(v) in ("succeed", "execute"):
                def reached(t, lab):
                    f = wn.edge_fact(t, lab)
                    if not f:
                        return False
                    return (f[0] == "<=" and f[1] == ip and f[2] == "self.downloaded") or \
                           (f[0] == "is not" and {f[1], f[2]} == {"None", "self.done_status"})
                for (t, w) in find_path_avoiding(wg, lambda x, _n=n: x is _n, gate_edge=reached):
                    r.violation(Wf, Wf.loc(n.ast), "a waiter is released although the download has neither reached its index nor finished", w)
        pushes = [n for n in wg.stmt_nodes() if calls_at(n, "heappush")]
        r.require(bool(pushes) and all(attr_path(calls_at(n, "heappush")[0].args[0]) == "self.milestones" and
                                       isinstance(calls_at(n, "heappush")[0].args[1], ast.Tuple) and
                                       attr_path(calls_at(n, "heappush")[0].args[1].elts[0]) == ip for n in pushes),
                  Wf, Wf.loc(), "pending waiter is not queued as (index, d) on self.milestones")

    # -- (d2) milestones fire only when reached --------------------------------
    with ctx.rule("C39.5", "R1", "_update_downloaded(): a milestone is released only when its index <= max(new_downloaded, end of the "
                  "overwrite region containing it); download_done only when that milestone >= download_size", expected=2) as r:
        U = idx.func(CLS + "._update_downloaded")
        g = U.cfg()
        p0 = first_positional_params(U)[0]
        # the local that starts as new_downloaded and may be extended to the end of the first overwrite region
        mss = {t.id for n in g.stmt_nodes() if isinstance(n.ast, ast.Assign) and len(n.ast.targets) == 1
               for t in n.ast.targets if isinstance(t, ast.Name) and attr_path(n.ast.value) == p0}
        if len(mss) != 1:
            raise AnchorVanished("_update_downloaded(): the milestone local (initialised from %s) was not found" % p0)
        MS = mss.pop()
        un = FlowNorm(U, keep={MS} | {x for n in g.stmt_nodes() for x in node_stores(n)
                                      if isinstance(n.ast, ast.Assign) and isinstance(n.ast.targets[0], ast.Tuple)})
        fires = [n for n in g.stmt_nodes() if calls_at(n, "eventually_callback")]
        if not fires:
            raise AnchorVanished("_update_downloaded(): milestone release not found")
        mt = _heap_top_unpack(U, g, "self.milestones")
        if not mt:
            raise AnchorVanished("_update_downloaded(): unpack of self.milestones[0] not found")
        nxt = mt[0][1]
        for n in fires:
            r.site(U, n.ast, "release")

            def due(t, lab):
                f = un.edge_fact(t, lab)
                return bool(f) and f[0] == "<=" and f[1] == nxt and f[2] == MS
            for (t, w) in find_path_avoiding(g, lambda x, _n=n: x is _n, gate_edge=due, kill=stores(MS)):
                r.violation(U, U.loc(n.ast), "milestone released without %s <= milestone" % nxt, w)
        # milestone's definitions: new_downloaded, or end of heap-top region under start <= new_downloaded and end > milestone
        ms = [n for n in g.stmt_nodes() if MS in node_stores(n)]
        ot = _heap_top_unpack(U, g)
        for n in ms:
            v = assign_value(n, MS)
            vn = norm_plain(v) if v is not None else None
            if vn == p0:
                continue
            oke = bool(ot) and vn == ot[0][2]
            if bool(ot) and not oke and isinstance(v, ast.Call) and call_name(v) == "max" and not v.keywords and v.args \
                    and not any(isinstance(a_, ast.Starred) for a_ in v.args):
                # max(milestone, end): the milestone local itself / new_downloaded / the end of the first region
                forms = [norm_plain(a_) for a_ in v.args]
                oke = ot[0][2] in forms and all(x in (MS, p0, ot[0][2]) for x in forms)
            r.require(oke, U, U.loc(n.ast), "milestone := %s is neither new_downloaded nor the end of the first overwrite region" % vn)
            if oke:
                def covers(t, lab, _s=ot[0][1]):
                    f = un.edge_fact(t, lab)
                    return bool(f) and f[0] == "<=" and f[1] == _s and f[2] == p0
                for (t, w) in find_path_avoiding(g, lambda x, _n=n: x is _n, gate_edge=covers):
                    r.violation(U, U.loc(n.ast), "milestone extended to the end of an overwrite region that does not start at/before "
                                "the downloaded position", w)
        dd = [n for n in g.stmt_nodes() if calls_at(n, "download_done")]
        for n in dd:
            r.site(U, n.ast, "download_done")

            def complete(t, lab):
                f = un.edge_fact(t, lab)
                return bool(f) and f[0] == "<=" and f[1] == "self.download_size" and f[2] == MS
            for (t, w) in find_path_avoiding(g, lambda x, _n=n: x is _n, gate_edge=complete, kill=stores(MS)):
                r.violation(U, U.loc(n.ast), "download declared done before the milestone reached download_size", w)
        # self.downloaded := new_downloaded first
        st = [n for n in g.stmt_nodes() if "self.downloaded" in node_stores(n)]
        r.require(len(st) == 1 and attr_path(assign_value(st[0], "self.downloaded")) == p0, U, U.loc(),
                  "_update_downloaded does not set self.downloaded to its argument")

    # -- (e) set_current_size ----------------------------------------------------
    with ctx.rule("C39.6", "R1", "set_current_size(): truncate under size < current_size or size < downloaded; zero-extend through "
                  "overwrite() before publishing the new size; download_size clamped", expected=3) as r:
        S = idx.func(CLS + ".set_current_size")
        g = S.cfg()
        sn = FlowNorm(S)
        p0 = first_positional_params(S)[0]
        pub = [n for n in g.stmt_nodes() if "self.current_size" in node_stores(n)]
        if len(pub) != 1 or attr_path(assign_value(pub[0], "self.current_size")) != p0:
            raise AnchorVanished("set_current_size(): publication of the new size not found")
        pubn = pub[0]
        tr = [n for n in g.stmt_nodes() if any(call_name(c) == "self.f.truncate" for c in node_calls(n))]
        r.require(bool(tr), S, S.loc(), "shrinking no longer truncates the temp file")
        for n in tr:
            r.site(S, n.ast, "truncate")
            c = [c for c in node_calls(n) if call_name(c) == "self.f.truncate"][0]
            r.require(attr_path(c.args[0]) == p0, S, S.loc(n.ast), "temp file truncated to %s" % src(S, c.args[0]))
        # shrink below current_size must truncate before publishing
        def not_smaller(t, lab):
            f = sn.edge_fact(t, lab)
            return bool(f) and f[0] == "<=" and f[1] == "self.current_size" and f[2] == p0
        for (t, w) in find_path_avoiding(g, lambda x: x is pubn, gate_node=lambda x: x in tr, gate_edge=not_smaller):
            r.violation(S, S.loc(pubn.ast), "size can shrink below current_size without truncating the temp file "
                        "(stale bytes reappear on a later extension)", w)
        ext = [n for n in g.stmt_nodes() if calls_at(n, "overwrite")]
        r.require(bool(ext), S, S.loc(), "growing no longer zero-extends through overwrite()")
        for n in ext:
            r.site(S, n.ast, "zero-extend")
            c = calls_at(n, "overwrite")[0]
            okx = len(c.args) == 2 and attr_path(c.args[0]) == "self.current_size" and isinstance(c.args[1], ast.BinOp) \
                and isinstance(c.args[1].op, ast.Mult) and any(
                    norm_plain(x) == norm_src("%s - self.current_size" % p0) for x in (c.args[1].left, c.args[1].right))
            r.require(okx, S, S.loc(n.ast), "extension is %s, expected overwrite(current_size, zeros * (size - current_size))" % src(S, c))

        def not_larger(t, lab):
            f = sn.edge_fact(t, lab)
            return bool(f) and f[0] == "<=" and f[1] == p0 and f[2] == "self.current_size"
        for (t, w) in find_path_avoiding(g, lambda x: x is pubn, gate_node=lambda x: x in ext, gate_edge=not_larger):
            r.violation(S, S.loc(pubn.ast), "size can grow without zero-filling the new range", w)
        dl = [n for n in g.stmt_nodes() if "self.download_size" in node_stores(n)]
        r.require(bool(dl), S, S.loc(), "download_size is no longer clamped to the new size")
        for n in dl:
            r.site(S, n.ast, "clamp")
            r.require(attr_path(assign_value(n, "self.download_size")) == p0, S, S.loc(n.ast), "download_size := %s" % src(S, n.ast))

            def smaller(t, lab):
                f = sn.edge_fact(t, lab)
                return bool(f) and f[0] == "<" and f[1] == p0 and f[2] == "self.download_size"
            for (t, w) in find_path_avoiding(g, lambda x, _n=n: x is _n, gate_edge=smaller):
                r.violation(S, S.loc(n.ast), "download_size changed without size < download_size", w)
        for (t, w) in find_path_avoiding(g, lambda x: x.kind == "exit", gate_node=lambda x: x in dl,
                                         gate_edge=lambda t, lab: bool(sn.edge_fact(t, lab)) and sn.edge_fact(t, lab)[0] == "<="
                                         and sn.edge_fact(t, lab)[1] == "self.download_size" and sn.edge_fact(t, lab)[2] == p0):
            r.violation(S, S.loc(), "download_size can stay above the new size (download would write past the truncation)", w)
        # declaring the download done releases every waiting and every later read at once (when_reached_or_failed
        # answers immediately once done_status is set): set_current_size may do so only when the (clamped) download
        # size has been reached
        dd = [n for n in g.stmt_nodes() if calls_at(n, "download_done")]
        for n in dd:
            r.site(S, n.ast, "download_done")

            def reached(t, lab):
                return _le_fact(sn.edge_fact(t, lab), "self.download_size", "self.downloaded") is not None
            for (t, w) in find_path_avoiding(g, lambda x, _n=n: x is _n, gate_edge=reached,
                                             kill=lambda x, _n=n: x is not _n and (bool({"self.download_size", "self.downloaded"} & node_stores(x))
                                                                                   or bool(calls_at(x, "_update_downloaded")))):
                r.violation(S, S.loc(n.ast), "set_current_size() declares the download done although downloaded < download_size is "
                            "possible: reads of ranges the download has not delivered yet are then answered at once from the "
                            "temp file (garbage)", w)

    # -- (f) heap discipline -------------------------------------------------------
    with ctx.rule("C39.7", "R1", "write()/_update_downloaded(): the first entry of the overwrite / milestone heap is read only when "
                  "that heap is known to be non-empty; every turn of the milestone loop pops the entry it released", expected=5) as r:
        for fn in [W, idx.func(CLS + "._update_downloaded")] + merge_helpers:
            g = fn.cfg()
            hn = FlowNorm(fn)
            for heap in ("self.overwrites", "self.milestones"):
                def popped(x, _h=heap):
                    if _h in node_stores(x) or (_h + "[]") in node_stores(x):
                        return True
                    for c in node_calls(x):
                        if call_tail(c) == "heappop" and c.args and attr_path(c.args[0]) == _h:
                            return True
                        if isinstance(c.func, ast.Attribute) and attr_path(c.func.value) == _h and c.func.attr in ("pop", "clear", "remove"):
                            return True
                        if _h == HEAP and any(_self_method_call(c, OC) is h for h in merge_helpers):
                            return True         # the merge helper takes records off the heap
                    return False

                def nonempty(t, lab, _h=heap):
                    return _nonempty_fact(hn.edge_fact(t, lab), _h)
                # a merge helper is entered with the heap known non-empty when every call of it in write() is: then only a
                # read after the helper's own removals needs a fresh test
                entered_nonempty = False
                if any(fn is h for h in merge_helpers):
                    wn_ = FlowNorm(W)
                    hcalls = [x for x in cfg.nodes if x.kind not in ("entry", "exit", "raise")
                              and any(_self_method_call(c, OC) is fn for c in node_calls(x))]
                    (bad_, badrefs_, total_) = callers_outside(idx, fn.name, [W.qual])
                    ncalls_ = sum(1 for x in hcalls for c in node_calls(x) if _self_method_call(c, OC) is fn)
                    entered_nonempty = bool(hcalls) and not bad_ and not badrefs_ and total_ == ncalls_ \
                        and not any(find_path_avoiding(cfg, lambda x, _c=hc: x is _c, kill=popped,
                                                       gate_edge=lambda t, lab, _h=heap: _nonempty_fact(wn_.edge_fact(t, lab), _h)) for hc in hcalls)
                for n in g.nodes:
                    if not _heap_top_reads(n, heap):
                        continue
                    r.site(fn, n.ast, "%s[0]" % heap)
                    if entered_nonempty:
                        found = []
                        for k in [x for x in g.nodes if x.kind not in ("entry", "exit", "raise") and popped(x)]:
                            for (d, lab) in g.successors(k):
                                if lab != "exc" and not found:
                                    found = find_path_avoiding(g, lambda x, _n=n: x is _n, gate_edge=nonempty, kill=popped, start=d)
                    else:
                        found = find_path_avoiding(g, lambda x, _n=n: x is _n, gate_edge=nonempty, kill=popped)
                    for (t, w) in found:
                        r.violation(fn, fn.loc(n.ast), "%s[0] is read although the heap can be empty here (IndexError: the download "
                                    "consumer fails in the middle of a chunk) (path: %s)" % (heap, w.brief()), w)
        U = idx.func(CLS + "._update_downloaded")
        g = U.cfg()
        for (mn, _a, _b) in _heap_top_unpack(U, g, "self.milestones"):
            r.site(U, mn.ast, "milestone loop")

            def tr(a, lab, b, st):
                if lab == "exc":
                    return None
                if any(call_tail(c) == "heappop" and c.args and attr_path(c.args[0]) == "self.milestones" for c in node_calls(a)):
                    return True
                return st
            visited, parent = explore(g, False, tr, start=mn)
            for (p, lab) in g.predecessors(mn):
                if (p.id, False) in visited:
                    r.violation(U, U.loc(mn.ast), "the milestone loop can come back to the same first entry of self.milestones without "
                                "popping it: the same waiter is released again and again", witness(g, parent, (p.id, False)))

    # -- (g) GeneralSFTPFile: the synchronous commit decision sees every accepted write ------
    with ctx.rule("C39.8", "R1/E7", "GeneralSFTPFile: close() skips the commit only for a handle that was already closed / not opened "
                  "for writing / abandoned / unchanged; has_changed is sampled synchronously by close(), so every request that "
                  "performs or queues a contents-changing consumer call (overwrite, set_current_size) marks the handle changed before it returns, it is accepted only on "
                  "handles close() commits, and has_changed is never reset", expected=6) as r:
        G = idx.cls(GCLS)
        CLO = idx.func(GCLS + ".close")
        cg = CLO.cfg()
        cnm = FlowNorm(CLO)
        commits = [f for f in CLO.nested.values() if any(call_tail(c) == "get_file" for c in _tree_calls(f.node))]
        if not commits:
            raise AnchorVanished("GeneralSFTPFile.close(): the callback that hands the consumer's temp file (get_file) to the "
                                 "uploader was not found")
        regs_all = [x for x in registrations(CLO) if x.kind in ("cb", "both", "pair")
                    and any(b is f.node for b in _reached_callables(CLO, G, x.target) for f in commits)]
        r.require(bool(regs_all), CLO, CLO.loc(), "close() never queues the commit callback (%s): nothing is ever uploaded"
                  % ", ".join(f.name for f in commits))
        regs = [x for x in regs_all if x.recv == "self.async_"]
        if regs_all and not regs:
            raise AnchorVanished("GeneralSFTPFile.close(): the commit is not queued on self.async_ (behind the queued writes)")
        commit_nodes = [n for n in (_cfg_node_of(cg, x.call) for x in regs) if n is not None]
        for n in commit_nodes:
            r.site(CLO, n.ast, "commit queued")

        def _is_flag_load(x):
            return isinstance(x, ast.Attribute) and isinstance(x.ctx, ast.Load) and attr_path(x) == FLAG
        own_loads = [x for x in func_own_nodes(CLO) if _is_flag_load(x)]
        late_loads = [x for f in _all_nested(CLO).values() for x in ast.walk(f.node) if _is_flag_load(x)]
        if late_loads:
            raise AnchorVanished("GeneralSFTPFile.close(): has_changed is read inside a queued callback; the rule decides the "
                                 "design in which close() samples it synchronously")
        for x in own_loads:
            r.site(CLO, x, "has_changed sampled at the close call")

        masks = set()

        def excuse(n, lab, closed_stored):
            f = cnm.edge_fact(n, lab)
            if not f:
                return False
            if f[0] == "truth" and f[1] == "self.closed" and not closed_stored:
                return True         # closed by an earlier close(): that call took the decision
            if f[0] == "truth" and f[1] == "self.abandoned":
                return True
            if f[0] == "false" and f[1] == FLAG:
                return True
            if f[0] == "false":
                m = _flag_mask(f[1])
                if m and "FXF_WRITE" in m:
                    masks.add(m)    # not opened for writing: valid as long as writes are refused on such handles (below)
                    return True
            return False

        def tr(n, lab, nxt, st):
            if lab == "exc":
                return None
            if n.kind in ("entry", "exit", "raise"):
                return st
            stored, ok = st
            if not ok and (excuse(n, lab, stored) or any(n is c for c in commit_nodes)):
                ok = True
            if "self.closed" in node_stores(n):
                stored = True
            return (stored, ok)
        visited, parent = explore(cg, (False, False), tr)
        r.count(len(visited))
        for (nid, st) in sorted(visited):
            if cg.nodes[nid].kind == "exit" and not st[1]:
                w = witness(cg, parent, (nid, st))
                r.violation(CLO, CLO.loc(), "close() can return without queueing the commit although the handle was open, opened for "
                            "writing, not abandoned and has_changed was set: accepted writes are reported as closed but never "
                            "uploaded (path: %s)" % w.brief(), w)
                break

        # every request that performs / queues a contents-changing call on the consumer
        n_points = 0
        for m in G.methods.values():
            mg = m.cfg()
            points = []
            for n in mg.nodes:
                if n.kind in ("entry", "exit", "raise"):
                    continue
                if any(call_name(c) in QUEUED_MUTATORS for c in node_calls(n)):
                    points.append((n, "calls", None))
            for x in registrations(m):
                if x.kind not in ("cb", "both", "pair"):
                    continue
                if any(call_name(c) in QUEUED_MUTATORS for b in _reached_callables(m, G, x.target) for c in _tree_calls(b)):
                    n = _cfg_node_of(mg, x.call)
                    if n is not None and not any(n is p for (p, _h, _x) in points):
                        points.append((n, "queues", x))
            # a callback that would overwrite but is never queued / called: the write is accepted and silently dropped
            live = []
            for x in registrations(m):
                if x.kind in ("cb", "both", "pair"):        # an errback-only registration does not run on the normal path
                    live.extend(_reached_callables(m, G, x.target))
            for c in (c for n in mg.nodes if n.kind not in ("entry", "exit", "raise") for c in node_calls(n, into_lambda=True)):
                live.extend(_reached_callables(m, G, c.func))
                if isinstance(c.func, ast.Attribute) and c.func.attr in ("addCallback", "addErrback", "addBoth", "addCallbacks"):
                    continue
                for a in list(c.args) + [k.value for k in c.keywords]:
                    live.extend(_reached_callables(m, G, a))
            for f in _all_nested(m).values():
                if any(call_name(c) in QUEUED_MUTATORS for c in _tree_calls(f.node)) \
                        and not any(any(y is f.node for y in ast.walk(b)) for b in live):
                    n_points += 1
                    r.violation(m, m.loc(f.node), "%s(): the callback %s that overwrites the consumer is defined but never queued or "
                                "called: the request is answered with success and the write is dropped" % (m.name, f.name))
            if not points:
                continue
            mnm = FlowNorm(m)
            for (p, how, reg) in points:
                n_points += 1
                r.site(m, p.ast, "%s a contents-changing consumer call" % how)
                if own_loads:
                    # a path of the request on which the queued callback cannot reach its mutator needs no mark: it passed an
                    # edge fact over locals of the request (not re-bound later, the callback sees the same binding) whose
                    # negation guards every path to the mutator inside the callback
                    idle = _callback_unreachable_facts(m, reg, QUEUED_MUTATORS) if reg is not None else set()
                    idle_names = set()
                    for f_ in idle:
                        idle_names |= _fact_names(f_) or set()
                    knm = FlowNorm(m, keep=idle_names) if idle else None

                    def tr2(n, lab, nxt, st, _p=p, _idle=idle, _knm=knm):
                        if lab == "exc":
                            return None
                        passed, marked, excused = st
                        if n is _p:
                            passed = True
                        if FLAG in node_stores(n):
                            marked = _truthy_const(assign_value(n, FLAG))
                        if _idle:
                            # facts that hold now and whose names are not re-bound from here on
                            excused = frozenset(f for f in excused if not ((_fact_names(f) or set()) & node_stores(n)))
                            f = _knm.edge_fact(n, lab)
                            if f and tuple(f) in _idle:
                                excused = excused | {tuple(f)}
                        return (passed, marked, excused)
                    vis2, par2 = explore(mg, (False, False, frozenset()), tr2)
                    r.count(len(vis2))
                    for (nid, st) in sorted(vis2, key=lambda z: (z[0], z[1][0], z[1][1], sorted(map(repr, z[1][2])))):
                        if mg.nodes[nid].kind == "exit" and st[0] and not st[1] and not st[2]:
                            w = witness(mg, par2, (nid, st))
                            r.violation(m, m.loc(p.ast), "%s() %s a contents-changing consumer call (overwrite / set_current_size) but can return without having set "
                                        "has_changed = True itself: close() samples has_changed at the close call, so a close() "
                                        "that arrives before the queued change has run skips the commit and the change is lost "
                                        "(path: %s)" % (m.name, how, w.brief()), w)
                            break
                for Mc in sorted(masks, key=sorted):
                    def writable(t, lab, _Mc=Mc):
                        f = mnm.edge_fact(t, lab)
                        if not f or f[0] != "truth":
                            return False
                        mm = _flag_mask(f[1])
                        return bool(mm) and mm <= _Mc
                    for (t, w) in find_path_avoiding(mg, lambda x, _p=p: x is _p, gate_edge=writable, skip_exc_edges=True):
                        r.violation(m, m.loc(p.ast), "%s() %s a contents-changing consumer call on a handle for which close() skips the commit "
                                    "(close() does not commit when none of %s is set, this write is not refused then)"
                                    % (m.name, how, "|".join(sorted(Mc))), w)
        if not n_points:
            raise AnchorVanished("GeneralSFTPFile: no request performs or queues %s" % "/".join(QUEUED_MUTATORS))

        # has_changed only ever goes from false to true after __init__
        prefix = CLO.qual[:-len("close")]
        for m in G.methods.values():
            if m.name == "__init__":
                continue
            for st in ast.walk(m.node):
                tg, val = [], None
                if isinstance(st, ast.Assign):
                    tg, val = list(st.targets), st.value
                elif isinstance(st, ast.AnnAssign):
                    tg, val = [st.target], st.value
                elif isinstance(st, (ast.AugAssign, ast.Delete)):
                    tg = [st.target] if isinstance(st, ast.AugAssign) else list(st.targets)
                flat = []
                for t in tg:
                    flat.extend(t.elts if isinstance(t, (ast.Tuple, ast.List)) else [t])
                    if isinstance(t, (ast.Tuple, ast.List)):
                        val = None
                if any(attr_path(t) == FLAG for t in flat):
                    r.site(m, st, "has_changed store")
                    r.require(_truthy_const(val), m, m.loc(st), "has_changed is re-assigned to %s in %s(): a write accepted before "
                              "this statement runs is forgotten by the commit decision of close()"
                              % (src(m, val) if val is not None else "?", m.name))
        for (fn, node) in get_callgraph(idx).attr_stores("has_changed"):
            if fn.qual.startswith(prefix):
                continue
            par = [st for st in ast.walk(fn.node) if isinstance(st, ast.Assign) and any(t is node for t in st.targets)]
            r.require(bool(par) and _truthy_const(par[0].value), fn, fn.loc(node),
                      "has_changed of a file handle is re-assigned outside GeneralSFTPFile")

    # -- (h) the commit hands the temp file to the uploader only after the download is done -------
    with ctx.rule("C39.9", "E7", "GeneralSFTPFile.close()._commit: the consumer's temp file is read (get_file) only in callbacks of "
                  "consumer.when_done() and the commit returns that Deferred; when_done() fires only from a callback of self.done, "
                  "which only download_done() fires", expected=7) as r:
        G = idx.cls(GCLS)
        CLO = idx.func(GCLS + ".close")
        commits = [f for f in CLO.nested.values() if any(call_tail(c) == "get_file" for c in _tree_calls(f.node))]
        if not commits:
            raise AnchorVanished("GeneralSFTPFile.close(): the commit callback (get_file) was not found")

        def is_when_done(v):
            v = _strip_chain(v) if v is not None else None
            return isinstance(v, ast.Call) and call_name(v) == "self.consumer.when_done"
        for F in commits:
            fg = F.cfg()
            fnm2 = FlowNorm(F)
            covered, wait_vars, upload_regs = set(), set(), []
            for x in registrations(F):
                if x.kind not in ("cb", "both", "pair"):
                    continue
                if x.recv:
                    defs = [(n, assign_value(n, x.recv)) for n in fg.stmt_nodes() if x.recv in node_stores(n)]
                    okr = bool(defs) and all(v is not None and is_when_done(fnm2.resolve(n, v)) for (n, v) in defs)
                else:
                    okr = is_when_done(x.call)
                if not okr:
                    continue
                if x.recv:
                    wait_vars.add(x.recv)
                for b in _reached_callables(F, G, x.target):
                    cs = _tree_calls(b)
                    covered.update(id(c) for c in cs)
                    if any(call_tail(c) == "get_file" for c in cs):
                        upload_regs.append(_cfg_node_of(fg, x.call))
            for c in _tree_calls(F.node):
                if call_tail(c) != "get_file":
                    continue
                r.site(F, c, "get_file")
                r.require(id(c) in covered, F, F.loc(c), "the consumer's temp file is handed to the uploader (%s) outside a callback of "
                          "self.consumer.when_done(): the upload can start while the background download is still filling the "
                          "file, and uploads the holes" % src(F, c))

            def waits(n):
                if not is_return(n) or n.ast.value is None:
                    return False
                return is_when_done(n.ast.value) or bool(wait_vars & depends_on(F, n.ast.value))
            # every way through the commit chains an upload of the temp file (close() already decided that there is something
            # to commit; only a re-check of has_changed may leave early)
            def unchanged(t, lab):
                f = fnm2.edge_fact(t, lab)
                return bool(f) and f[0] == "false" and f[1] == FLAG
            for (t, w) in find_path_avoiding(fg, lambda x: x.kind == "exit", gate_node=lambda x: any(x is u for u in upload_regs),
                                             gate_edge=unchanged, skip_exc_edges=True):
                r.violation(F, F.loc(), "the commit callback can finish without chaining an upload of the consumer's temp file: close() "
                            "reports success but the changed contents are never stored (path: %s)" % w.brief(), w)
            # once an upload has been chained, the commit hands that Deferred back
            for un in upload_regs:
                if un is None:
                    continue
                r.site(F, un.ast, "commit result")
                for (t, w) in find_path_from_to_avoiding(fg, lambda x, _u=un: x is _u, waits):
                    r.violation(F, F.loc(un.ast), "the commit callback can finish without returning the Deferred of when_done()+upload: "
                                "_do_close then closes the consumer (and its temp file) and reports success before the upload has "
                                "read the contents", w)
        CC = idx.cls(CLS)
        WD = idx.func(CLS + ".when_done")
        wg = WD.cfg()
        rets = wg.find(is_return)
        if not rets:
            raise AnchorVanished("when_done(): no return found")
        r.site(WD, None, "when_done")
        for n in rets:
            v = n.ast.value
            nm = attr_path(v) if v is not None else None
            defs = [assign_value(m, nm) for m in wg.stmt_nodes() if nm and nm in node_stores(m)]
            fresh = bool(defs) and all(isinstance(d, ast.Call) and call_tail(d) == "Deferred" and not d.args for d in defs)
            r.require(fresh, WD, WD.loc(n.ast), "when_done() returns %s, not a new Deferred fired from a callback of self.done: the "
                      "commit does not wait for the download" % (src(WD, v) if v is not None else "None"))
            if fresh:
                fires = [c for c in _tree_calls(WD.node)
                         if (call_tail(c) in ("eventually_callback", "eventually_errback") and c.args and attr_path(c.args[0]) == nm)
                         or call_name(c) in (nm + ".callback", nm + ".errback")]
                in_done = set()
                for x in registrations(WD):
                    if x.recv == "self.done" and x.kind in ("cb", "both", "pair"):
                        for b in _reached_callables(WD, CC, x.target):
                            in_done.update(id(c) for c in _tree_calls(b))
                r.require(bool(fires) and all(id(c) in in_done for c in fires), WD, WD.loc(n.ast),
                          "the Deferred returned by when_done() is not fired (only) from a callback registered on self.done")
        for m in CC.methods.values():
            for c in _tree_calls(m.node):
                if (call_tail(c) in ("eventually_callback", "eventually_errback") and c.args and attr_path(c.args[0]) == "self.done") \
                        or call_name(c) in ("self.done.callback", "self.done.errback"):
                    r.site(m, c, "self.done fired")
                    r.require(m.name == "download_done", m, m.loc(c), "self.done (which releases the commit) is fired in %s(), "
                              "outside download_done()" % m.name)
            for st in ast.walk(m.node):
                if isinstance(st, ast.Assign) and any(attr_path(t) == "self.done" for t in st.targets):
                    r.site(m, st, "self.done created")
                    r.require(isinstance(st.value, ast.Call) and call_tail(st.value) == "Deferred" and not st.value.args, m, m.loc(st),
                              "self.done is %s, not an unfired Deferred" % src(m, st.value))

    # -- (i) records leave the overwrite heap only when write() has consumed them ------------------------------
    with ctx.rule("C39.11", "R1", "OverwriteableFileConsumer: a record leaves the pending-overwrite heap (the heap overwrite() pushes to and "
                  "write() consults) only by a heappop in write() / its merge helper (decided by C39.1/.2/.10/.12); any other removal, "
                  "filter or re-binding - in whatever method - keeps, for every record, a record covering the part the download can "
                  "still reach (start below download_size, end beyond downloaded)", expected=3) as r:
        O = idx.func(CLS + ".overwrite")
        roles = {attr_path(c.args[0]) for c in calls_in_func(O, "heappush") if c.args}
        if roles != {HEAP}:
            raise AnchorVanished("overwrite(): the heap it records written regions in is %s, the rules are written for %s" % (sorted(map(str, roles)), HEAP))
        consumers = [W] + list(merge_helpers)
        prefix_q = OC.qual + "."

        def is_h(p_):
            return p_ == HEAP

        def is_heap_expr(e, _al=None):
            return attr_path(e) == HEAP and isinstance(e, ast.Attribute)
        def after_close(m, node):
            # the consumer has been closed on every way to `node`: write() drops every later chunk, overwrite() refuses
            g = m.cfg()
            cn_ = _cfg_node_of(g, node)
            if cn_ is None:
                return False
            mn_ = FlowNorm(m)

            def closes(x):
                return "self.is_closed" in node_stores(x) and _truthy_const(assign_value(x, "self.is_closed"))

            def closed(t, lab):
                f = mn_.edge_fact(t, lab)
                return bool(f) and f[0] == "truth" and f[1] == "self.is_closed"
            return not find_path_avoiding(g, lambda x: x is cn_, gate_node=closes, gate_edge=closed,
                                          kill=lambda x: "self.is_closed" in node_stores(x) and not closes(x))
        for m in OC.methods.values():
            evs = _heap_events(m.node, is_h)
            own = None
            for ev in evs:
                kind, node = ev[0], ev[1]
                if kind == "keep":
                    continue
                if kind == "escape":
                    raise AnalysisError("%s(): %s is handed on through %s; which records leave the heap cannot be decided" % (m.name, HEAP, ev[2]))
                if own is None:
                    own = list(func_own_nodes(m))
                in_own = any(x is node for x in own)
                if in_own and m.name != "__init__" and not any(m is c for c in consumers) and after_close(m, node):
                    r.site(m, node, "after the consumer was closed")
                    continue
                if kind == "pop":
                    r.site(m, node, "record taken off the heap")
                    r.require(in_own and any(m is c for c in consumers), m, m.loc(node),
                              "%s() takes a record off %s (%s): only write() may, for the record the downloaded chunk has reached; "
                              "a record removed anywhere else no longer protects the client's bytes, which the next download chunks "
                              "overwrite" % (m.name, HEAP, src(m, node)))
                    continue
                if kind == "rebind":
                    if m.name == "__init__" and in_own:
                        r.site(m, node, "heap created")
                        continue
                    r.site(m, node, "heap re-bound")
                    loss = _rebind_loss(m, node, ev[2], is_heap_expr)
                    r.require(loss is None, m, m.loc(node), "%s(): %s %s; the download then overwrites the client's bytes of the "
                              "dropped part when it reaches them" % (m.name, HEAP, loss))
                    continue
                if kind == "replace":
                    r.site(m, node, "first record replaced")
                    okc = False
                    if in_own and len(node.args) == 2 and isinstance(node.args[1], ast.Tuple) and len(node.args[1].elts) == 2:
                        g = m.cfg()
                        cn_ = _cfg_node_of(g, node)
                        S, E = node.args[1].elts
                        for (n0, s0, e0) in _heap_top_unpack(m, g):
                            if cn_ is None or not s0 or not e0:
                                continue
                            if find_path_avoiding(g, lambda x, _c=cn_: x is _c, gate_node=lambda x, _n=n0: x is _n,
                                                  kill=lambda x, _n=n0, _k={s0, e0}: x is not _n and (_mutates_heap(x) or bool(_k & node_stores(x)))):
                                continue
                            ok_s = attr_path(S) == s0 or (isinstance(S, ast.Call) and call_name(S) == "min" and any(attr_path(a) == s0 for a in S.args))
                            ok_e = attr_path(E) == e0 or (isinstance(E, ast.Call) and call_name(E) == "max" and any(attr_path(a) == e0 for a in E.args))
                            okc = okc or (ok_s and ok_e)
                    r.require(okc, m, m.loc(node), "%s() replaces the first record of %s by %s, which is not shown to cover the record "
                              "it removes (start <= its start, end >= its end)" % (m.name, HEAP, src(m, node.args[1]) if len(node.args) > 1 else "?"))
                    continue
                # remove
                r.site(m, node, "removal")
                r.violation(m, m.loc(node), "%s() removes records from %s by %s (%s): a pending record is forgotten although the "
                            "download has not passed it; the next download chunks overwrite the client's bytes"
                            % (m.name, HEAP, ev[2], src(m, node)))
        # code outside the class
        cg_ = get_callgraph(idx)
        tail_ = HEAP.split(".")[-1]
        seen_fn = set()
        for (fn, _node) in list(cg_.attr_stores(tail_)) + list(cg_.refs_named(tail_)):
            top = fn
            while top.parent is not None:
                top = top.parent
            if top.qual.startswith(prefix_q) or id(top) in seen_fn or not hasattr(top.node, "body"):
                continue
            seen_fn.add(id(top))
            for ev in _heap_events(top.node, lambda p_: p_.split(".")[-1] == tail_ and "." in p_):
                if ev[0] in ("keep", "escape"):
                    continue
                r.site(top, ev[1], "outside the consumer")
                r.violation(top, top.loc(ev[1]), "%s() changes the consumer's overwrite heap from outside (%s): records leave it only "
                            "in OverwriteableFileConsumer.write()" % (top.name, src(top, ev[1])))

    # -- (j) write(): a record is taken off only after it was examined, and is then accounted for ---------------------
    with ctx.rule("C39.12", "R1", "write(): a record is taken off the overwrite heap only after the first record was read and found to start "
                  "before the end of the delivered chunk (or, while merging, at/before the merged end); afterwards, before the chunk is "
                  "written / the next record is examined / write() returns, the (merged) region is re-queued, skipped over in the chunk, "
                  "or known to end before the downloaded position", expected=2) as r:
        def helper_call(n):
            return any(any(_self_method_call(c, OC) is h for h in merge_helpers) for c in node_calls(n))
        helper_pops = {h.qual: any(_heap_pops(x) for x in h.cfg().nodes if x.kind not in ("entry", "exit", "raise")) for h in merge_helpers}
        takes = [n for n in cfg.nodes if n.kind not in ("entry", "exit", "raise") and (_heap_pops(n) or helper_call(n))]
        if not takes:
            raise AnchorVanished("write(): no record is ever taken off %s" % HEAP)
        top_idx = {id(t[0]): k for k, t in enumerate(tops)}

        def guard_ok(k, f):
            (_n, s, e) = tops[k]
            if not s or not f:
                return False
            if e == end_v:      # the region that is compared with the chunk
                return _le_fact(f, s, ND) is not None or _le_fact(f, s, want_nd) is not None
            return _le_fact(f, s, end_v) is not None

        def direct_ok(f):
            return bool(f) and (_le_fact(f, TOP_S, ND) is not None or _le_fact(f, TOP_S, want_nd) is not None)

        def tr_g(n, lab, nxt, st):
            if lab == "exc":
                return None
            if n.kind in ("entry", "exit", "raise"):
                return st
            k, held = st
            if id(n) in top_idx:
                return (top_idx[id(n)], False)
            if _mutates_heap(n) or helper_call(n):
                return (-1, False)
            if k >= 0 and tops[k][1] in node_stores(n):
                return (-1, False)
            if k >= 0 and not held and guard_ok(k, fnorm.edge_fact(n, lab)):
                held = True
            if not held and direct_ok(fnorm.edge_fact(n, lab)):
                held = True         # the first record's start, read in place, lies before the end of the chunk
            return (k, held)
        vis_g, par_g = explore(cfg, (-1, False), tr_g)
        r.count(len(vis_g))
        for P in takes:
            if not _heap_pops(P) and _popped_between(cfg, exam_nodes, P) is not False:
                continue        # the helper merges the records that follow the one write() popped: its pops are decided by C39.10
            r.site(W, P.ast, "taken after examination")
            bad = sorted((nid, st) for (nid, st) in vis_g if nid == P.id and not st[1])
            if bad:
                w = witness(cfg, par_g, bad[0])
                what = "a record it has not read since the heap last changed" if bad[0][1][0] < 0 else \
                    "the record `%s` without having established that it starts before the end of the chunk / at or before the merged end" % tops[bad[0][1][0]][1]
                r.violation(W, W.loc(P.ast), "write() takes off %s %s: a record the download has not reached is consumed (its region, "
                            "or the gap before it, is then wrongly skipped or left unprotected) (path: %s)" % (HEAP, what, w.brief()), w)
        # accounting
        # (the write of the chunk's prefix in front of the region - data[:start - downloaded], decided by C39.2 - ends before it)
        fw12 = [n for n in cfg.stmt_nodes() if any(call_name(c) == "self.f.write" and not (
            c.args and isinstance(c.args[0], ast.Subscript) and isinstance(c.args[0].slice, ast.Slice) and c.args[0].slice.lower is None
            and c.args[0].slice.upper is not None) for c in node_calls(n))]
        skip12 = [n for n in cfg.stmt_nodes() if isinstance(n.ast, ast.Assign) and attr_path(n.ast.targets[0]) == DATA
                  and isinstance(n.ast.value, ast.Subscript) and isinstance(n.ast.value.slice, ast.Slice)
                  and n.ast.value.slice.upper is None and n.ast.value.slice.lower is not None
                  and end_v in names_in(n.ast.value.slice.lower)]
        push12 = [n for n in cfg.stmt_nodes() if any(call_tail(c) == "heappush" and len(c.args) == 2 and attr_path(c.args[0]) == HEAP
                                                     and isinstance(c.args[1], ast.Tuple) and len(c.args[1].elts) == 2
                                                     and attr_path(c.args[1].elts[1]) == end_v for c in node_calls(n))]
        next_turn = [t[0] for t in tops if t[2] == end_v] + [x for x in direct_exams if not any(x is t[0] for t in tops)]
        for P in takes:
            r.site(W, P.ast, "taken record accounted for")

            def is_target(x):
                return x.kind == "exit" or any(x is y for y in fw12) or any(x is y for y in next_turn)

            def tr_a(n, lab, nxt, st, _P=P):
                if lab == "exc":
                    return None
                if n is not _P and is_target(n):
                    return None
                if any(n is y for y in skip12) or any(n is y for y in push12):
                    return True
                if n is not _P and n.kind not in ("entry", "exit", "raise") and end_v in node_stores(n):
                    st = False
                f = fnorm.edge_fact(n, lab)
                if f and _le_fact(f, end_v, "self.downloaded") is not None:
                    st = True
                return st
            vis_a, par_a = explore(cfg, False, tr_a, start=P)
            r.count(len(vis_a))
            for (nid, st) in sorted(vis_a):
                x = cfg.nodes[nid]
                if x is not P and is_target(x) and not st:
                    w = witness(cfg, par_a, (nid, st))
                    where = "returns" if x.kind == "exit" else ("writes the downloaded data" if any(x is y for y in fw12) else "examines the next record")
                    r.violation(W, W.loc(P.ast), "write() takes a record off %s and then %s without having re-queued the region up to `%s`, "
                                "skipped the chunk to `%s`, or established %s < self.downloaded: the client's bytes of that region are "
                                "overwritten by this or a later chunk (path: %s)" % (HEAP, where, end_v, end_v, end_v, w.brief()), w)
                    break

    # -- (k) sibling bookkeeping: who may move it -----------------------------------------------------------------
    with ctx.rule("C39.13", "R1", "OverwriteableFileConsumer: self.downloaded is moved only by _update_downloaded, called by write() (never to a "
                  "position before self.downloaded or beyond the end of the chunk); any other method leaves it where it is or clamps it "
                  "to a bound the download size is clamped to as well (min(self.downloaded, B)); self.current_size is stored only by the "
                  "client operations overwrite / set_current_size; self.download_size never grows after __init__; a waiting reader "
                  "leaves self.milestones only where it is released (_update_downloaded, download_done)", expected=10) as r:
        U = idx.func(CLS + "._update_downloaded")
        may_store = {"self.downloaded": ("__init__", U.name),
                     "self.current_size": ("__init__", "overwrite", "set_current_size")}
        why = {"self.downloaded": "the download stream's next chunk is then written at the wrong offset (over bytes the client wrote, or "
                                  "leaving bytes that were never downloaded)",
               "self.current_size": "reads are clipped to / the commit uploads a size that no write or truncation asked for",
               "self.download_size": "the download then writes original bytes beyond a truncation point, over the zeros / the data written "
                                     "there since"}

        def owner_of(m, st):
            for f in [m] + list(_all_nested(m).values()):
                if any(x is st for x in func_own_nodes(f)):
                    return f
            return None

        def harmless_position(m, e):
            """The downloaded position is left alone, or clamped to a bound B with download_size <= B when m returns: write()
            ignores the rest of the stream then (downloaded >= download_size)."""
            if e is None:
                return False
            if attr_path(e) == "self.downloaded":
                return True
            if isinstance(e, ast.Call) and call_name(e) == "min" and len(e.args) == 2 and not e.keywords \
                    and any(attr_path(a) == "self.downloaded" for a in e.args):
                other = [a for a in e.args if attr_path(a) != "self.downloaded"]
                return len(other) == 1 and norm_plain(other[0]) in _reach_bounds(m)
            return False
        for m in OC.methods.values():
            own = list(func_own_nodes(m))
            for st in ast.walk(m.node):
                for t in _store_targets(st):
                    p_ = attr_path(t)
                    if p_ in may_store:
                        r.site(m, st, "%s stored" % p_)
                        if m.name in may_store[p_] and any(x is st for x in own):
                            continue
                        if p_ == "self.downloaded" and isinstance(st, ast.Assign) and any(x is st for x in own) \
                                and harmless_position(m, st.value if any(tt is t for tt in st.targets) else None):
                            continue
                        r.violation(m, m.loc(st), "%s is re-bound in %s() (`%s`), outside %s: %s"
                                    % (p_, m.name, src(m, st), " / ".join(may_store[p_]), why[p_]))
                    elif p_ == "self.download_size" and m.name != "__init__":
                        r.site(m, st, "self.download_size stored")
                        f = owner_of(m, st)
                        n = _cfg_node_of(f.cfg(), st) if f is not None else None
                        v = assign_value(n, p_) if n is not None else None
                        if v is None:
                            r.violation(m, m.loc(st), "self.download_size is re-bound by `%s`, which is not shown not to raise it: %s"
                                        % (src(m, st), why[p_]))
                            continue
                        if isinstance(v, ast.Call) and call_name(v) == "min" and not v.keywords and any(attr_path(a) == p_ for a in v.args):
                            continue
                        fn_ = FlowNorm(f)
                        vs = src(f, v)

                        def lower(t, lab, _vs=vs, _fn=fn_):
                            return _le_fact(_fn.edge_fact(t, lab), _vs, "self.download_size") is not None
                        for (t, w) in find_path_avoiding(f.cfg(), lambda x, _n=n: x is _n, gate_edge=lower,
                                                         kill=lambda x, _k=names_in(v) | {p_}, _n=n: x is not _n and bool(_k & node_stores(x))):
                            r.violation(m, m.loc(st), "%s() can raise self.download_size (`%s` is neither min(self.download_size, .) nor guarded by "
                                        ". < self.download_size): %s (path: %s)" % (m.name, src(m, st), why[p_], w.brief()), w)
        cg_ = get_callgraph(idx)
        prefix_q = OC.qual + "."
        for p_ in list(may_store) + ["self.download_size"]:
            for (fn, node) in cg_.attr_stores(p_.split(".")[-1]):
                if fn.qual.startswith(prefix_q):
                    continue
                ap = attr_path(node) or ""
                if fn.module is W.module or "consumer" in ap:
                    r.site(fn, node, "stored outside the consumer")
                    r.violation(fn, fn.loc(node), "%s of the consumer is re-bound from outside (%s in %s()): %s" % (p_, ap, fn.name, why[p_]))
        # _update_downloaded: who calls it, and with what
        bad, badrefs, _total = callers_outside(idx, U.name, [x.qual for x in [W] + list(merge_helpers)])
        for cs in bad:
            a0 = cs.call.args[0] if len(cs.call.args) == 1 and not cs.call.keywords else None
            r.site(cs.fn, cs.call, "%s() outside write()" % U.name)
            top = cs.fn
            while top.parent is not None:
                top = top.parent
            r.require(top is cs.fn and cs.fn.qual.startswith(prefix_q) and harmless_position(cs.fn, a0), cs.fn, cs.fn.loc(cs.call),
                      "%s() moves the downloaded position (%s): only write() knows how far the download stream has got; %s"
                      % (cs.fn.name, src(cs.fn, cs.call), why["self.downloaded"]))
        for (fn, node) in badrefs:
            r.site(fn, node, "%s referenced" % U.name)
            r.violation(fn, fn.loc(node), "%s is handed out as a value in %s(): the downloaded position can then be moved by code that does "
                        "not consume the download stream" % (U.name, fn.name))
        for n in cfg.nodes:
            if n.kind in ("entry", "exit", "raise"):
                continue
            for c in calls_at(n, U.name):
                r.site(W, c, "downloaded advanced")
                if len(c.args) != 1 or c.keywords:
                    raise AnalysisError("write(): unexpected call shape %s" % src(W, c))
                X = c.args[0]
                if is_nd(fnorm.norm(n, X)):
                    continue
                xs = src(W, X)

                def not_back(t, lab, _xs=xs):
                    return _le_fact(fnorm.edge_fact(t, lab), "self.downloaded", _xs) is not None
                kills = names_in(X) | {"self.downloaded"}
                for (t, w) in find_path_avoiding(cfg, lambda x, _n=n: x is _n, gate_edge=not_back,
                                                 kill=lambda x, _k=kills, _n=n: x is not _n and (bool(_k & node_stores(x)) or bool(calls_at(x, U.name)))):
                    r.violation(W, W.loc(c), "write() sets the downloaded position to `%s` without having established %s >= self.downloaded: "
                                "the position can move backwards and the next chunk is written over bytes already settled (path: %s)"
                                % (xs, xs, w.brief()), w)

                # .. and not beyond the end of this chunk: the call that ends write() sets the position to that end
                def in_chunk(t, lab, _xs=xs):
                    f = fnorm.edge_fact(t, lab)
                    return _le_fact(f, _xs, ND) is not None or _le_fact(f, _xs, want_nd) is not None
                for (t, w) in find_path_avoiding(cfg, lambda x, _n=n: x is _n, gate_edge=in_chunk,
                                                 kill=lambda x, _k=names_in(X) | {ND}, _n=n: x is not _n and bool(_k & node_stores(x))):
                    r.violation(W, W.loc(c), "write() sets the downloaded position to `%s` without having established %s <= %s (the end of "
                                "this chunk): the final advance to %s then moves the position backwards and the next chunk is written "
                                "over bytes already settled (path: %s)" % (xs, xs, ND, ND, w.brief()), w)
        # self.milestones: a waiter is removed only where it is released
        MH = "self.milestones"
        releasers = ("_update_downloaded", "download_done")
        for m in OC.methods.values():
            own = None
            for ev in _heap_events(m.node, lambda p_: p_ == MH):
                kind, node = ev[0], ev[1]
                if kind == "keep":
                    continue
                if kind == "escape":
                    raise AnalysisError("%s(): %s is handed on through %s; which waiters leave it cannot be decided" % (m.name, MH, ev[2]))
                if own is None:
                    own = list(func_own_nodes(m))
                in_own = any(x is node for x in own)
                if kind == "rebind" and m.name == "__init__" and in_own:
                    r.site(m, node, "milestones created")
                    continue
                r.site(m, node, "waiter removed")
                r.require(kind == "pop" and in_own and m.name in releasers, m, m.loc(node),
                          "%s() removes waiting readers from %s (%s) outside the loops that release them (%s): the read's Deferred never "
                          "fires" % (m.name, MH, src(m, node), " / ".join(releasers)))
