"""C40 Web API byte-range downloads follow RFC 7233.

The deciding step is a symbolic execution of the (loop-free) CFGs of
FileDownloader.render and parse_range_header.parse_range: every path is
enumerated, locals are replaced by their defining expressions along that
path, and the values announced in the headers are compared - as polynomial
normal forms over the same symbols - with the values handed to
filenode.read().  Nothing is matched on text or position.
"""
from sa.h import *
from sa.deferred import REG, _unchain
import copy

EXPLANATION = (
    "Decided (all paths of FileDownloader.render / parse_range_header, symbolic): (1) announced = served: on every "
    "completing path the content-length value, the size given to filenode.read() and (last-first+1) of the "
    "(first,last) formatted into content-range are the same normal form, read() starts at that same first, the "
    "total is filenode.get_size(), first/last are clipped to [0, filesize-1]; without a parsed range the read is "
    "(0, None|filesize) and content-length is the file size; (2) 206 and content-range are set together, only "
    "after the header parsed and first < filesize; 416 is raised exactly under first >= filesize before either; "
    "unparsed/absent header leaves status and content-range untouched; (3) HEAD returns an empty body without "
    "calling read() and after the same header stores as the GET path; (4) parse_range_header: a result is "
    "returned only for units == 'bytes', the split and every parse_range call are inside the try whose "
    "ValueError handler returns None, every raise in parse_range is caught by it; (5) parse_range returns "
    "(filesize-int(n), filesize-1) for '-n' and only on a path that refused a signed n (int() accepts '-5'; decided by "
    "evaluating the path's integer tests at n = -1), (int(a), filesize-1) for 'a-', (int(a), int(b)) for 'a-b' and only "
    "when int(a) <= int(b) - first <= last is demanded of an explicit last-byte-pos only; (6) render_HEAD and render_GET both answer through FileDownloader on the best readable "
    "version (the very Deferred the FileDownloader callback was added to is what is returned); (7) parse_range_header "
    "is applied to req.getHeader('range') and a response completes unparsed only on a path that established the "
    "header absent/empty; the 416 is the argument bound to the WebError parameter stored in self.code; (8) a GET "
    "path returns the Deferred of filenode.read() and the last success callback on it answers None/empty (so the "
    "renderer writes nothing after the bytes read() wrote and finishes only when read() is done); (9) in "
    "render_GET/render_HEAD every path feasible for a request without t= goes through the FileDownloader or a "
    "satisfied setETag conditional, never an explicit raise or another return; (10) the list parse_range_header "
    "returns is parse_range applied to every element of the byte-range-set (the part behind the first '=' split at "
    "every ','; comprehension, map or a list filled in a loop that cannot skip an element or be left early; only "
    "empty elements may be filtered out), so a malformed or inverted spec anywhere in the set makes the whole header "
    "ignored although only the first range is served; (11) for mutable files MutableFileVersion.read hands its "
    "consumer, offset and size through _do_serialized/_read to Retrieve.download unchanged (argument binding, "
    "positional or keyword); (12, rules C09.5/C09.8/C09.12/C09.18 adopted) the bytes Retrieve delivers for "
    "(offset, size): the segments fetched are those holding the range, a decoded segment is cut to the tail length "
    "exactly when it is the last segment of the FILE (segnum + 1 == num_segments, not the last segment of the read), "
    "_set_segment cuts the first/last segment of the READ to the range, download() starts exactly that range; "
    "(13) error answers (the 416 included): every path of web.common _finish, _renderHTTP_exception (the module-level "
    "helpers it hands the request to, e.g. _renderHTTP_exception_simple, expanded in place) and of the "
    "render_exception wrapper is enumerated; a path that only a HEAD (or only a GET) request can take must store the "
    "same status, the same header values and hand the request to the same callees as some GET (HEAD) path whose other "
    "tests do not contradict it - a method test after the headers (empty body for HEAD) is allowed; (14) immutable "
    "files: on every path of DecryptingConsumer.__init__ the create_decryptor(..) kept in self._decryptor starts from "
    "block counter offset // 16 (the default IV only on a path that established offset // 16 == 0) and offset % 16 "
    "keystream bytes are consumed from it (none only on a path that established offset % 16 == 0), no other method "
    "re-binds it, and ImmutableFileNode.read gives its offset both to the DecryptingConsumer and to the ciphertext "
    "read; (15) invalid versus unsatisfiable: every pair of a refusing path (explicit raise / None result) and an "
    "accepting path of parse_range and of parse_range_header is compared; the test at which they part decides the "
    "refusal, and it must be a fact about the header text: with locals replaced by their definitions along the path "
    "and free variables followed through the reaching definitions of the enclosing function (self.x through the "
    "class's stores), no operand derived from filenode.get_size() may survive in its polynomial normal form "
    "(otherwise 'N-' with N >= size is 'unparseable' and gets 200 instead of 416), and an integer test must not "
    "refuse the spec whose numbers are all 0 ('-0', '0-', '0-0' are valid; '-0' is unsatisfiable, i.e. 416).  "
    "Undecided: leniency of int() on "
    "odd numerals other than a signed suffix-length ('+5', blanks, '1_0'), the answer to a non-zero suffix range of an "
    "empty file (206 with 'bytes 0--1/0'; RFC 7233 has no valid answer), a refusal decided inside a helper that is "
    "handed a size-derived value (reported as undecidable) or by an exception of a callee other than the explicit "
    "raise, the rest of the byte content delivered by filenode.read() for immutable "
    "and literal files (size forwarding, segment slicing and the per-chunk decryption in DecryptingConsumer.write are "
    "rules of C04/C01), zfec/AES of the mutable path, multipart "
    "responses (first range only, as the code documents), a byte-range-set split at another separator or with a "
    "maxsplit (reported as undecidable, not as a violation: int() refuses the ',' left in an element, so such a "
    "header is ignored as a whole), which files get an ETag and its value (ETag / If-None-Match is "
    "outside RFC 7233 ranges; render_HEAD sets none), content-type / content-encoding / content-disposition / "
    "accept-ranges values (only HEAD = GET is decided for them), the t=json/info/uri representations, what "
    "humanize_exception / _finish in web/common.py do with WebError.code and with a None result (only their "
    "independence of the request method is decided, rule 13; a method test that cannot be evaluated for b'HEAD' / "
    "b'GET' is reported as undecidable), headers twisted itself adds, the error path of the read Deferred (_error).")
TECHNIQUE = "static analysis: symbolic path enumeration over the CFG with polynomial normal forms (announced = served)"

DL = "web.filenode:FileDownloader"
_NORM = Normaliser(Env(None, depth=0))


# --------------------------------------------------------------- symbolic paths
class _Subst(ast.NodeTransformer):
    def __init__(self, env):
        self.env = env

    def visit_Name(self, node):
        if isinstance(node.ctx, ast.Load) and node.id in self.env:
            return copy.deepcopy(self.env[node.id])
        return node

    def visit_Lambda(self, node):
        return node


def _sub(env, e):
    return _Subst(env).visit(copy.deepcopy(e))


def _opaque(name, node):
    return ast.Name(id="%s@%d" % (name, node.id), ctx=ast.Load())


def _bind(env, target, value, node):
    if isinstance(target, ast.Name):
        env[target.id] = value if value is not None else _opaque(target.id, node)
    elif isinstance(target, (ast.Tuple, ast.List)):
        if isinstance(value, (ast.Tuple, ast.List)) and len(value.elts) == len(target.elts):
            for t, v in zip(target.elts, value.elts):
                _bind(env, t, v, node)
        else:
            for i, t in enumerate(target.elts):
                sub = None
                if value is not None and not isinstance(t, ast.Starred):
                    sub = ast.Subscript(value=value, slice=ast.Constant(value=i), ctx=ast.Load())
                _bind(env, t.value if isinstance(t, ast.Starred) else t, sub, node)


def _step(node, env):
    a = node.ast
    new = dict(env)
    if node.kind == "stmt":
        if isinstance(a, ast.Assign):
            v = _sub(env, a.value)
            for t in a.targets:
                _bind(new, t, v, node)
        elif isinstance(a, ast.AnnAssign) and a.value is not None:
            _bind(new, a.target, _sub(env, a.value), node)
        elif isinstance(a, ast.AugAssign) and isinstance(a.target, ast.Name):
            cur = env.get(a.target.id, ast.Name(id=a.target.id, ctx=ast.Load()))
            new[a.target.id] = ast.BinOp(left=copy.deepcopy(cur), op=a.op, right=_sub(env, a.value))
        elif isinstance(a, (ast.FunctionDef, ast.AsyncFunctionDef, ast.ClassDef)):
            new[a.name] = _opaque(a.name, node)
    elif node.kind == "iter":
        _bind(new, a.target, None, node)
    elif node.kind == "with":
        for it in a.items:
            if it.optional_vars is not None:
                _bind(new, it.optional_vars, None, node)
    elif node.kind == "except" and a.name:
        new[a.name] = _opaque(a.name, node)
    return new


class SymPath:
    def __init__(self, steps, end):
        self.steps = steps      # [(node, label_out, env_before)]
        self.end = end          # 'exit' | 'raise'

    def facts(self):
        out = []
        for (n, lab, env) in self.steps:
            if n.kind == "test" and isinstance(lab, tuple):
                out.append((_NORM.cmp(_sub(env, n.ast), lab[0] == "T"), n))
        return out


def sym_paths(fn, max_paths=6000):
    cfg = fn.cfg()
    out = []

    def dfs(node, env, steps, counts):
        if node.kind in ("exit", "raise"):
            out.append(SymPath(steps, node.kind))
            if len(out) > max_paths:
                raise AnalysisError("too many paths in %s" % fn.qual)
            return
        for (d, lab) in cfg.succ[node.id]:
            nxt = cfg.nodes[d]
            if counts.get(d, 0) >= 2:
                continue
            env2 = env if lab == "exc" else _step(node, env)
            c2 = dict(counts)
            c2[d] = c2.get(d, 0) + 1
            dfs(nxt, env2, steps + [(node, lab, env)], c2)
    dfs(cfg.entry, {}, [], {})
    return out


def nz(e):
    return _NORM.norm(e)


def _cmp_of(src_tpl, **kw):
    """Canonical fact of a comparison template over ASTs, e.g. _cmp_of('A < B', A=.., B=..)."""
    tree = parse_expr(src_tpl)
    env = {k: v for k, v in kw.items()}
    return _NORM.cmp(_sub(env, tree), True)


def _expr_of(src_tpl, **kw):
    return _sub(dict(kw), parse_expr(src_tpl))


_CONV = re.compile(r"%[#0\- +]*\d*(?:\.\d+)?[sdirxa]")


def fmt_parts(e):
    """(literal pieces, value ASTs) of a %-format / f-string / str.format expression, or None."""
    if isinstance(e, ast.BinOp) and isinstance(e.op, ast.Mod) and isinstance(e.left, ast.Constant) \
            and isinstance(e.left.value, (str, bytes)):
        tpl = e.left.value
        if isinstance(tpl, bytes):
            tpl = tpl.decode("latin-1")
        lits = _CONV.split(tpl)
        vals = list(e.right.elts) if isinstance(e.right, ast.Tuple) else [e.right]
        if len(lits) != len(vals) + 1:
            return None
        return lits, vals
    if isinstance(e, ast.JoinedStr):
        lits, vals, cur = [], [], ""
        for v in e.values:
            if isinstance(v, ast.Constant):
                cur += str(v.value)
            else:
                lits.append(cur)
                cur = ""
                vals.append(v.value)
        lits.append(cur)
        return lits, vals
    if isinstance(e, ast.Call) and isinstance(e.func, ast.Attribute) and e.func.attr == "format" \
            and isinstance(e.func.value, ast.Constant) and isinstance(e.func.value.value, str) and not e.keywords:
        lits = re.split(r"\{\d*\}", e.func.value.value)
        if len(lits) == len(e.args) + 1:
            return lits, list(e.args)
    return None


def unwrap(e):
    """Strip presentation wrappers: str(x), b'%d' % x, x.encode(..), '%s' % (x,)."""
    for _ in range(6):
        if isinstance(e, ast.Call) and isinstance(e.func, ast.Name) and e.func.id in ("str", "bytes", "repr") \
                and len(e.args) == 1 and not e.keywords:
            e = e.args[0]
            continue
        if isinstance(e, ast.Call) and isinstance(e.func, ast.Attribute) and e.func.attr in ("encode", "decode"):
            e = e.func.value
            continue
        p = fmt_parts(e)
        if p is not None and len(p[1]) == 1 and all(l.strip() == "" for l in p[0]):
            e = p[1][0]
            continue
        break
    return e


class Ev:
    def __init__(self, kind, node, **kw):
        self.kind = kind
        self.node = node
        self.pos = -1
        self.__dict__.update(kw)


def events(fn, path, req):
    """Ordered header/status/read/return/raise events of one symbolic path."""
    out = []
    for pos, (n, lab, env) in enumerate(path.steps):
        if lab == "exc" and not (n.kind == "stmt" and isinstance(n.ast, ast.Raise)):
            continue
        for c in node_calls(n):
            t = call_tail(c)
            if t == "setHeader" and len(c.args) >= 2 and isinstance(c.args[0], ast.Constant):
                name = c.args[0].value
                if isinstance(name, bytes):
                    name = name.decode("latin-1")
                out.append(Ev("header", n, name=str(name).lower(), value=_sub(env, c.args[1]), call=c))
            elif t == "setResponseCode" and c.args:
                out.append(Ev("status", n, code=nz(_sub(env, c.args[0])), call=c))
            elif t == "read" and nz(_sub(env, c.func)) == "self.filenode.read":
                off = arg(c, 1, "offset")
                sz = arg(c, 2, "size")
                out.append(Ev("read", n, call=c,
                              offset=_sub(env, off) if off is not None else ast.Constant(value=0),
                              size=_sub(env, sz) if sz is not None else ast.Constant(value=None)))
        if n.kind == "stmt" and isinstance(n.ast, ast.Return):
            out.append(Ev("return", n, value=_sub(env, n.ast.value) if n.ast.value is not None else None))
        if n.kind == "stmt" and isinstance(n.ast, ast.Raise):
            out.append(Ev("raise", n, exc=_sub(env, n.ast.exc) if n.ast.exc is not None else None))
        for e in out:
            if e.pos < 0:
                e.pos = pos
    return out


def _is_206(code):
    return code.endswith("PARTIAL_CONTENT") or code == "206"


def _status_args(idx, fn, e):
    """Arguments of the exception constructor call `e` that become the HTTP status.  When the class is indexed and
    its __init__ stores one of its parameters into self.code (web.common.WebError; humanize_exception answers
    exc.code), only the argument bound to that parameter counts; otherwise every argument is a candidate."""
    every = list(e.args) + [k.value for k in e.keywords]
    ci = idx.resolve_expr_to_class(fn.module, e.func)
    init = ci.lookup("__init__") if ci is not None else None
    if init is None:
        return every
    ps = first_positional_params(init)
    code_params = []
    for st in func_own_nodes(init):
        if isinstance(st, ast.Assign) and isinstance(st.value, ast.Name) and st.value.id in ps \
                and any(attr_path(t) == "self.code" for t in st.targets):
            code_params.append(st.value.id)
    if len(code_params) != 1:
        return every
    cp = code_params[0]
    if any(isinstance(a, ast.Starred) for a in e.args) or any(k.arg is None for k in e.keywords):
        return every
    i = ps.index(cp)
    if i < len(e.args):
        return [e.args[i]]
    return [k.value for k in e.keywords if k.arg == cp]


def _raises_416(ev, idx=None, fn=None):
    e = ev.exc
    if not isinstance(e, ast.Call):
        return False
    cands = _status_args(idx, fn, e) if idx is not None else list(e.args) + [k.value for k in e.keywords]
    for a in cands:
        s = nz(a)
        if s.endswith("REQUESTED_RANGE_NOT_SATISFIABLE") or s == "416":
            return True
    return False


def run(ctx: Context):
    idx = ctx.idx
    render = idx.func(DL + ".render")
    prh = idx.func(DL + ".parse_range_header")
    req = first_positional_params(render)[0]

    FS = parse_expr("self.filenode.get_size()")
    FS_s = nz(FS)
    P_re = re.compile(r"^self\.parse_range_header\(.+\)$")

    paths = sym_paths(render)
    evs = {id(p): events(render, p, req) for p in paths}

    def parse_state(p):
        """True: header parsed (positive fact on the parse result); False/None otherwise."""
        st = None
        for ((op, l, r), _n) in p.facts():
            if op in ("is not", "is") and "None" in (l, r):
                other = r if l == "None" else l
                if P_re.match(other):
                    st = (op == "is not")
            elif op in ("truth", "false") and P_re.match(l):
                st = (op == "truth")
        return st

    def range_of(p):
        """(F, L, T) ASTs of the last content-range header on the path, or None; 'bad' when undecodable."""
        crs = [e for e in evs[id(p)] if e.kind == "header" and e.name == "content-range"]
        if not crs:
            return None
        parts = fmt_parts(crs[-1].value)
        if parts is None or len(parts[1]) != 3:
            return "bad"
        lits, vals = parts
        if [x.strip().lower() for x in lits] != ["bytes", "-", "/", ""]:
            return "bad"
        return tuple(unwrap(v) for v in vals) + (crs[-1],)

    seen_msgs = set()

    def report(r, node, msg, p=None):
        key = (r.id, node.id if node is not None else -1, msg)
        if key in seen_msgs:
            return
        seen_msgs.add(key)
        w = None
        if p is not None:
            w = ["L%d%s %r" % (n.lineno, (" [%s]" % lab[0]) if isinstance(lab, tuple) else "", n)
                 for (n, lab, _e) in p.steps if n.kind not in ("entry",)]
        r.violation(render, render.loc(node.ast if node is not None else None), msg, w)

    # ---------------------------------------------------------------- C40.1
    with ctx.rule("C40.1", "E2/E6", "render: content-length = size given to filenode.read() = last-first+1 of the "
                  "(first,last) in content-range; read starts at first; total = file size; first/last clipped",
                  expected=3) as r:
        site_nodes = {}
        n_done = 0
        for p in paths:
            if p.end != "exit":
                continue
            es = evs[id(p)]
            rds = [e for e in es if e.kind == "read"]
            cls = [e for e in es if e.kind == "header" and e.name == "content-length"]
            n_done += 1
            r.count(len(p.steps))
            for e in rds[-1:] + cls[-1:]:
                site_nodes[e.node.id] = e
            last_node = p.steps[-1][0]
            if not cls:
                report(r, last_node, "a response is completed without a content-length header", p)
                continue
            if rds and cls[-1].pos >= rds[0].pos:
                report(r, cls[-1].node, "content-length is stored after filenode.read() was started", p)
            announced = nz(unwrap(cls[-1].value))
            rg = range_of(p)
            if rg == "bad":
                raise AnalysisError("content-range value is not a 'bytes %s-%s/%s' style format of three values")
            if rg is not None:
                F, L, T, crev = rg
                site_nodes[crev.node.id] = crev
                want = nz(_expr_of("L - F + 1", L=L, F=F))
                if announced != want:
                    report(r, cls[-1].node, "content-length announces %s but content-range announces %s..%s "
                           "(%s bytes)" % (announced, nz(F), nz(L), want), p)
                for e in rds:
                    if nz(e.offset) != nz(F):
                        report(r, e.node, "filenode.read() starts at %s but content-range announces first=%s" % (
                            nz(e.offset), nz(F)), p)
                    if nz(e.size) != want:
                        report(r, e.node, "filenode.read() is given size %s but the announced range %s..%s has %s "
                               "bytes" % (nz(e.size), nz(F), nz(L), want), p)
                if nz(T) != FS_s:
                    report(r, crev.node, "content-range total is %s, not the file size" % nz(T), p)
                # clipping of first / last
                facts = {f for (f, _n) in p.facts()}
                Fs, Ls = nz(F), nz(L)
                lo_ok = (isinstance(F, ast.Call) and call_name(F) == "max" and "0" in [nz(a) for a in F.args]) \
                    or Fs == "0" or _cmp_of("0 <= F", F=F) in facts or _cmp_of("-1 < F", F=F) in facts
                fsm1 = nz(_expr_of("T - 1", T=FS))
                hi_ok = (isinstance(L, ast.Call) and call_name(L) == "min" and fsm1 in [nz(a) for a in L.args]) \
                    or Ls == fsm1 or _cmp_of("L < T", L=L, T=FS) in facts or _cmp_of("L <= T - 1", L=L, T=FS) in facts
                if not lo_ok:
                    report(r, crev.node, "first (%s) is not clipped at 0: a suffix range longer than the file "
                           "announces a negative first byte" % Fs, p)
                if not hi_ok:
                    report(r, crev.node, "last (%s) is not clipped at filesize-1: a range reaching beyond "
                           "end-of-file announces more bytes than are served" % Ls, p)
                # the range served is the first parsed range
                pr = re.compile(r"self\.parse_range_header\(.+\)\[0\]\[(\d)\]")
                mF, mL = pr.search(Fs), pr.search(Ls)
                if Fs != "0" and not (mF and mF.group(1) == "0"):
                    report(r, crev.node, "first (%s) does not come from the parsed range's first position" % Fs, p)
                if Ls != fsm1 and not (mL and mL.group(1) == "1"):
                    report(r, crev.node, "last (%s) does not come from the parsed range's last position" % Ls, p)
            else:
                if announced != FS_s:
                    report(r, cls[-1].node, "content-length of a full-file response is %s, not the file size"
                           % announced, p)
                for e in rds:
                    if nz(e.offset) != "0" or nz(e.size) not in ("None", FS_s):
                        report(r, e.node, "full-file response reads (%s, %s) instead of (0, None)" % (
                            nz(e.offset), nz(e.size)), p)
        if n_done == 0:
            raise AnchorVanished("render has no completing path")
        for e in site_nodes.values():
            r.site(render, e.node.ast, e.kind + (" " + e.name if e.kind == "header" else ""))

    # ---------------------------------------------------------------- C40.2
    with ctx.rule("C40.2", "R1/R3", "render: 206 and content-range are set together, only for a parsed range with "
                  "first < filesize; 416 is raised under first >= filesize before them; no parsed range -> status "
                  "and content-range untouched", expected=3) as r:
        sites = {}
        saw416 = False
        for p in paths:
            es = evs[id(p)]
            sts = [e for e in es if e.kind == "status"]
            crs = [e for e in es if e.kind == "header" and e.name == "content-range"]
            r416 = [e for e in es if e.kind == "raise" and _raises_416(e, idx, render)]
            for e in sts + crs + r416:
                sites[e.node.id] = e
            parsed = parse_state(p)
            facts = [f for (f, _n) in p.facts()]
            # raw first position of the parsed range as it is compared with the file size
            Xs = [a for a in (_first_of_parse(p),) if a is not None]
            lt = set()
            ge = set()
            for x in Xs:
                for cand in (x, _expr_of("max(0, X)", X=x)):
                    lt |= {_cmp_of("X < T", X=cand, T=FS), _cmp_of("X <= T - 1", X=cand, T=FS)}
                    ge |= {_cmp_of("X >= T", X=cand, T=FS), _cmp_of("X > T - 1", X=cand, T=FS)}
            for e in sts:
                if not _is_206(e.code):
                    report(r, e.node, "render sets status %s (only 206 Partial Content belongs here)" % e.code, p)
            if p.end == "exit":
                if bool(sts) != bool(crs):
                    n = (sts or crs)[0].node
                    report(r, n, "206 status and content-range are not set together (status: %s, content-range: %s)"
                           % ("set" if sts else "missing", "set" if crs else "missing"), p)
                if parsed and not (sts and crs):
                    report(r, p.steps[-1][0], "a parsed range is answered without 206 + content-range", p)
            if sts or crs:
                n = (sts + crs)[0].node
                if not parsed:
                    report(r, n, "206/content-range are produced although the range header was absent or did "
                           "not parse (it must be ignored)", p)
                elif not (set(facts) & lt):
                    report(r, n, "206/content-range are produced without having established first < filesize "
                           "(a range starting at or beyond end-of-file must give 416)", p)
            for e in r416:
                saw416 = True
                before = es[:es.index(e)]
                if any(b.kind == "status" or (b.kind == "header" and b.name == "content-range") for b in before):
                    report(r, e.node, "416 is raised after 206/content-range were already set", p)
                if not parsed or not (set(facts) & ge):
                    report(r, e.node, "416 is raised on a path that did not establish first >= filesize for a "
                           "parsed range", p)
            if parsed and (set(facts) & ge) and not r416:
                report(r, p.steps[-1][0], "first >= filesize does not end in a 416 response", p)
        if not saw416:
            r.violation(render, render.loc(), "no path of render raises 416 Requested Range Not Satisfiable")
        for e in sites.values():
            r.site(render, e.node.ast, e.kind)
        r.count(len(paths))

    # ---------------------------------------------------------------- C40.3
    with ctx.rule("C40.3", "R1/R2", "render: HEAD returns an empty body, never calls filenode.read(), and has stored "
                  "exactly the headers/status of the corresponding GET path", expected=1) as r:
        head_T = _cmp_of("M == b'HEAD'", M=parse_expr("%s.method" % req))
        head_F = _cmp_of("M != b'HEAD'", M=parse_expr("%s.method" % req))

        def sig(p):
            es = evs[id(p)]
            hs = {}
            for e in es:
                if e.kind == "header":
                    hs[e.name] = nz(e.value)
            return (tuple(e.code for e in es if e.kind == "status"), tuple(sorted(hs.items())))
        heads, gets = [], []
        test_nodes = {}
        for p in paths:
            if p.end != "exit":
                continue
            fs = p.facts()
            isH = [n for (f, n) in fs if f == head_T]
            for n in isH + [n for (f, n) in fs if f == head_F]:
                test_nodes[n.id] = n
            (heads if isH else gets).append(p)
        if not heads:
            raise AnchorVanished("render has no `%s.method == b'HEAD'` branch" % req)
        for n in test_nodes.values():
            r.site(render, n.ast, "HEAD test")
        for p in heads:
            es = evs[id(p)]
            for e in es:
                if e.kind == "read":
                    report(r, e.node, "a HEAD request starts filenode.read()", p)
            rets = [e for e in es if e.kind == "return"]
            v = rets[-1].value if rets else None
            if not (isinstance(v, ast.Constant) and v.value in (b"", "")):
                report(r, (rets[-1].node if rets else p.steps[-1][0]),
                       "the HEAD branch returns %s, not an empty body" % (nz(v) if v is not None else "None"), p)
        for p in gets:
            if not [e for e in evs[id(p)] if e.kind == "read"]:
                # a completing non-HEAD path that serves nothing: only the ETag-less early returns would do that
                report(r, p.steps[-1][0], "a GET path completes without calling filenode.read()", p)
        hs, gs = {sig(p): p for p in heads}, {sig(p): p for p in gets}
        for s, p in gs.items():
            if s not in hs:
                near = _nearest(s, hs)
                report(r, p.steps[-1][0], "GET path announces status/headers that no HEAD path announces: %s" % near, p)
        for s, p in hs.items():
            if s not in gs:
                near = _nearest(s, gs)
                report(r, p.steps[-1][0], "HEAD path announces status/headers that no GET path announces: %s" % near, p)
        r.count(len(heads) + len(gets))

    # ---------------------------------------------------------------- C40.4
    with ctx.rule("C40.4", "R1", "parse_range_header: a range list is returned only for units == 'bytes'; the split and "
                  "the parse_range calls run inside the try whose ValueError handler returns None", expected=4) as r:
        cfg = prh.cfg()
        fnorm = FlowNorm(prh)
        param = first_positional_params(prh)[0]
        units_re = re.compile(r"^%s\.split\('=', 1\)\[0\]$" % re.escape(param))

        def is_bytes(n, lab):
            f = fnorm.edge_fact(n, lab)
            if not f or f[0] != "==":
                return False
            sides = [f[1], f[2]]
            return "'bytes'" in sides and any(units_re.match(s) for s in sides)

        def returns_value(n):
            return is_return(n) and n.ast.value is not None and not (
                isinstance(n.ast.value, ast.Constant) and n.ast.value.value is None)
        rv = cfg.find(returns_value)
        if not rv:
            raise AnchorVanished("parse_range_header returns no range list")
        for n in rv:
            r.site(prh, n.ast, "range list returned")
        for (n, w) in find_path_avoiding(cfg, returns_value, gate_edge=is_bytes):
            r.violation(prh, prh.loc(n.ast), "a range list is returned without having checked units == 'bytes' "
                        "(other range units must be ignored) (path: %s)" % w.brief(), w)
        r.count(len(cfg.nodes))
        # ValueError handler
        hs = [n for n in cfg.nodes if n.kind == "except" and C._default_exc_match("ValueError", n.ast.type) is True]
        if not hs:
            r.violation(prh, prh.loc(), "parse_range_header has no handler for ValueError: a malformed Range "
                        "header is not ignored")
        for h in hs:
            r.site(prh, h.ast, "ValueError handler")
            visited, parent = explore(cfg, 0, lambda a, b, c, s: 0, start=h)
            for (nid, _s) in sorted(visited):
                m = cfg.nodes[nid]
                if is_raise(m) or returns_value(m):
                    r.violation(prh, prh.loc(m.ast), "the ValueError handler does not answer None (header must be "
                                "ignored): %s" % src(prh, m.ast), witness(cfg, parent, (nid, 0)))
        hid = {h.id for h in hs}

        def protected(n):
            return any(lab == "exc" and d in hid for (d, lab) in cfg.succ[n.id])
        def mentions_parse_range(n):
            return not isinstance(n.ast, (ast.FunctionDef, ast.AsyncFunctionDef)) and any(
                isinstance(x, ast.Name) and x.id == "parse_range" and isinstance(x.ctx, ast.Load)
                for x in ast.walk(n.ast))
        must = [n for n in cfg.nodes if n.kind in ("stmt", "test") and (
            has_call("parse_range", into_lambda=False)(n) or mentions_parse_range(n) or any(
                call_tail(c) == "split" and nz(c.func.value) == param for c in node_calls(n)
                if isinstance(c.func, ast.Attribute)))]
        if not must:
            raise AnchorVanished("no split / parse_range call in parse_range_header")
        for n in must:
            r.site(prh, n.ast, "inside try")
            if hs and not protected(n):
                r.violation(prh, prh.loc(n.ast), "%s runs outside the try that turns ValueError into None" %
                            src(prh, n.ast))

    # ---------------------------------------------------------------- C40.5
    with ctx.rule("C40.5", "E2", "parse_range: '-n' -> (filesize-int(n), filesize-1); 'a-' -> (int(a), filesize-1); "
                  "'a-b' -> (int(a), int(b)) and only when int(a) <= int(b); '-n' only when a signed n was refused; "
                  "every raise is a ValueError", expected=3) as r:
        pr = prh.nested.get("parse_range")
        if pr is None:
            raise AnchorVanished("parse_range_header.parse_range")
        rp = first_positional_params(pr)[0]
        # the free variable used for the file size
        outer = unique_defs(prh)
        fsname = [k for k, v in outer.items() if nz(v) == FS_s]
        if not fsname:
            raise AnchorVanished("parse_range_header no longer binds self.filenode.get_size()")
        fsz = ast.Name(id=fsname[0], ctx=ast.Load())
        RF = parse_expr("%s.split('-', 1)[0]" % rp)
        RL = parse_expr("%s.split('-', 1)[1]" % rp)
        empty = lambda x: _cmp_of("X == ''", X=x)
        nonempty = lambda x: _cmp_of("X != ''", X=x)
        want = {
            "suffix": (_expr_of("S - int(B)", S=fsz, B=RL), _expr_of("S - 1", S=fsz)),
            "open": (_expr_of("int(A)", A=RF), _expr_of("S - 1", S=fsz)),
            "closed": (_expr_of("int(A)", A=RF), _expr_of("int(B)", B=RL)),
        }
        seen_cls = {}
        ppaths = sym_paths(pr)
        hs_types = [n.ast.type for n in prh.cfg().nodes if n.kind == "except"]
        for p in ppaths:
            r.count(len(p.steps))
            facts = {f for (f, _n) in p.facts()}
            es = events(pr, p, rp)
            if p.end == "raise":
                for e in es:
                    if e.kind == "raise":
                        nm = C._exc_name(e.node.ast.exc)
                        if not any(C._default_exc_match(nm, t) is True for t in hs_types):
                            r.violation(pr, pr.loc(e.node.ast), "parse_range raises %s, which the ValueError handler of "
                                        "parse_range_header does not turn into None" % (nm or "an unknown exception"))
                continue
            rets = [e for e in es if e.kind == "return"]
            v = rets[-1].value if rets else None
            node = rets[-1].node if rets else p.steps[-1][0]
            if not (isinstance(v, ast.Tuple) and len(v.elts) == 2):
                r.violation(pr, pr.loc(node.ast), "parse_range returns %s, not a (first, last) pair" % (
                    nz(v) if v is not None else "None"))
                continue
            A, B = v.elts
            if empty(RF) in facts:
                cls = "suffix"
            elif nonempty(RF) in facts and empty(RL) in facts:
                cls = "open"
            elif nonempty(RF) in facts and nonempty(RL) in facts:
                cls = "closed"
            else:
                r.violation(pr, pr.loc(node.ast), "a pair is returned on a path that did not distinguish "
                            "suffix / open-ended / closed byte-range-specs")
                continue
            seen_cls[cls] = node
            wa, wb = want[cls]
            if nz(A) != nz(wa) or nz(B) != nz(wb):
                r.violation(pr, pr.loc(node.ast), "%s byte-range-spec yields (%s, %s); RFC 7233 requires (%s, %s)" % (
                    cls, nz(A), nz(B), nz(wa), nz(wb)))
            ordered = _cmp_of("A <= B", A=A, B=B) in facts or _cmp_of("A < B + 1", A=A, B=B) in facts
            # Only an explicit last-byte-pos can make the spec invalid (RFC 7233 2.1).  For '-n' and 'a-' the last
            # position is computed from the file size: demanding first <= last there would demand the very defect
            # rule C40.15 reports (an unsatisfiable range turned into an unparseable one).
            if cls == "closed" and not ordered:
                r.violation(pr, pr.loc(node.ast), "a %s range is returned without having established first <= last "
                            "(an inverted range must invalidate the header)" % cls)
            if cls == "suffix":
                # int() accepts a sign: '--5' would become the range (filesize+5, filesize-1) and be answered 416
                # instead of being ignored.  Some test on this path must go the other way for a suffix-length of -1
                # (whatever the file size), or look at the digits themselves.
                digits = {_cmp_of(t, B=RL) for t in ("B.isdigit()", "B.isdecimal()", "not B.startswith('-')",
                                                     "'-' not in B", "B[0] != '-'", "B[:1] != '-'")}
                refused, opaque = bool(facts & digits), []
                for (n, lab, env) in p.steps:
                    if refused or n.kind != "test" or not isinstance(lab, tuple):
                        continue
                    t = _sub(env, n.ast)
                    try:
                        vals = {bool(_ieval(_at_point(pr, t, -1, k))) for k in _SIZES}
                    except _NoEval:
                        if nz(RL) in nz(t):
                            opaque.append(n)
                        continue
                    refused = (lab[0] == "T") not in vals
                if not refused and opaque:
                    raise AnalysisError("C40.5: cannot decide whether the tests on the suffix-length (%s) refuse a "
                                        "signed number" % ", ".join(src(pr, n.ast) for n in opaque))
                if not refused:
                    r.violation(pr, pr.loc(node.ast), "a suffix range is returned without having refused a signed "
                                "suffix-length: int() accepts '-5', so the garbage header 'bytes=--5' becomes the range "
                                "(filesize+5, filesize-1) and is answered 416 instead of being ignored")
        for cls, node in seen_cls.items():
            r.site(pr, node.ast, cls)

    # ---------------------------------------------------------------- C40.6
    with ctx.rule("C40.6", "R2/E7", "FileNodeHandler.render_HEAD and the plain render_GET answer through the same "
                  "FileDownloader built on get_best_readable_version(); every HEAD answer goes through it",
                  expected=2) as r:
        for meth, every_exit in (("render_HEAD", True), ("render_GET", False)):
            fn = idx.func("web.filenode:FileNodeHandler." + meth)
            cfg = fn.cfg()
            fnorm = FlowNorm(fn)

            def wraps(n, _fn=fn):
                for c in node_calls(n):
                    if call_tail(c) in ("addCallback", "addCallbacks") and c.args and isinstance(c.args[0], ast.Lambda):
                        lam = c.args[0]
                        b = lam.body
                        if isinstance(b, ast.Call) and call_tail(b) == "FileDownloader" and b.args \
                                and lam.args.args and isinstance(b.args[0], ast.Name) \
                                and b.args[0].id == lam.args.args[0].arg:
                            recv = c.func.value
                            if fnorm.norm(n, recv) == "self.node.get_best_readable_version()":
                                return True
                return False
            ws = cfg.find(wraps)
            if not ws:
                r.violation(fn, fn.loc(), "%s does not answer with FileDownloader(<best readable version>, ..): HEAD "
                            "and GET no longer share the header logic" % meth)
                continue
            for n in ws:
                r.site(fn, n.ast, "FileDownloader on best readable version")
            # the Deferred carrying the FileDownloader is what is returned
            for n in ws:
                recvs = [c.func.value for c in node_calls(n) if call_tail(c) in ("addCallback", "addCallbacks")]
                dv = [attr_path(x) for x in recvs]
                origin = [fnorm.resolve(n, x) for x in recvs]

                def returns_it(m, _dv=dv, _origin=origin, _fnorm=fnorm):
                    # the same Deferred object: the same variable, or a plain-name copy of the same defining call
                    if not is_return(m) or m.ast.value is None:
                        return False
                    o = _fnorm.resolve(m, m.ast.value)
                    if isinstance(o, ast.Call) and all(isinstance(x, ast.Call) for x in _origin):
                        return any(o is x for x in _origin)
                    return attr_path(m.ast.value) in _dv
                rets = find_path_from_to_avoiding(cfg, lambda m, _n=n: m is _n, returns_it)
                for (s0, w) in rets:
                    r.violation(fn, fn.loc(s0.ast), "the Deferred carrying the FileDownloader is not what %s returns"
                                % meth, w)
            if every_exit:
                for (n, w) in find_path_avoiding(cfg, lambda m: m.kind == "exit", gate_node=wraps):
                    r.violation(fn, fn.loc(), "a HEAD request can be answered without FileDownloader.render "
                                "(status/headers differ from GET) (path: %s)" % w.brief(), w)
            r.count(len(cfg.nodes))

    # ---------------------------------------------------------------- C40.7
    with ctx.rule("C40.7", "E2/R1", "render: parse_range_header is applied to the request's Range header, and a "
                  "response is completed without parsing only when that header is absent", expected=2) as r:
        def is_range_hdr(e):
            if not (isinstance(e, ast.Call) and call_tail(e) == "getHeader" and isinstance(e.func, ast.Attribute)
                    and nz(e.func.value) == req and len(e.args) == 1 and not e.keywords
                    and isinstance(e.args[0], ast.Constant)):
                return False
            v = e.args[0].value
            if isinstance(v, bytes):
                v = v.decode("latin-1")
            return isinstance(v, str) and v.lower() == "range"
        sites = {}
        n_parse = 0
        for p in paths:
            parsed_here = False
            absent = None
            for (n, lab, env) in p.steps:
                if lab == "exc":
                    continue
                for c in node_calls(n):
                    if call_tail(c) == "parse_range_header" and isinstance(c.func, ast.Attribute) \
                            and nz(c.func.value) == "self":
                        parsed_here = True
                        n_parse += 1
                        sites[n.id] = (n, "parse_range_header call")
                        a = arg(c, 0, first_positional_params(prh)[0])
                        a = _sub(env, a) if a is not None else None
                        if a is None or not is_range_hdr(a):
                            report(r, n, "parse_range_header is applied to %s, not to %s.getHeader('range')" % (
                                nz(a) if a is not None else "nothing", req), p)
                if n.kind == "test" and isinstance(lab, tuple):
                    t = _sub(env, n.ast)
                    hs = {nz(x) for x in ast.walk(t) if is_range_hdr(x)}
                    if hs:
                        (op, l, rr) = _NORM.cmp(t, lab[0] == "T")
                        if (op == "false" and l in hs) or (op in ("is", "==") and {l, rr} & hs
                                                           and {l, rr} & {"None", "''", "b''"}):
                            absent = n
            if absent is not None:
                sites[absent.id] = (absent, "Range header absent")
            if p.end == "exit" and not parsed_here and absent is None:
                report(r, p.steps[-1][0], "a response is completed without parsing the Range header on a path that "
                       "did not establish that the header is absent (a range request is answered with the full file)",
                       p)
            r.count(len(p.steps))
        if not n_parse:
            raise AnchorVanished("render no longer calls self.parse_range_header")
        for (n, what) in sites.values():
            r.site(render, n.ast, what)

    # ---------------------------------------------------------------- C40.8
    with ctx.rule("C40.8", "E7", "render (GET): what is returned is the Deferred of filenode.read(), and its success "
                  "result (the consumer) is mapped to None/empty so that nothing follows the bytes read() wrote",
                  expected=2) as r:
        def is_read_call(e):
            return isinstance(e, ast.Call) and call_tail(e) == "read" and nz(e.func) == "self.filenode.read"

        def answers_nothing(t):
            """True/False when decidable, None otherwise: the callable maps a success result to None / empty."""
            def empty(v):
                return v is None or (isinstance(v, ast.Constant) and v.value in (None, b"", ""))
            if isinstance(t, ast.Lambda):
                return empty(t.body)
            if isinstance(t, ast.Name):
                f = render.nested.get(t.id.split("@")[0])
                if f is not None:
                    if any(isinstance(x, (ast.Yield, ast.YieldFrom, ast.Await)) for x in func_own_nodes(f)):
                        return None
                    return all(empty(x.value) for x in func_own_nodes(f) if isinstance(x, ast.Return))
            return None
        sites = {}
        n_get = 0
        for p in paths:
            if p.end != "exit":
                continue
            es = evs[id(p)]
            rds = [e for e in es if e.kind == "read"]
            if not rds:
                continue
            n_get += 1
            r.count(len(p.steps))
            sites[rds[0].node.id] = (rds[0].node, "read")
            rets = [e for e in es if e.kind == "return"]
            last = p.steps[-1][0]
            if not rets or rets[-1].value is None:
                report(r, last, "a GET path that started filenode.read() returns nothing: the response is finished "
                       "while read() is still delivering the body", p)
                continue
            sites[rets[-1].node.id] = (rets[-1].node, "return")
            base, _chain = _unchain(rets[-1].value)
            if not is_read_call(base):
                report(r, rets[-1].node, "a GET path returns %s, not the Deferred of filenode.read(): the response is "
                       "finished independently of the body delivery" % nz(rets[-1].value), p)
                continue
            regs = []
            for pos, (n, lab, env) in enumerate(p.steps):
                if lab == "exc" or pos < rds[0].pos:
                    continue
                for c in node_calls(n):
                    if call_tail(c) not in REG:
                        continue
                    b, chain = _unchain(_sub(env, c))
                    if not chain or not is_read_call(b):
                        continue
                    c2 = chain[-1]
                    kind = REG[c2.func.attr]
                    tgt = c2.args[0] if c2.args else kwarg(c2, "callback")
                    if kind == "eb" or tgt is None:
                        continue
                    regs.append(((pos, len(chain)), tgt, n))
            regs.sort(key=lambda x: x[0])
            if not regs:
                report(r, rets[-1].node, "the Deferred of filenode.read() is returned with its result (the consumer, "
                       "i.e. the request) unmapped: the renderer appends an error text after the body", p)
                continue
            _k, tgt, n = regs[-1]
            ok = answers_nothing(tgt)
            if ok is None:
                raise AnalysisError("cannot resolve the final success callback %s of the read Deferred" % nz(tgt))
            if not ok:
                report(r, n, "the final success callback of the read Deferred (%s) does not answer None/empty: "
                       "something is appended after the bytes read() wrote" % ast.unparse(tgt), p)
        if not n_get:
            raise AnchorVanished("render has no completing path that calls filenode.read()")
        for (n, what) in sites.values():
            r.site(render, n.ast, what)

    # ---------------------------------------------------------------- C40.9
    with ctx.rule("C40.9", "E2/R1", "FileNodeHandler.render_GET / render_HEAD: a request without t= is answered by the "
                  "FileDownloader (or by a satisfied conditional request via setETag), never by an error or another "
                  "representation", expected=2) as r:
        def is_t(e):
            for _ in range(6):
                if isinstance(e, ast.Call) and isinstance(e.func, ast.Attribute) \
                        and e.func.attr in ("strip", "decode", "encode", "lower"):
                    e = e.func.value
                elif isinstance(e, ast.Call) and isinstance(e.func, ast.Name) and e.func.id in ("str", "bytes") and e.args:
                    e = e.args[0]
                else:
                    break
            if not (isinstance(e, ast.Call) and call_tail(e) == "get_arg" and len(e.args) >= 2):
                return False
            k = e.args[1]
            if not (isinstance(k, ast.Constant) and k.value in ("t", b"t")):
                return False
            dflt = arg(e, 2, "default")
            return dflt is None or (isinstance(dflt, ast.Constant) and not dflt.value)

        def is_empty_const(e):
            return isinstance(e, ast.Constant) and e.value in ("", b"")

        def value_without_t(t):
            """Truth value of an atomic test when the request has no t= argument; None when it does not decide."""
            if is_t(t):
                return False
            if isinstance(t, ast.UnaryOp) and isinstance(t.op, ast.Not):
                v = value_without_t(t.operand)
                return None if v is None else (not v)
            if isinstance(t, ast.Compare) and len(t.ops) == 1:
                a, op, b = t.left, t.ops[0], t.comparators[0]
                if isinstance(op, (ast.Eq, ast.NotEq)):
                    other = b if is_t(a) else (a if is_t(b) else None)
                    if isinstance(other, ast.Constant) and isinstance(other.value, (str, bytes)):
                        eq = is_empty_const(other)
                        return eq if isinstance(op, ast.Eq) else (not eq)
                if isinstance(op, (ast.In, ast.NotIn)) and is_t(a) and isinstance(b, (ast.List, ast.Tuple, ast.Set)) \
                        and all(isinstance(x, ast.Constant) for x in b.elts):
                    has = any(is_empty_const(x) for x in b.elts)
                    return has if isinstance(op, ast.In) else (not has)
            return None

        for meth in ("render_HEAD", "render_GET"):
            fn = idx.func("web.filenode:FileNodeHandler." + meth)

            def wraps9(n):
                for c in node_calls(n):
                    if call_tail(c) in ("addCallback", "addCallbacks") and c.args and isinstance(c.args[0], ast.Lambda) \
                            and isinstance(c.args[0].body, ast.Call) and call_tail(c.args[0].body) == "FileDownloader":
                        return True
                return False
            through = 0
            t_tests = {}
            done = set()
            for p in sym_paths(fn):
                feasible = True
                cached = False
                for (n, lab, env) in p.steps:
                    if n.kind == "test" and isinstance(lab, tuple):
                        t = _sub(env, n.ast)
                        v = value_without_t(t)
                        if v is not None:
                            t_tests[n.id] = n
                            if v != (lab[0] == "T"):
                                feasible = False
                                break
                        if lab[0] == "T" and isinstance(t, ast.Call) and call_tail(t) == "setETag":
                            cached = True
                if not feasible:
                    continue
                r.count(len(p.steps))
                if any(wraps9(n) for (n, _l, _e) in p.steps):
                    through += 1
                    continue
                last = p.steps[-1][0]
                if last.id in done:
                    continue
                w = ["L%d%s %r" % (n.lineno, (" [%s]" % lab[0]) if isinstance(lab, tuple) else "", n)
                     for (n, lab, _e) in p.steps if n.kind not in ("entry",)]
                if p.end == "exit" and not cached:
                    done.add(last.id)
                    r.violation(fn, fn.loc(last.ast), "%s answers a request without t= without the FileDownloader and "
                                "without a satisfied conditional request (setETag): the download is not served" % meth, w)
                elif p.end == "raise" and is_raise(last):
                    done.add(last.id)
                    r.violation(fn, fn.loc(last.ast), "%s answers a request without t= with an error (%s)" % (
                        meth, src(fn, last.ast)), w)
            if not t_tests:
                raise AnchorVanished("%s no longer dispatches on the t= argument" % meth)
            if not through:
                r.violation(fn, fn.loc(), "no path of %s serves a request without t= through the FileDownloader" % meth)
            r.site(fn, fn.node, "dispatch on t=")

    # ---------------------------------------------------------------- C40.10
    with ctx.rule("C40.10", "R1/E2", "parse_range_header: the range list it returns is parse_range applied to EVERY "
                  "element of the byte-range-set (the part after 'bytes=' split at every ','), so one malformed or "
                  "inverted byte-range-spec anywhere in the set makes the whole header ignored", expected=1) as r:
        _every_spec(r, prh)

    # ---------------------------------------------------------------- C40.11
    with ctx.rule("C40.11", "E2", "mutable files: MutableFileVersion.read(consumer, offset, size) reaches "
                  "Retrieve.download with the same consumer, offset and size (through _do_serialized and _read)",
                  expected=2) as r:
        _mutable_read_forwarding(r, idx)

    # ---------------------------------------------------------------- C40.12
    # The body of a 206 answer for a mutable file is what Retrieve delivers for (offset, size): the segments fetched
    # are those of the requested range, each decoded segment is cut to the length it has in the FILE (the tail length
    # only for the file's last segment), the first / last segment of the READ are cut to the range, and download()
    # starts exactly that range.  Those are rules of C09 (mutable segment arithmetic); they are adopted here because
    # announced = served (C40.1) is void if the bytes behind read(offset, size) are not the announced ones.
    ctx.include("C09", ["C09.5", "C09.8", "C09.12", "C09.18"], "C40.12")

    # ---------------------------------------------------------------- C40.13
    with ctx.rule("C40.13", "R2/E2", "error path (416 and every other error answer of a render method): in web.common "
                  "_finish, _renderHTTP_exception (with the helpers it hands the request to) and the render_exception "
                  "wrapper, the status / headers stored on the request do not depend on request.method - every HEAD path "
                  "stores what a compatible GET path stores", expected=3) as r:
        _error_path_head_equals_get(r, idx)

    # ---------------------------------------------------------------- C40.14
    with ctx.rule("C40.14", "E2", "immutable files: on every path of DecryptingConsumer.__init__ the decryptor kept in "
                  "self._decryptor stands at the read offset - block counter offset // 16 (the default IV only where "
                  "offset // 16 == 0 was established) and offset % 16 keystream bytes consumed (none only where offset % "
                  "16 == 0 was established); ImmutableFileNode.read gives that same offset to the ciphertext read",
                  expected=3) as r:
        _decryptor_positioned(r, idx)

    # ---------------------------------------------------------------- C40.15
    with ctx.rule("C40.15", "E2/R1", "parse_range_header / parse_range: whether a byte-range-spec is refused (ValueError / "
                  "the None that makes render ignore the header) is decided by the header text alone - no test that "
                  "separates a refusing path from an accepting one may involve a value derived from the file size, so that "
                  "a valid but unsatisfiable spec ('N-' with N >= size, '-0') reaches render's 416 test", expected=3) as r:
        _refusal_is_about_the_text(r, prh)


# ------------------------------------------------------------------ C40.10
_STRIPS = ("strip", "lstrip", "rstrip")


def _strip_unwrap(e):
    """x.strip() / x.lstrip() / x.rstrip(..) -> x (whitespace around list elements is not significant)."""
    while isinstance(e, ast.Call) and isinstance(e.func, ast.Attribute) and e.func.attr in _STRIPS and not e.keywords:
        e = e.func.value
    return e


def _every_spec(r, prh):
    cfg = prh.cfg()
    fnorm = FlowNorm(prh)
    param = first_positional_params(prh)[0]
    pr = prh.nested.get("parse_range")
    if pr is None:
        raise AnchorVanished("parse_range_header.parse_range")
    # the byte-range-set: everything behind the first '='
    set_forms = {norm_src("%s.split('=', 1)[1]" % param), norm_src("%s.partition('=')[2]" % param)}

    def is_parse_range(f):
        return isinstance(f, ast.Name) and f.id == pr.name

    def spec_of(call, target):
        """'ok' when `call` is parse_range(<target, possibly stripped>); otherwise a description / None (undecided)."""
        if not (isinstance(call, ast.Call) and is_parse_range(call.func)):
            return None
        a = arg(call, 0, first_positional_params(pr)[0])
        if a is None:
            return None
        base = _strip_unwrap(a)
        if isinstance(base, ast.Name) and base.id == target:
            return "ok"
        if target not in {x.id for x in ast.walk(a) if isinstance(x, ast.Name)}:
            return "parse_range is applied to %s, not to the element of the byte-range-set" % ast.unparse(a)
        return None

    def set_base(node, x):
        """True when x denotes the whole byte-range-set of the header."""
        s = fnorm.norm(node, _strip_unwrap(x))
        if s in set_forms:
            return True
        y = _strip_unwrap(fnorm.resolve(node, _strip_unwrap(x)))
        return y is not x and fnorm.norm(node, y) in set_forms

    rdefs = C.reaching_defs(cfg)
    _MUT = ("append", "extend", "insert", "pop", "remove", "sort", "reverse", "clear", "__setitem__", "__delitem__")

    def res(node, e):
        """fnorm.resolve, continued through a list / comprehension bound once to a local that is never mutated
        (FlowNorm does not substitute mutable displays)."""
        for _ in range(4):
            e = fnorm.resolve(node, e)
            if not isinstance(e, ast.Name):
                break
            ds = rdefs.get(node.id, {}).get(e.id)
            if not ds or len(ds) != 1:
                break
            (d,) = tuple(ds)
            if d == C.PARAM_DEF:
                break
            v = assign_value(cfg.nodes[d], e.id)
            if v is None:
                break
            touched = any(isinstance(x, ast.Attribute) and attr_path(x.value) == e.id and x.attr in _MUT
                          for x in func_own_nodes(prh)) or any(
                (e.id + "[]") in node_stores(m) for m in cfg.nodes) or any(
                isinstance(x, ast.Delete) for x in func_own_nodes(prh))
            if touched:
                break
            node, e = cfg.nodes[d], v
        return e

    def elements(node, e, depth=0):
        """('all', None) when e denotes every element of the byte-range-set; ('partial', why) when it provably
        denotes fewer / other elements; (None, why) when undecided."""
        if depth > 4:
            return (None, "nesting too deep")
        e = res(node, e)
        if isinstance(e, ast.Call) and isinstance(e.func, ast.Name) and e.func.id in ("list", "tuple", "iter") \
                and len(e.args) == 1 and not e.keywords:
            return elements(node, e.args[0], depth + 1)
        if isinstance(e, ast.Call) and isinstance(e.func, ast.Attribute) and e.func.attr == "split":
            sep = arg(e, 0, "sep")
            # another separator / a maxsplit leaves ',' inside an element, which int() in parse_range refuses:
            # such a header is ignored as a whole (allowed), so that is not a violation - but not decided here
            if not (isinstance(sep, ast.Constant) and sep.value in (",", b",")):
                return (None, "the byte-range-set is split at %s, not at ','" % (
                    ast.unparse(sep) if sep is not None else "whitespace"))
            ms = arg(e, 1, "maxsplit")
            if ms is not None and not (isinstance(ms, ast.UnaryOp) and isinstance(ms.op, ast.USub)):
                return (None, "the byte-range-set is split with maxsplit=%s" % ast.unparse(ms))
            if not set_base(node, e.func.value):
                return ("partial", "what is split at ',' is %s, not the byte-range-set behind 'bytes='" %
                        fnorm.norm(node, e.func.value))
            return ("all", None)
        if isinstance(e, (ast.ListComp, ast.GeneratorExp)) and len(e.generators) == 1 \
                and isinstance(e.generators[0].target, ast.Name) and not e.generators[0].ifs:
            g = e.generators[0]
            b = _strip_unwrap(e.elt)
            if isinstance(b, ast.Name) and b.id == g.target.id:
                return elements(node, g.iter, depth + 1)
            return (None, "elements are transformed by %s" % ast.unparse(e.elt))
        if isinstance(e, ast.Subscript):
            return ("partial", "only %s of the byte-range-set is looked at" % ast.unparse(e))
        if isinstance(e, (ast.List, ast.Tuple)):
            return ("partial", "a fixed number of byte-range-specs (%s) is looked at" % ast.unparse(e))
        return (None, "cannot tell which elements %s denotes" % ast.unparse(e))

    def filter_ok(ifs, target):
        """Only empty list elements may be skipped (RFC 7230 #rule); any other filter drops specs unvalidated."""
        for t in ifs:
            b = _strip_unwrap(t)
            if not (isinstance(b, ast.Name) and b.id == target):
                return False
        return True

    def returns_value(n):
        return is_return(n) and n.ast.value is not None and not (
            isinstance(n.ast.value, ast.Constant) and n.ast.value.value is None)

    rv = cfg.find(returns_value)
    if not rv:
        raise AnchorVanished("parse_range_header returns no range list")
    r.count(len(cfg.nodes))

    def undecided(n, why):
        raise AnalysisError("C40.10: cannot decide whether %s (L%d) holds parse_range of every byte-range-spec: %s" % (
            src(prh, n.ast.value), n.ast.lineno, why))

    def check_map(n, elt_call, target, it, ifs):
        s = spec_of(elt_call, target)
        if s is None:
            undecided(n, "element expression %s" % ast.unparse(elt_call))
        if s != "ok":
            r.violation(prh, prh.loc(n.ast), s)
            return
        if not filter_ok(ifs, target):
            r.violation(prh, prh.loc(n.ast), "byte-range-specs are filtered by `%s` before they are parsed: the ones "
                        "left out are not validated, a bad one no longer invalidates the header" %
                        " and ".join(ast.unparse(t) for t in ifs))
            return
        kind, why = elements(n, it)
        if kind is None:
            undecided(n, why)
        if kind == "partial":
            r.violation(prh, prh.loc(n.ast), "not every byte-range-spec of the header is parsed (%s): a malformed or "
                        "inverted spec elsewhere in the set no longer makes the header ignored" % why)

    for n in rv:
        r.site(prh, n.ast, "range list returned")
        raw = n.ast.value
        # ---- a list filled in a loop
        if isinstance(raw, ast.Name):
            apps = [(m, c) for m in cfg.nodes if m.kind in ("stmt", "test") for c in node_calls(m)
                    if call_tail(c) in ("append", "extend", "insert") and isinstance(c.func, ast.Attribute)
                    and attr_path(c.func.value) == raw.id]
            if apps:
                _loop_built(r, prh, cfg, fnorm, n, raw.id, apps, spec_of, elements, returns_value, undecided)
                continue
        v = res(n, raw)
        if isinstance(v, ast.Call) and isinstance(v.func, ast.Name) and v.func.id in ("list", "tuple") \
                and len(v.args) == 1 and not v.keywords:
            v = res(n, v.args[0])
        if isinstance(v, (ast.ListComp, ast.GeneratorExp)):
            if len(v.generators) != 1 or not isinstance(v.generators[0].target, ast.Name):
                undecided(n, "comprehension shape")
            g = v.generators[0]
            check_map(n, v.elt, g.target.id, g.iter, g.ifs)
        elif isinstance(v, ast.Call) and isinstance(v.func, ast.Name) and v.func.id == "map" and len(v.args) == 2:
            f, it = v.args
            if is_parse_range(f):
                kind, why = elements(n, it)
                if kind is None:
                    undecided(n, why)
                if kind == "partial":
                    r.violation(prh, prh.loc(n.ast), "not every byte-range-spec of the header is parsed (%s): a "
                                "malformed or inverted spec elsewhere in the set no longer makes the header ignored"
                                % why)
            elif isinstance(f, ast.Lambda) and len(f.args.args) == 1:
                check_map(n, f.body, f.args.args[0].arg, it, [])
            else:
                undecided(n, "mapped function %s" % ast.unparse(f))
        elif isinstance(v, (ast.List, ast.Tuple)):
            # a fixed number of specs: complete only where the set was found to hold no ','
            elts = v.elts
            one = len(elts) == 1 and isinstance(elts[0], ast.Call) and is_parse_range(elts[0].func) \
                and elts[0].args and set_base(n, elts[0].args[0])

            def no_comma(a, lab):
                f = fnorm.edge_fact(a, lab)
                return bool(f) and f[0] == "not in" and f[1] in ("','", "b','") and f[2] in set_forms
            if one and not find_path_avoiding(cfg, lambda m, _n=n: m is _n, gate_edge=no_comma):
                continue
            r.violation(prh, prh.loc(n.ast), "the range list returned is the fixed list %s: only that many "
                        "byte-range-specs are parsed, a malformed or inverted spec further on in the set no longer "
                        "makes the header ignored" % src(prh, v))
        else:
            undecided(n, "unrecognised construction")


def _loop_built(r, prh, cfg, fnorm, ret, lname, apps, spec_of, elements, returns_value, undecided):
    """`out = []; for x in <set>.split(','): out.append(parse_range(x.strip())); return out`."""
    for m in cfg.nodes:
        if lname in node_stores(m):
            v = assign_value(m, lname)
            empty = (isinstance(v, (ast.List, ast.Tuple)) and not v.elts) or (
                isinstance(v, ast.Call) and isinstance(v.func, ast.Name) and v.func.id == "list" and not v.args)
            if not empty:
                undecided(ret, "%s is also bound to %s" % (lname, src(prh, m.ast)))
    iters = [m for m in cfg.nodes if m.kind == "iter"]
    for (m, c) in apps:
        if call_tail(c) != "append" or len(c.args) != 1:
            undecided(ret, "%s is filled by %s" % (lname, ast.unparse(c)))
        # the loop whose variable is parsed here
        loop = None
        for it in iters:
            if isinstance(it.ast.target, ast.Name) and spec_of(c.args[0], it.ast.target.id) == "ok":
                loop = it
        if loop is None:
            names = [it.ast.target.id for it in iters if isinstance(it.ast.target, ast.Name)]
            s = None
            for nm in names:
                s = s or spec_of(c.args[0], nm)
            if isinstance(c.args[0], ast.Call) and isinstance(c.args[0].func, ast.Name) \
                    and c.args[0].func.id == prh.nested["parse_range"].name:
                r.violation(prh, prh.loc(m.ast), "%s is filled with %s outside a loop over the byte-range-set: not "
                            "every byte-range-spec of the header is parsed" % (lname, ast.unparse(c.args[0])))
                continue
            undecided(ret, "%s is filled with %s" % (lname, ast.unparse(c.args[0])))
        kind, why = elements(loop, loop.ast.iter)
        if kind is None:
            undecided(ret, why)
        if kind == "partial":
            r.violation(prh, prh.loc(loop.ast), "not every byte-range-spec of the header is parsed (%s): a malformed "
                        "or inverted spec elsewhere in the set no longer makes the header ignored" % why)
            continue
        # every iteration parses its element; the list is returned only when the loop ran out
        body = {d for (d, lab) in cfg.succ[loop.id] if lab == "iter"}
        seen, todo, skipped, early = set(), list(body), None, None
        while todo:
            x = todo.pop()
            if x in seen:
                continue
            seen.add(x)
            nx = cfg.nodes[x]
            if nx is loop:
                continue
            if returns_value(nx):
                early = nx
                continue
            for (d, lab) in cfg.succ[x]:
                if lab != "exc":
                    todo.append(d)
        seen2, todo = set(), list(body)
        while todo:
            x = todo.pop()
            if x in seen2:
                continue
            seen2.add(x)
            nx = cfg.nodes[x]
            if nx is m:
                continue
            if nx is loop or returns_value(nx) or nx.kind == "exit":
                skipped = nx
                break
            for (d, lab) in cfg.succ[x]:
                if lab != "exc":
                    todo.append(d)
        if early is not None:
            r.violation(prh, prh.loc(early.ast), "the range list is returned from inside the loop over the "
                        "byte-range-set (or after leaving it early): the specs not yet reached are not validated")
        elif skipped is not None:
            r.violation(prh, prh.loc(loop.ast), "an iteration of the loop over the byte-range-set can pass without "
                        "parse_range of its element (%s is not on every path through the body): that spec is not "
                        "validated" % src(prh, m.ast))


# ------------------------------------------------------------------ C40.11
def _bind_args(call, params, skip=0):
    """{param name: argument AST} for a call of a function with positional parameters `params` (after `skip`
    leading positional arguments of the call); None when * / ** make the binding undecidable."""
    if any(isinstance(a, ast.Starred) for a in call.args) or any(k.arg is None for k in call.keywords):
        return None
    out = {}
    for i, a in enumerate(call.args[skip:]):
        if i < len(params):
            out[params[i]] = a
    for k in call.keywords:
        out[k.arg] = k.value
    return out


def _mutable_read_forwarding(r, idx):
    MFV = "mutable.filenode:MutableFileVersion"
    rd = idx.func(MFV + ".read")
    rp = first_positional_params(rd)
    dl = idx.func("mutable.retrieve:Retrieve.download")
    dp = first_positional_params(dl)
    if len(rp) < 3 or len(dp) < 3:
        raise AnchorVanished("MutableFileVersion.read / Retrieve.download no longer take (consumer, offset, size)")
    roles = ("consumer", "offset", "size")
    rn = FlowNorm(rd)
    # (a) read -> the serialized companion
    hops = []
    for n in rd.cfg().nodes:
        for c in node_calls(n):
            if call_tail(c) == "_do_serialized" and c.args and isinstance(c.args[0], ast.Attribute) \
                    and attr_path(c.args[0].value) == "self":
                inner = rd.cls.lookup(c.args[0].attr) if rd.cls is not None else None
                if inner is not None:
                    hops.append((n, c, inner, 1))
            elif isinstance(c.func, ast.Attribute) and attr_path(c.func.value) == "self" and rd.cls is not None \
                    and rd.cls.lookup(c.func.attr) is not None and c.func.attr != "_do_serialized" \
                    and any(call_tail(x) == "download" for x in calls_in_func(rd.cls.lookup(c.func.attr))):
                hops.append((n, c, rd.cls.lookup(c.func.attr), 0))
    direct = [(n, c) for n in rd.cfg().nodes for c in node_calls(n) if call_tail(c) == "download"]
    if not hops and not direct:
        raise AnchorVanished("MutableFileVersion.read no longer hands the read to a companion method / Retrieve.download")

    def check_download(fn, fnorm, want):
        """want: role -> normal form (in fn) of the value that must arrive in Retrieve.download's parameter."""
        found = 0
        for n in fn.cfg().nodes:
            for c in node_calls(n):
                if call_tail(c) != "download" or not isinstance(c.func, ast.Attribute):
                    continue
                recv = fnorm.resolve(n, c.func.value)
                if not (isinstance(recv, ast.Call) and call_tail(recv) == "Retrieve"):
                    continue
                found += 1
                r.site(fn, c, "Retrieve.download")
                b = _bind_args(c, dp)
                if b is None:
                    raise AnalysisError("C40.11: cannot bind the arguments of %s" % src(fn, c))
                for i, role in enumerate(roles):
                    a = b.get(dp[i])
                    got = fnorm.norm(n, a) if a is not None else "<default>"
                    if got != want[role]:
                        r.violation(fn, fn.loc(c), "Retrieve.download is given %s=%s; the %s of MutableFileVersion.read "
                                    "(carried by `%s` in %s) belongs there: a range read of a mutable file delivers "
                                    "other bytes than the announced range" % (dp[i], got, role, want[role], fn.name))
        return found
    n_dl = 0
    if direct:
        n_dl += check_download(rd, rn, {role: rp[i] for i, role in enumerate(roles)})
    for (n, c, inner, skip) in hops:
        ip = first_positional_params(inner)
        b = _bind_args(c, ip, skip)
        if b is None:
            raise AnalysisError("C40.11: cannot bind the arguments of %s" % src(rd, c))
        r.site(rd, c, "hand-over to %s" % inner.name)
        r.count(len(b))
        want = {}
        ok = True
        for i, role in enumerate(roles):
            carriers = [p for p, a in b.items() if rn.norm(n, a) == rp[i]]
            if len(carriers) != 1 or carriers[0] not in ip:
                r.violation(rd, rd.loc(c), "MutableFileVersion.read does not hand its %s (%s) to %s (arguments: %s)" % (
                    role, rp[i], inner.name, ", ".join("%s=%s" % (p, rn.norm(n, a)) for p, a in b.items())))
                ok = False
            else:
                want[role] = carriers[0]
        if not ok:
            continue
        # nothing else may be bound to the companion's carrier of another role, and defaults must not replace them
        got = check_download(inner, FlowNorm(inner), want)
        if not got:
            raise AnchorVanished("%s no longer calls Retrieve(..).download" % inner.qual)
        n_dl += got
    if not n_dl:
        raise AnchorVanished("no Retrieve.download call behind MutableFileVersion.read")


def _first_of_parse(p):
    """AST `self.parse_range_header(..)[0][0]` as bound on this path (from any env on it), or None."""
    pat = re.compile(r"^self\.parse_range_header\(.+\)\[0\]\[0\]$")
    for (_n, _lab, env) in reversed(p.steps):
        for v in env.values():
            for x in ast.walk(v):
                if isinstance(x, ast.Subscript) and pat.match(nz(x)):
                    return x
    return None


def _nearest(s, others):
    """Human-readable difference between a header signature and the closest of the others."""
    best = None
    for o in others:
        d = set(s[1]) ^ set(o[1])
        if s[0] != o[0]:
            d.add(("status", "%s vs %s" % (s[0], o[0])))
        if best is None or len(d) < len(best):
            best = d
    if best is None:
        return "no counterpart path"
    return ", ".join(sorted("%s" % (k,) for (k, _v) in best)) or "?"


# ------------------------------------------------------------------ C40.13
_ERR_TARGETS = ("web.common:_finish", "web.common:_renderHTTP_exception", "web.common:render_exception.g")
_REQ_ATTRS = ("setResponseCode", "setHeader", "getHeader", "method", "finish", "write", "notifyFinish",
              "responseHeaders")
_FACT_NEG = {"==": "!=", "!=": "==", "is": "is not", "is not": "is", "in": "not in", "not in": "in",
             "truth": "false", "false": "truth"}


def _neg_fact(f):
    (op, l, rr) = f
    if op in _FACT_NEG:
        return (_FACT_NEG[op], l, rr)
    if op == "<":
        return ("<=", rr, l)
    if op == "<=":
        return ("<", rr, l)
    return None


def _request_param(fn):
    """The parameter of fn that is the HTTP request: the one whose request attributes are used."""
    ps = [p for p in fn.params if p not in ("self", "cls")]
    used = set()
    for x in func_own_nodes(fn):
        if isinstance(x, ast.Attribute) and isinstance(x.value, ast.Name) and x.value.id in ps and x.attr in _REQ_ATTRS:
            used.add(x.value.id)
    if len(used) != 1:
        raise AnchorVanished("%s: cannot tell which parameter is the request (%s)" % (fn.qual, sorted(used)))
    return used.pop()


def _const_value(e):
    """(True, value) of a display of constants, else (False, None)."""
    if isinstance(e, ast.Constant):
        return True, e.value
    if isinstance(e, (ast.Tuple, ast.List, ast.Set)):
        vs = [_const_value(x) for x in e.elts]
        if all(ok for ok, _v in vs):
            return True, tuple(v for _ok, v in vs)
    return False, None


def _method_test_value(t, reqm, value):
    """Truth value of the atomic test `t` when <request>.method == value; None when it cannot be evaluated."""
    class S(ast.NodeTransformer):
        def visit_Attribute(self, node):
            if reqm is not None and attr_path(node) == reqm:
                return ast.Constant(value=value)
            return self.generic_visit(node)
    e = S().visit(copy.deepcopy(t))
    neg = False
    while isinstance(e, ast.UnaryOp) and isinstance(e.op, ast.Not):
        e, neg = e.operand, not neg
    res = None
    ok, v = _const_value(e)
    if ok:
        res = bool(v)
    elif isinstance(e, ast.Compare) and len(e.ops) == 1:
        (ok1, a), (ok2, b) = _const_value(e.left), _const_value(e.comparators[0])
        if ok1 and ok2:
            op = e.ops[0]
            try:
                if isinstance(op, ast.Eq):
                    res = a == b
                elif isinstance(op, ast.NotEq):
                    res = a != b
                elif isinstance(op, ast.In):
                    res = a in b
                elif isinstance(op, ast.NotIn):
                    res = a not in b
                elif isinstance(op, (ast.Is, ast.IsNot)) and (a is None or b is None):
                    res = (a is b) if isinstance(op, ast.Is) else (a is not b)
            except TypeError:
                res = None
    if res is None:
        return None
    return (not res) if neg else res


class _Variant:
    """One inter-procedurally expanded path: the tests taken and what was stored on the request."""
    def __init__(self):
        self.tests = []      # [(test AST in the target's namespace, polarity, cfg node)]
        self.events = []     # [("status", nf) | ("header", name, nf) | ("call", callee)]

    def extended(self, other, bind):
        v = _Variant()
        v.tests = self.tests + [(_sub(bind, t), pol, n) for (t, pol, n) in other.tests]
        v.events = self.events + [ev[:1] + tuple(_sub(bind, x) if isinstance(x, ast.AST) else x for x in ev[1:])
                                  for ev in other.events]
        return v

    def copy(self):
        v = _Variant()
        v.tests, v.events = list(self.tests), list(self.events)
        return v


def _request_variants(idx, fn, req, opaque, stack=(), max_variants=4000):
    """Completing paths of fn, each with the tests taken and the status / header stores and hand-overs of the request
    `req` (a parameter name of fn).  A module-level helper of the same module that is handed the request is expanded
    in place (its parameters bound to the arguments); functions in `opaque` and everything else are recorded as a
    hand-over by name."""
    out = []
    for p in sym_paths(fn):
        if p.end != "exit":
            continue
        vs = [_Variant()]
        for (n, lab, env) in p.steps:
            if lab == "exc":
                continue
            if n.kind == "test" and isinstance(lab, tuple):
                t = _sub(env, n.ast)
                known = _method_test_value(t, None, None)
                if known is not None and known != (lab[0] == "T"):
                    vs = []         # a test on constants taken the other way: not a path
                    break
                for v in vs:
                    v.tests.append((t, lab[0] == "T", n))
            if n.kind == "stmt" and isinstance(n.ast, (ast.FunctionDef, ast.AsyncFunctionDef, ast.ClassDef)):
                continue
            for c in node_calls(n):
                t = call_tail(c)
                recv = nz(_sub(env, c.func.value)) if isinstance(c.func, ast.Attribute) else None
                if recv == req and t == "setHeader" and len(c.args) >= 2:
                    nm = c.args[0]
                    if isinstance(nm, ast.Constant) and isinstance(nm.value, (str, bytes)):
                        s = nm.value.decode("latin-1") if isinstance(nm.value, bytes) else nm.value
                        key = s.lower()
                    else:
                        key = nz(_sub(env, nm))
                    for v in vs:
                        v.events.append(("header", key, _sub(env, c.args[1])))
                    continue
                if recv == req and t == "setResponseCode" and c.args:
                    for v in vs:
                        v.events.append(("status", _sub(env, c.args[0])))
                    continue
                handed = [a for a in list(c.args) + [k.value for k in c.keywords]
                          if not isinstance(a, ast.Starred) and nz(_sub(env, a)) == req]
                if not handed:
                    continue
                callee = fn.module.funcs.get(c.func.id) if isinstance(c.func, ast.Name) else None
                if callee is None or callee.qual in opaque or callee.qual in stack or len(stack) >= 3:
                    for v in vs:
                        v.events.append(("call", call_name(c) or t))
                    continue
                b = _bind_args(c, callee.params)
                if b is None:
                    raise AnalysisError("C40.13: cannot bind the arguments of %s" % src(fn, c))
                creq = [k for k, a in b.items() if nz(_sub(env, a)) == req]
                if len(creq) != 1:
                    raise AnalysisError("C40.13: %s receives the request more than once" % callee.qual)
                bind = {k: _sub(env, a) for k, a in b.items()}
                subs = _request_variants(idx, callee, creq[0], opaque, stack + (fn.qual,), max_variants)
                vs = [v.extended(cv, bind) for v in vs for cv in subs]
                if len(vs) > max_variants:
                    raise AnalysisError("C40.13: too many paths through %s" % fn.qual)
        out.extend(vs)
        if len(out) > max_variants:
            raise AnalysisError("C40.13: too many paths through %s" % fn.qual)
    return out


def _error_path_head_equals_get(r, idx):
    targets = [idx.func(q) for q in _ERR_TARGETS]
    opaque = {f.qual for f in targets}
    for fn in targets:
        req = _request_param(fn)
        reqm = req + ".method"
        vs = _request_variants(idx, fn, req, opaque)
        if not vs:
            raise AnchorVanished("%s has no completing path" % fn.qual)
        r.site(fn, fn.node, "status/headers independent of %s" % reqm)
        r.count(len(vs))
        rows = []
        for v in vs:
            head = get = True
            facts = set()
            mtest = None
            if any(_method_test_value(t, None, None) not in (None, pol) for (t, pol, _n) in v.tests):
                continue            # a test on constants taken the other way: not a path
            for (t, pol, n) in v.tests:
                if any(attr_path(x) == reqm for x in ast.walk(t) if isinstance(x, ast.Attribute)):
                    hv, gv = _method_test_value(t, reqm, b"HEAD"), _method_test_value(t, reqm, b"GET")
                    if hv is None or gv is None:
                        raise AnalysisError("C40.13: cannot evaluate the test %s of %s for HEAD / GET" % (
                            ast.unparse(t), fn.qual))
                    if hv != gv:
                        mtest = mtest or n
                    head = head and (hv == pol)
                    get = get and (gv == pol)
                else:
                    facts.add(_NORM.cmp(t, pol))
            status = tuple(nz(ev[1]) for ev in v.events if ev[0] == "status")
            hdrs = {}
            for ev in v.events:
                if ev[0] == "header":
                    hdrs[ev[1]] = nz(ev[2])
            calls = tuple(sorted(ev[1] for ev in v.events if ev[0] == "call"))
            rows.append((head, get, facts, (status, tuple(sorted(hdrs.items())), calls), mtest))

        def compatible(fa, fb):
            return not any(_neg_fact(f) in fb for f in fa)

        def describe(sig):
            (status, hdrs, calls) = sig
            return "status %s, headers {%s}%s" % (
                "/".join(status) or "untouched", ", ".join(k for k, _v in hdrs),
                (", request handed to " + ", ".join(calls)) if calls else "")
        worst = {}

        def dist(a, b):
            return len(set(a[1]) ^ set(b[1])) + (a[0] != b[0]) + len(set(a[2]) ^ set(b[2]))
        for (mine, other, what, whom) in ((0, 1, "HEAD", "GET"), (1, 0, "GET", "HEAD")):
            for row in rows:
                if not row[mine] or row[other]:
                    continue        # only paths that one method takes and the other cannot
                sig = row[3]
                peers = [o for o in rows if o[other] and compatible(row[2], o[2])]
                if any(o[3] == sig for o in peers):
                    continue
                n = row[4]
                near = min(peers, key=lambda o: (-len(o[2] & row[2]), dist(o[3], sig)))[3] if peers else None
                score = dist(near, sig) if near is not None else 99
                key = (n.id if n is not None else -1, what)
                if key not in worst or worst[key][0] < score:
                    worst[key] = (score, n, what, whom, sig, near)
        for (_score, n, what, whom, sig, near) in worst.values():
            r.violation(fn, fn.loc(n.ast if n is not None else None),
                        "the error answer depends on the request method: a %s request stores %s where %s" % (
                            what, describe(sig), ("a %s request stores %s" % (whom, describe(near))) if near
                            else ("no %s request completes" % whom)) +
                        " (HEAD must carry the status and headers of GET, also for 416)")


# ------------------------------------------------------------------ C40.14
class _DivmodFold(ast.NodeTransformer):
    """divmod(a, b)[0] -> a // b, divmod(a, b)[1] -> a % b."""
    def visit_Subscript(self, node):
        self.generic_visit(node)
        v, s = node.value, node.slice
        if isinstance(v, ast.Call) and isinstance(v.func, ast.Name) and v.func.id == "divmod" and len(v.args) == 2 \
                and not v.keywords and isinstance(s, ast.Constant) and s.value in (0, 1):
            return ast.BinOp(left=v.args[0], op=ast.FloorDiv() if s.value == 0 else ast.Mod(), right=v.args[1])
        return node


def _fold(e):
    return _DivmodFold().visit(copy.deepcopy(e))


def _decryptor_positioned(r, idx):
    DC = "immutable.filenode:DecryptingConsumer"
    folder = get_folder(idx)
    block = len(folder.module_const("crypto.aes", "DEFAULT_IV"))
    if block <= 0 or block & (block - 1):
        raise AnalysisError("C40.14: cipher block size %r" % block)
    shift = block.bit_length() - 1
    init = idx.func(DC + ".__init__")
    ips = first_positional_params(init)
    # ---- ImmutableFileNode.read: one offset for the decryptor and for the ciphertext
    rd = idx.func("immutable.filenode:ImmutableFileNode.read")
    rp = first_positional_params(rd)
    if len(rp) < 3:
        raise AnchorVanished("ImmutableFileNode.read no longer takes (consumer, offset, size)")
    roff = rp[1]
    rn = FlowNorm(rd)
    ctor = [(n, c) for n in rd.cfg().nodes for c in node_calls(n) if call_tail(c) == "DecryptingConsumer"]
    if len(ctor) != 1:
        raise AnchorVanished("ImmutableFileNode.read: expected one DecryptingConsumer(..), found %d" % len(ctor))
    (cn, cc) = ctor[0]
    b = _bind_args(cc, ips)
    if b is None:
        raise AnalysisError("C40.14: cannot bind the arguments of %s" % src(rd, cc))
    r.site(rd, cc, "decryptor positioned at the read offset")
    carriers = [p for p, a in b.items() if rn.norm(cn, a) == roff]
    off = None
    if len(carriers) != 1 or carriers[0] not in ips:
        r.violation(rd, rd.loc(cc), "ImmutableFileNode.read does not hand its offset (%s) to the DecryptingConsumer "
                    "(arguments: %s): a ranged read is decrypted with the keystream of another position" % (
                        roff, ", ".join("%s=%s" % (p, rn.norm(cn, a)) for p, a in b.items())))
    else:
        off = carriers[0]
    creads = [(n, c) for n in rd.cfg().nodes for c in node_calls(n) if call_tail(c) == "read"
              and isinstance(c.func, ast.Attribute) and attr_path(c.func.value) is not None
              and attr_path(c.func.value).startswith("self.")]
    if len(creads) != 1:
        raise AnchorVanished("ImmutableFileNode.read: expected one ciphertext read, found %d" % len(creads))
    (qn, qc) = creads[0]
    r.site(rd, qc, "ciphertext read from the same offset")
    qoff = arg(qc, 1, "offset")
    got = rn.norm(qn, qoff) if qoff is not None else "<default>"
    if got != roff:
        r.violation(rd, rd.loc(qc), "the ciphertext is read from %s but the decryptor is positioned at %s" % (got, roff))
    if off is None:
        return
    # ---- DecryptingConsumer.__init__, every path
    O = ast.Name(id=off, ctx=ast.Load())
    B_ok = {nz(_expr_of("O // %d" % block, O=O)), nz(_expr_of("O >> %d" % shift, O=O))}
    S_ok = {nz(_expr_of("O %% %d" % block, O=O)), nz(_expr_of("O & %d" % (block - 1), O=O)),
            nz(_expr_of("O - %d * (O // %d)" % (block, block), O=O)),
            nz(_expr_of("O - (O // %d) * %d" % (block, block), O=O))}
    zero_block = {_cmp_of(t, O=O) for t in (
        "not (O // %d)" % block, "(O // %d) == 0" % block, "(O // %d) < 1" % block, "(O // %d) <= 0" % block,
        "not (O >> %d)" % shift, "(O >> %d) == 0" % shift,
        "not O", "O == 0", "O < %d" % block, "O <= %d" % (block - 1), "O < 1", "O <= 0")}
    zero_resid = {_cmp_of(t, O=O) for t in (
        "not (O %% %d)" % block, "(O %% %d) == 0" % block, "(O %% %d) < 1" % block, "(O %% %d) <= 0" % block,
        "not (O & %d)" % (block - 1), "(O & %d) == 0" % (block - 1),
        "not O", "O == 0", "O < 1", "O <= 0")}
    ZERO = ast.Constant(value=0)

    def counter_of(V, node):
        """AST of the block counter the decryptor `V` (a create_decryptor call) starts from."""
        iv = arg(V, 1, "iv")
        if iv is None or (isinstance(iv, ast.Constant) and iv.value is None):
            return ZERO
        if isinstance(iv, ast.Call) and call_tail(iv) == "unhexlify" and len(iv.args) == 1:
            h = iv.args[0]
            while isinstance(h, ast.Call) and isinstance(h.func, ast.Attribute) and h.func.attr == "encode":
                h = h.func.value
            p = fmt_parts(h)
            if p is not None and len(p[1]) == 1 and all(x == "" for x in p[0]) and isinstance(h, ast.BinOp):
                m = re.match(r"^%0(\d+)x$", h.left.value if isinstance(h.left.value, str) else h.left.value.decode("latin-1"))
                if m is None or int(m.group(1)) != 2 * block:
                    r.violation(init, init.loc(node.ast), "the IV is formatted with %r, not as the %d hex digits of one "
                                "cipher block" % (h.left.value, 2 * block))
                    return None
                return p[1][0]
        if isinstance(iv, ast.Call) and call_tail(iv) == "to_bytes" and isinstance(iv.func, ast.Attribute):
            ln, bo = arg(iv, 0, "length"), arg(iv, 1, "byteorder")
            if isinstance(ln, ast.Constant) and ln.value == block and isinstance(bo, ast.Constant) and bo.value == "big":
                return iv.func.value
            r.violation(init, init.loc(node.ast), "the IV %s is not the big-endian counter in one cipher block" %
                        ast.unparse(iv))
            return None
        raise AnalysisError("C40.14: cannot read the block counter out of the IV %s" % ast.unparse(iv))

    def consumed_of(data):
        """AST of the number of keystream bytes `data` consumes, or None."""
        if isinstance(data, ast.BinOp) and isinstance(data.op, ast.Mult):
            for a_, b_ in ((data.left, data.right), (data.right, data.left)):
                if isinstance(a_, ast.Constant) and isinstance(a_.value, bytes) and len(a_.value) == 1:
                    return b_
        if isinstance(data, ast.Call) and isinstance(data.func, ast.Name) and data.func.id in ("bytes", "bytearray") \
                and len(data.args) == 1 and not data.keywords and not isinstance(data.args[0], ast.Constant):
            return data.args[0]
        if isinstance(data, ast.Constant) and isinstance(data.value, bytes):
            return ast.Constant(value=len(data.value))
        return None

    stores_seen = {}
    done = set()
    n_paths = 0
    for p in sym_paths(init):
        if p.end != "exit":
            continue
        n_paths += 1
        r.count(len(p.steps))
        store = None          # (node, value AST)
        advances = []         # [(decryptor nf, data AST, node, position)]
        spos = -1
        for pos, (n, lab, env) in enumerate(p.steps):
            if lab == "exc":
                continue
            if n.kind == "stmt" and isinstance(n.ast, (ast.FunctionDef, ast.AsyncFunctionDef, ast.ClassDef)):
                continue
            for c in node_calls(n):
                if call_tail(c) == "decrypt_data":
                    d0, d1 = arg(c, 0, "decryptor"), arg(c, 1, "plaintext")
                    if d0 is None or d1 is None:
                        raise AnalysisError("C40.14: cannot bind the arguments of %s" % src(init, c))
                    advances.append((nz(_fold(_sub(env, d0))), _fold(_sub(env, d1)), n, pos))
            if "self._decryptor" in node_stores(n):
                v = assign_value(n, "self._decryptor")
                if v is None:
                    raise AnalysisError("C40.14: cannot read the value stored by %s" % src(init, n.ast))
                store, spos = (n, _fold(_sub(env, v))), pos
        w = ["L%d%s %r" % (n.lineno, (" [%s]" % lab[0]) if isinstance(lab, tuple) else "", n)
             for (n, lab, _e) in p.steps if n.kind not in ("entry",)]
        if store is None:
            key = ("nostore",)
            if key not in done:
                done.add(key)
                r.violation(init, init.loc(), "DecryptingConsumer.__init__ can complete without a decryptor in "
                            "self._decryptor", w)
            continue
        (sn, V) = store
        stores_seen[sn.id] = sn
        if not (isinstance(V, ast.Call) and call_tail(V) == "create_decryptor"):
            raise AnalysisError("C40.14: self._decryptor is %s, not a create_decryptor(..) call" % nz(V))
        Vs = nz(V)
        Bx = counter_of(V, sn)
        if Bx is None:
            continue
        facts = {_NORM.cmp(_fold(_sub(env, n.ast)), lab[0] == "T") for (n, lab, env) in p.steps
                 if n.kind == "test" and isinstance(lab, tuple)}
        Bs = nz(Bx)
        if Bs not in B_ok:
            key = (sn.id, "B", Bs)
            if Bs != "0":
                if key not in done:
                    done.add(key)
                    r.violation(init, init.loc(sn.ast), "the block counter the decryptor starts from is %s, not %s // %d"
                                % (Bs, off, block), w)
            elif not (facts & zero_block):
                if key not in done:
                    done.add(key)
                    r.violation(init, init.loc(sn.ast), "the decryptor starts from block counter 0 (default IV) on a path "
                                "that did not establish %s // %d == 0: a read from a later block is decrypted with the "
                                "keystream of the start of the file" % (off, block), w)
        total = None
        for (dn, data, an, apos) in advances:
            if not ((apos > spos and dn == "self._decryptor") or (apos <= spos and dn == Vs)):
                continue
            cnt = consumed_of(data)
            if cnt is None:
                raise AnalysisError("C40.14: cannot tell how many keystream bytes %s consumes" % ast.unparse(data))
            total = cnt if total is None else ast.BinOp(left=total, op=ast.Add(), right=cnt)
        Ss = nz(total) if total is not None else "0"
        if Ss not in S_ok:
            key = (sn.id, "S", Ss)
            if Ss != "0":
                if key not in done:
                    done.add(key)
                    r.violation(init, init.loc(sn.ast), "the decryptor is advanced by %s keystream bytes, not by %s %% %d"
                                % (Ss, off, block), w)
            elif not (facts & zero_resid):
                if key not in done:
                    done.add(key)
                    r.violation(init, init.loc(sn.ast), "the decryptor is not advanced by the %s %% %d leading keystream "
                                "bytes on a path that did not establish %s %% %d == 0: a read starting inside a cipher "
                                "block is decrypted as if it started at the block boundary" % (off, block, off, block), w)
    if not n_paths:
        raise AnchorVanished("DecryptingConsumer.__init__ has no completing path")
    for sn in stores_seen.values():
        r.site(init, sn.ast, "decryptor stored")
    ci = idx.cls(DC)
    for m in ci.methods.values():
        if m.name == "__init__":
            continue
        for f in [m] + list(m.nested.values()):
            for n in f.cfg().nodes:
                if "self._decryptor" in node_stores(n):
                    r.violation(f, f.loc(n.ast), "%s re-binds the decryptor: the keystream position of the read is lost"
                                % short(f))


# ------------------------------------------------------------------ C40.15
_SIZE_CALLS = ("get_size", "get_current_size")
_SIZE_MEMO = {}


def _chain(fn):
    out = []
    while fn is not None:
        out.append(fn)
        fn = fn.parent
    return out


def _name_size_derived(fn, name):
    """Why the name / attribute path `name` of fn may carry a value computed from the size of the file being served
    (followed through the reaching definitions of fn and of the enclosing functions, `self.x` through the stores of
    the class's methods), or None."""
    key = (fn.qual, name)
    if key in _SIZE_MEMO:
        return _SIZE_MEMO[key]
    fns = _chain(fn)
    ci = fns[-1].cls
    seen = set()
    work = [name]
    res = None
    while work and res is None:
        nm = work.pop()
        if nm in seen or not nm:
            continue
        seen.add(nm)
        if any(part in _SIZE_CALLS for part in nm.split(".")):
            res = nm
            break
        try:
            probe = parse_expr(nm)
        except SyntaxError:
            continue
        for f in fns:
            for d in depends_on(f, probe):
                if d not in seen:
                    work.append(d)
        if nm.startswith("self.") and nm.count(".") == 1 and ci is not None:
            for m in ci.methods.values():
                for v in def_exprs(m).get(nm, []):
                    if any(isinstance(x, ast.Attribute) and x.attr in _SIZE_CALLS for x in ast.walk(v)):
                        res = "%s = %s in %s" % (nm, ast.unparse(v), m.name)
    _SIZE_MEMO[key] = res
    return res


def _size_derived(fn, e):
    """Why the value of `e` (an expression of fn, locals already replaced along a path) may depend on the file size."""
    for x in ast.walk(e):
        if isinstance(x, ast.Attribute) and x.attr in _SIZE_CALLS:
            return attr_path(x) or x.attr
    for l in sorted(leaves(e)):
        why = _name_size_derived(fn, l.split("@")[0])
        if why:
            return l if why == l else "%s <- %s" % (l, why)
    return None


class _NoEval(Exception):
    pass


def _ieval(e):
    """Value of an integer / boolean expression over constants; _NoEval for anything else."""
    if isinstance(e, ast.Constant) and isinstance(e.value, (int, bool)):
        return e.value
    if isinstance(e, ast.UnaryOp):
        v = _ieval(e.operand)
        if isinstance(e.op, ast.USub):
            return -v
        if isinstance(e.op, ast.UAdd):
            return +v
        if isinstance(e.op, ast.Not):
            return not v
    if isinstance(e, ast.BinOp):
        a, b = _ieval(e.left), _ieval(e.right)
        if isinstance(e.op, ast.Add):
            return a + b
        if isinstance(e.op, ast.Sub):
            return a - b
        if isinstance(e.op, ast.Mult):
            return a * b
        if isinstance(e.op, (ast.FloorDiv, ast.Mod)) and b:
            return a // b if isinstance(e.op, ast.FloorDiv) else a % b
    if isinstance(e, ast.Compare):
        vals = [_ieval(e.left)] + [_ieval(c) for c in e.comparators]
        ok = True
        for op, a, b in zip(e.ops, vals, vals[1:]):
            if isinstance(op, ast.Lt):
                ok = ok and a < b
            elif isinstance(op, ast.LtE):
                ok = ok and a <= b
            elif isinstance(op, ast.Gt):
                ok = ok and a > b
            elif isinstance(op, ast.GtE):
                ok = ok and a >= b
            elif isinstance(op, ast.Eq):
                ok = ok and a == b
            elif isinstance(op, ast.NotEq):
                ok = ok and a != b
            else:
                raise _NoEval()
        return ok
    if isinstance(e, ast.Call) and isinstance(e.func, ast.Name) and e.func.id in ("min", "max", "abs", "int", "bool") \
            and e.args and not e.keywords:
        vs = [_ieval(a) for a in e.args]
        return {"min": min, "max": max, "abs": abs, "int": int, "bool": bool}[e.func.id](*vs)
    raise _NoEval()


def _at_point(fn, t, num, size):
    """`t` with every number read from the header text - int(<text>) - replaced by `num` and every size-derived name /
    get_size() call by `size`."""
    class Z(ast.NodeTransformer):
        def visit_Call(self, node):
            if call_tail(node) in _SIZE_CALLS:
                return ast.Constant(value=size)
            if isinstance(node.func, ast.Name) and node.func.id == "int" and node.args and not node.keywords \
                    and not _size_derived(fn, node):
                return ast.Constant(value=num)
            return self.generic_visit(node)

        def visit_Name(self, node):
            if _name_size_derived(fn, node.id.split("@")[0]):
                return ast.Constant(value=size)
            return node

        def visit_Attribute(self, node):
            p = attr_path(node)
            if p and _name_size_derived(fn, p):
                return ast.Constant(value=size)
            return self.generic_visit(node)

        def visit_Lambda(self, node):
            return node
    return Z().visit(copy.deepcopy(t))


_SIZES = (0, 1, 2, 7, 300)


def _refusal_is_about_the_text(r, prh):
    pr = prh.nested.get("parse_range")
    if pr is None:
        raise AnchorVanished("parse_range_header.parse_range")

    def is_none(v):
        return v is None or (isinstance(v, ast.Constant) and v.value is None)

    def outcome(fn, p):
        """'refuse' / 'accept' / None, and the statement that ends the path."""
        last = p.steps[-1][0] if p.steps else None
        if last is None:
            return None, None
        if p.end == "raise":
            # an explicit raise only: a failing assert is an internal error, not an ignored header
            if last.kind == "stmt" and isinstance(last.ast, ast.Raise):
                return "refuse", last
            return None, last
        rets = [n for (n, lab, _e) in p.steps if n.kind == "stmt" and isinstance(n.ast, ast.Return) and lab != "exc"]
        if not rets:
            return "refuse", last            # falls off the end: None
        return ("refuse" if is_none(rets[-1].ast.value) else "accept"), rets[-1]

    def tests(fn, p):
        out = {}
        for i, (n, lab, env) in enumerate(p.steps):
            if n.kind == "test" and isinstance(lab, tuple):
                t = _sub(env, n.ast)
                fact = _NORM.cmp(t, lab[0] == "T")
                # the size counts only where it survives normalisation (filesize - 1 < filesize - n is about n)
                why = None
                if _size_derived(fn, t):
                    for side in fact[1:]:
                        try:
                            why = why or _size_derived(fn, parse_expr(side))
                        except (SyntaxError, TypeError, ValueError):
                            why = why or _size_derived(fn, t)
                out[i] = (t, fact, why)
        return out

    def lab_key(lab):
        return lab[0] if isinstance(lab, tuple) else lab

    def diverge(p, q):
        for i, (a, b) in enumerate(zip(p.steps, q.steps)):
            if a[0].id != b[0].id:
                return None
            if lab_key(a[1]) != lab_key(b[1]):
                return i
        return None

    def operands(fn, t):
        sides = [t.left, t.comparators[0]] if isinstance(t, ast.Compare) and len(t.ops) == 1 else [t]
        out = []
        for x in sides:
            why = _size_derived(fn, x)
            if why:
                out.append("%s is computed from the file size (%s)" % (nz(x), why))
        return "; ".join(out)

    reported = set()
    for fn, what in ((pr, "byte-range-spec"), (prh, "Range header")):
        paths = sym_paths(fn)
        cls = [(p,) + outcome(fn, p) for p in paths]
        refuse = [(p, n) for (p, o, n) in cls if o == "refuse"]
        accept = [(p, n) for (p, o, n) in cls if o == "accept"]
        if not accept:
            raise AnchorVanished("%s has no path that returns a result" % fn.qual)
        if not refuse:
            raise AnchorVanished("%s has no path that refuses a %s" % (fn.qual, what))
        for n in {n.id: n for (_p, n) in accept}.values():
            r.site(fn, n.ast, "accepts")
        for n in {n.id: n for (_p, n) in refuse}.values():
            r.site(fn, n.ast, "refuses")
        tcache = {id(p): tests(fn, p) for (p, _n) in refuse + accept}
        r.count(len(refuse) * len(accept))
        for (p, pn) in refuse:
            tp = tcache[id(p)]
            for (q, qn) in accept:
                i = diverge(p, q)
                if i is None or i not in tp:
                    continue            # they part at an exception edge / loop head: decided inside the callee
                (t, fact, why) = tp[i]
                node, pol = p.steps[i][0], p.steps[i][1][0] == "T"
                key = (fn.qual, node.id, nz(t))
                if key in reported:
                    continue
                w = ["L%d%s %r" % (n.lineno, (" [%s]" % lab[0]) if isinstance(lab, tuple) else "", n)
                     for (n, lab, _e) in p.steps if n.kind not in ("entry",)]
                if why:
                    tq = tcache[id(q)]
                    mine = {f for (_t, f, w_) in tp.values() if not w_}
                    theirs = {f for (_t, f, w_) in tq.values() if not w_}
                    if any(_neg_fact(f) in theirs for f in mine):
                        continue        # the text tests further on contradict each other: different headers after all
                    reported.add(key)
                    r.violation(fn, fn.loc(node.ast), "whether the %s is refused (%s) or accepted (%s) is decided by the "
                                "test `%s`, i.e. %s, where %s: the same header text parses for one file size and is "
                                "'unparseable' for another, so a valid but unsatisfiable range (first-byte-pos at or "
                                "beyond the end of the file) is answered 200 with the full file instead of reaching "
                                "render's 416 test" % (what, src(fn, pn.ast), src(fn, qn.ast), src(fn, node.ast),
                                                       " ".join(str(x) for x in (fact[1], fact[0], fact[2])),
                                                       operands(fn, t)), w)
                    continue
                # a test on the text alone: it may refuse only what the grammar refuses.  The spec whose numbers are all
                # 0 is valid in each of its three forms ('-0', '0-', '0-0'; '-0' and an empty file's '0-' are
                # unsatisfiable, which is render's business), so an integer test must not refuse at that point.
                try:
                    vals = {bool(_ieval(_at_point(fn, t, 0, k))) for k in _SIZES}
                except _NoEval:
                    continue            # not a test on the numbers of the spec
                if vals == {pol}:
                    reported.add(key)
                    via = operands(fn, t)
                    r.violation(fn, fn.loc(node.ast), "the test `%s`, i.e. %s, refuses (%s) a %s whose numbers are all 0 "
                                "('-0', '0-', '0-0' are valid byte-range-specs)%s: the header is treated as unparseable "
                                "and answered 200 with the full file where RFC 7233 asks for 416 (suffix-length 0 / "
                                "first-byte-pos at the end of an empty file are unsatisfiable, not invalid)" % (
                                    src(fn, node.ast), " ".join(str(x) for x in (fact[1], fact[0], fact[2])),
                                    src(fn, pn.ast), what,
                                    (" - %s, and the size cancels out" % via) if via else ""), w)
        # a helper that is handed a size-derived value could refuse on it out of sight
        local_helpers = set(prh.nested) | set(pr.nested)
        for n in fn.cfg().nodes:
            if n.kind not in ("stmt", "test") or isinstance(n.ast, (ast.FunctionDef, ast.AsyncFunctionDef, ast.ClassDef)):
                continue
            for c in node_calls(n):
                f = c.func
                helper = (isinstance(f, ast.Name) and f.id in local_helpers) or (
                    isinstance(f, ast.Attribute) and attr_path(f.value) == "self" and f.attr not in _SIZE_CALLS)
                if not helper:
                    continue
                for a in list(c.args) + [k.value for k in c.keywords]:
                    why = _size_derived(fn, a)
                    if why:
                        raise AnalysisError("C40.15: %s hands the size-derived value %s (%s) to a helper; cannot decide "
                                            "whether the helper refuses the %s on it" % (src(fn, c), nz(a), why, what))
