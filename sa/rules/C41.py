"""C41 Web API never exceeds the authority of the capability used.

Structure decided: the write gates below the web layer (publisher, mutable
file version, directory node), who may reach the remote-write primitives,
that web handlers only go through the gated public API, that write caps are
emitted only from get_write_uri() / decrypted only for writeable directories,
and the token check of the private area.
"""
from sa.h import *

EXPLANATION = (
    "Decided: (1) node-level write gates: Publish.publish/Publish.update establish `self._writekey` (loaded from "
    "the node's get_writekey()) by an assert before the first push / write-enabler derivation; "
    "MutableFileVersion.overwrite/modify pass `assert not self.is_readonly()` before entering the serialized "
    "write; MutableFileVersion.is_readonly is `self._writekey is None`; a MutableFileVersion is given a writekey "
    "only in MutableFileNode.get_mutable_version, behind the is_readonly() fallback to a readable version "
    "(MutableFileVersion.update has no own assert in this tree: it is decided through the Publish gates and the "
    "privacy rule); (2) who-may: Publish is constructed only by the three upload methods of mutable/filenode.py, "
    "the slot write proxies only by Publish, slot_testv_and_readv_and_writev is called only from the write "
    "proxies / storage client, and the private write internals (_modify, _overwrite, _upload, _update, ...) are "
    "only ever invoked on `self`; (3) every remote-write effect of a DirectoryNode method (backing-file modify, "
    "upload, creation of a sub-directory, set_node on another parent) is dominated by the is_readonly() refusal, "
    "set_children being the one pure delegation to the gated MutableFileNode.modify; (4) web/*.py reaches write "
    "effects only through that gated public API: no private internals, no Publish/proxy/storage calls, `._node` "
    "only in the four read-only cap renderers of web/info.py; (5) write-cap leakage: every 'rw_uri' emitted by a "
    "JSON builder is the value of get_write_uri(), each get_write_uri() returns a cap only behind "
    "`not is_readonly()` (or None / a delegation), child write caps are decrypted only for a writeable directory, "
    "t=readonly-uri never serialises get_uri() of a writeable node; (6) private area: requestAvatarId grants only "
    "on credentials.equals(get_auth_token()), Token.equals is timing_safe_compare(valid, proposed), which compares "
    "salted hashes, and the private tree is reachable only behind the HTTPAuthSessionWrapper; (7) the node cache of "
    "NodeMaker.create_from_cap is keyed by the cap the node was built from (C18.5, shared), MutableFileNode._writekey "
    "- the value Publish asserts - is non-None only for a cap shown writeable and get_writekey() returns it (C18.6, "
    "shared), a child's write authority enters the packed directory bytes only through _encrypt_rw_uri (C18.2, "
    "shared); (8) the read-only answers "
    "all of the above branch on: DirectoryNode.is_readonly / MutableFileNode.is_readonly return the read-only flag of "
    "the cap the node was built from on every path, and every get_readonly_uri() (the string packed in clear into the "
    "parent directory's read-only slot and served by t=json / t=readonly-uri) is <cap>.get_readonly().to_string(), a "
    "delegation, None, or the node's own cap only in a class whose is_readonly() is constantly True (the cap classes' "
    "own get_readonly()/is_readonly() are C16's subject); "
    "(9, value provenance through all reaching definitions, container stores and - by descent - own methods and package-local "
    "helpers) the node NodeMaker.create_from_cap / _create_from_single_cap and the gateway entry point "
    "_Client.create_node_from_uri answer with is constructed from the given cap on that call, or comes out of state that "
    "outlives the call (attribute of the maker that is not a collaborator bound once from a constructor parameter, "
    "module- or class-level object, memoising decorator) only through a lookup whose key keeps the cap apart from the other "
    "caps of the same object: the full cap string (`writecap or readcap`, or both slots) / the parsed cap object, "
    "constant-prefixed, tupled, converted or hashed one-to-one, or the cap class / is_readonly() / writekey - never the "
    "storage index, the verify cap or the read-only form, which write, read and verify cap share; every other store into "
    "such a memo (in the class, through a filing helper, from outside the class) is keyed likewise; the entry point hands "
    "its two slots to the nodemaker in order; what DirectoryNode._unpack_contents and the child factories hand out was "
    "made on that invocation or remembered under a key naming the node's writeability (C18.11, shared). "
    "Undecided: memos hidden inside collaborators handed to the maker at construction (storage broker, uploader, "
    "blacklist: the blacklist answer is data about a storage index, not a node) or inside the node classes' constructors, "
    "caches in web handlers above create_node_from_uri, that a key of (slot, is_readonly()) or (slot, writekey) also keeps "
    "read and verify caps apart (they are told apart by the cap class; no verify-cap node of a mutable slot exists), behaviour with asserts disabled (-O), the storage servers' own write-enabler check, content of "
    "HTML pages, whether an *unknown* (future-format) cap string handed in by a client is a write cap (UnknownNode keeps "
    "it in the slot it was given in; the prefix policy of UnknownNode.__init__ is value-level and C18's subject), "
    "creation of new unlinked objects before a refused link (PUT ?format=SDMF below a read-only directory creates an "
    "orphan mutable file: needs no authority, modifies nothing that exists), lease renewal by t=check&add-lease.")
TECHNIQUE = ("static analysis: CFG must-precede gates, who-may-call sweeps, value provenance of emitted caps and "
             "interprocedural provenance of the node objects the node factory answers with")

MFN = "mutable.filenode:MutableFileNode"
MFV = "mutable.filenode:MutableFileVersion"
PUB = "mutable.publish:Publish"
DIRN = "dirnode:DirectoryNode"

PRIV_WRITE = {"_overwrite", "_modify", "_upload", "_update", "_modify_once", "_modify_and_retry",
              "_do_modify_update", "_do_update_update", "_build_uploadable_and_finish",
              "_decode_and_decrypt_segments"}
PROXIES = {"SDMFSlotWriteProxy", "MDMFSlotWriteProxy"}
DIR_MUTATORS = {"set_uri", "set_children", "set_node", "set_nodes", "add_file", "delete", "create_subdirectory",
                "move_child_to", "set_metadata_for"}
FILE_MUTATORS = {"overwrite", "update", "modify"}
NOT_RO = ("false", "self.is_readonly()", None)


def _attrs_at(n, names):
    """Attribute nodes X.<name> evaluated at CFG node n (calls and method values), lambdas included."""
    out = []
    for e in node_exprs(n):
        for x in own_nodes(e, into_lambda=True):
            if isinstance(x, ast.Attribute) and x.attr in names:
                out.append(x)
    return out


def _all_funcs_of(fn):
    out = [fn]
    for nf in fn.nested.values():
        out.extend(_all_funcs_of(nf))
    return out


def run(ctx: Context):
    idx = ctx.idx
    cg = get_callgraph(idx)

    # ------------------------------------------------------------------ C41.1
    with ctx.rule("C41.1", "R1", "node-level write gates: Publish.publish/update assert the node's writekey before "
                  "pushing; MutableFileVersion.overwrite/modify assert not is_readonly(); is_readonly is "
                  "`_writekey is None`; only get_mutable_version (behind is_readonly()) hands out a writekey",
                  expected=7) as r:
        # Publish.publish / Publish.update
        for meth in ("publish", "update"):
            fn = idx.func(PUB + "." + meth)
            cfg = fn.cfg()
            fnorm = FlowNorm(fn)
            starts = lambda n: bool(_attrs_at(n, {"_push", "get_write_enabler", "push_segment", "finish_publishing"}))
            tg = cfg.find(starts)
            if not tg:
                raise AnchorVanished("Publish.%s no longer starts a push" % meth)
            r.site(fn, tg[0].ast, "push dominated by writekey assert")

            def have_key(n, lab, _f=fnorm):
                return _f.edge_fact(n, lab) == ("truth", "self._writekey", None)
            for (n, w) in find_path_avoiding(cfg, starts, gate_edge=have_key, kill=stores("self._writekey")):
                r.violation(fn, fn.loc(n.ast), "Publish.%s starts writing shares without having established that the "
                            "node holds a write key (path: %s)" % (meth, w.brief()), w)
            for (n, w) in find_path_avoiding(cfg, lambda m: m.kind == "exit", gate_edge=have_key,
                                             kill=stores("self._writekey")):
                r.violation(fn, fn.loc(), "Publish.%s can complete without the write-key assertion (path: %s)" % (
                    meth, w.brief()), w)
            r.count(len(cfg.nodes))
            st = cfg.find(stores("self._writekey"))
            if not st:
                raise AnchorVanished("Publish.%s does not load self._writekey" % meth)
            for n in st:
                v = assign_value(n, "self._writekey")
                r.require(v is not None and fnorm.norm(n, v) == "self._node.get_writekey()", fn, fn.loc(n.ast),
                          "Publish.%s takes its write key from %s, not from the node's get_writekey()" % (
                              meth, src(fn, v) if v is not None else "?"))
        # MutableFileVersion.overwrite / modify
        for meth in ("overwrite", "modify"):
            fn = idx.func(MFV + "." + meth)
            cfg = fn.cfg()
            fnorm = FlowNorm(fn)
            eff = lambda n: bool(_attrs_at(n, PRIV_WRITE | {"_do_serialized", "publish"}))
            tg = cfg.find(eff)
            if not tg:
                raise AnchorVanished("MutableFileVersion.%s no longer enters the write path" % meth)
            r.site(fn, tg[0].ast, "assert not is_readonly")
            for (n, w) in find_path_avoiding(cfg, eff, gate_edge=lambda n, lab, _f=fnorm: _f.edge_fact(n, lab) == NOT_RO):
                r.violation(fn, fn.loc(n.ast), "MutableFileVersion.%s enters the write path without "
                            "`assert not self.is_readonly()` (path: %s)" % (meth, w.brief()), w)
            r.count(len(cfg.nodes))
        # is_readonly definition
        fn = idx.func(MFV + ".is_readonly")
        rets = fn.cfg().find(is_return)
        if not rets:
            raise AnchorVanished("MutableFileVersion.is_readonly has no return")
        r.site(fn, rets[0].ast, "is_readonly == (_writekey is None)")
        fnorm = FlowNorm(fn)
        for n in rets:
            ok = n.ast.value is not None and fnorm.at(n).cmp(n.ast.value, True) in (
                ("is", "None", "self._writekey"), ("false", "self._writekey", None))
            r.require(ok, fn, fn.loc(n.ast), "MutableFileVersion.is_readonly answers %s instead of "
                      "`self._writekey is None`" % src(fn, n.ast.value))
        # _writekey of a version only from the constructor parameter
        init = idx.func(MFV + ".__init__")
        for (f, nd) in cg.attr_stores("_writekey"):
            if f.cls is not None and f.cls.name == "MutableFileVersion":
                ok = f is init
                if ok:
                    for n in init.cfg().find(stores("self._writekey")):
                        v = assign_value(n, "self._writekey")
                        ok = isinstance(v, ast.Name) and v.id == "writekey" and "writekey" in init.params
                r.require(ok, f, f.loc(nd), "MutableFileVersion._writekey is bound outside the constructor parameter")
        # who gives a version a writekey
        wk_pos = init.params.index("writekey") - 1 if "writekey" in init.params else None
        if wk_pos is None:
            raise AnchorVanished("MutableFileVersion.__init__ has no writekey parameter")
        allowed = "allmydata." + MFN + ".get_mutable_version._build_version"
        n_ctor = 0
        for cs in cg.calls_named("MutableFileVersion"):
            n_ctor += 1
            wk = arg(cs.call, wk_pos, "writekey")
            if wk is None or (isinstance(wk, ast.Constant) and wk.value is None):
                continue
            r.site(cs.fn, cs.call, "version built with a writekey")
            r.require(cs.fn.qual == allowed, cs.fn, cs.loc, "%s builds a MutableFileVersion with a write key (only "
                      "get_mutable_version may, behind its is_readonly() check)" % short(cs.fn))
        if n_ctor < 2:
            raise AnchorVanished("MutableFileVersion constructor calls not found")
        gm = idx.func(MFN + ".get_mutable_version")
        cfg = gm.cfg()
        fnorm = FlowNorm(gm)
        wr = lambda n: (isinstance(n.ast, (ast.FunctionDef, ast.AsyncFunctionDef)) and n.ast.name == "_build_version") \
            or any(nz_name(a) == "MODE_WRITE" for c in node_calls(n) for a in c.args)
        if not cfg.find(wr):
            raise AnchorVanished("get_mutable_version no longer builds a writeable version")
        r.site(gm, cfg.find(wr)[0].ast, "writeable version only if not is_readonly")
        for (n, w) in find_path_avoiding(cfg, wr, gate_edge=lambda n, lab: fnorm.edge_fact(n, lab) == NOT_RO):
            r.violation(gm, gm.loc(n.ast), "get_mutable_version prepares a writeable version without the "
                        "is_readonly() fallback (path: %s)" % w.brief(), w)

    # ------------------------------------------------------------------ C41.2
    with ctx.rule("C41.2", "R4", "who may reach the remote-write primitives: Publish built only by the upload methods "
                  "of mutable/filenode.py, write proxies only by Publish, slot_testv_and_readv_and_writev only from "
                  "proxies/storage client, private write internals only on self", expected=8) as r:
        allowed_pub = {"allmydata." + MFN + "._upload", "allmydata." + MFV + "._upload",
                       "allmydata." + MFV + "._build_uploadable_and_finish"}
        for cs in cg.calls_named("Publish"):
            r.site(cs.fn, cs.call, "Publish(..)")
            r.require(cs.fn.qual in allowed_pub, cs.fn, cs.loc, "%s constructs a Publish (bypasses the gated "
                      "overwrite/modify/update entry points)" % short(cs.fn))
        for (f, nd) in cg.refs_named("Publish"):
            if isinstance(nd, ast.Name) and f.module.name not in ("allmydata.mutable.publish",):
                r.violation(f, f.loc(nd), "%s takes the Publish class as a value" % short(f))
        for px in sorted(PROXIES):
            uses = [(cs.fn, cs.call) for cs in cg.calls_named(px)] + list(cg.refs_named(px))
            for (f, nd) in uses:
                r.site(f, nd, px)
                ok = f.module.name == "allmydata.mutable.layout" or (
                    f.cls is not None and f.cls.name == "Publish" and f.name in ("publish", "update"))
                r.require(ok, f, f.loc(nd), "%s uses the slot write proxy %s outside Publish" % (short(f), px))
        ok_mods = ("allmydata.mutable.layout", "allmydata.storage_client", "allmydata.storage.")
        n_w = 0
        for cs in cg.calls_named("slot_testv_and_readv_and_writev"):
            n_w += 1
            r.require(cs.fn.module.name.startswith(ok_mods), cs.fn, cs.loc,
                      "%s writes mutable slots directly" % short(cs.fn))
        for cs in cg.calls_named("callRemote"):
            a0 = arg(cs.call, 0)
            if isinstance(a0, ast.Constant) and a0.value == "slot_testv_and_readv_and_writev":
                n_w += 1
                r.require(cs.fn.module.name.startswith(ok_mods), cs.fn, cs.loc,
                          "%s writes mutable slots directly" % short(cs.fn))
        if n_w < 2:
            raise AnchorVanished("slot_testv_and_readv_and_writev call sites not found")
        r.site("slot_testv_and_readv_and_writev call sites: %d" % n_w)
        # private write internals only on self (calls and method values, lambdas included)
        n_priv = 0
        for f in idx.funcs.values():
            if not any(p in f.module.source for p in ("_modify", "_overwrite", "_upload", "_update", "_build_uploadable")):
                continue
            for x in func_own_nodes(f, into_lambda=True):
                if isinstance(x, ast.Attribute) and x.attr in PRIV_WRITE and isinstance(x.ctx, ast.Load):
                    on_self = isinstance(x.value, ast.Name) and x.value.id == "self"
                    if on_self and f.cls is not None and f.cls.name in ("MutableFileNode", "MutableFileVersion"):
                        n_priv += 1
                        continue
                    if on_self:
                        continue     # another class's own private method of the same name
                    r.violation(f, f.loc(x), "%s reaches the ungated write internal %s on another object (the "
                                "is_readonly()/writekey gates sit in the public methods)" % (short(f), src(f, x)))
        if n_priv < 8:
            raise AnchorVanished("private write internals of mutable/filenode.py not found")
        r.site("private write internals referenced on self: %d" % n_priv)
        # MutableFileNode._modify / _overwrite hand over to the *gated* version methods
        for meth, pub in (("_modify", "modify"), ("_overwrite", "overwrite")):
            fn = idx.func(MFN + "." + meth)
            cs = [c for c in calls_in_func(fn, pub, into_lambda=True)]
            r.require(bool(cs), fn, fn.loc(), "MutableFileNode.%s no longer delegates to the gated "
                      "MutableFileVersion.%s" % (meth, pub))

    # ------------------------------------------------------------------ C41.3
    with ctx.rule("C41.3", "R1", "DirectoryNode: every remote-write effect (backing-file modify/overwrite, upload, "
                  "sub-directory creation, set_node on another parent) is dominated by the is_readonly() refusal; "
                  "set_children is a pure delegation to the gated MutableFileNode.modify", expected=11) as r:
        ci = idx.cls(DIRN)
        DELEGATES = {"set_children": "self._node.modify"}   # frozen after reading: relies on C41.1

        def effect_calls(fn):
            out = []
            for c in calls_in_func(fn, None, into_lambda=True):
                nm = call_name(c)
                t = call_tail(c)
                if nm in ("self._node.modify", "self._node.overwrite", "self._node.upload", "self._node.update",
                          "self._uploader.upload"):
                    out.append((c, nm, None))
                elif nm.startswith("self._nodemaker.") and t in ("create_new_mutable_directory",
                                                                  "create_immutable_directory", "create_mutable_file"):
                    out.append((c, nm, None))
                elif t in DIR_MUTATORS | FILE_MUTATORS and isinstance(c.func, ast.Attribute) \
                        and isinstance(c.func.value, ast.Name) and c.func.value.id != "self":
                    # a mutator invoked on a node handed in as a parameter of the enclosing method
                    top = fn
                    while top.parent is not None:
                        top = top.parent
                    if c.func.value.id in top.params:
                        out.append((c, nm, c.func.value.id))
            return out

        def has_effect(fn):
            return any(effect_calls(f) for f in _all_funcs_of(fn))
        total = 0
        for m in ci.methods.values():
            if not has_effect(m):
                continue
            cfg = m.cfg()
            fnorm = FlowNorm(m)
            # CFG nodes of the method that carry an effect: direct calls (lambdas included) or nested defs
            carriers = []
            own = {id(c): (c, nm, other) for (c, nm, other) in effect_calls(m)}
            for n in cfg.nodes:
                if n.kind in ("entry", "exit", "raise"):
                    continue
                if isinstance(n.ast, (ast.FunctionDef, ast.AsyncFunctionDef)):
                    nf = m.nested.get(n.ast.name)
                    if nf is not None:
                        for f2 in _all_funcs_of(nf):
                            for (c, nm, other) in effect_calls(f2):
                                carriers.append((n, c, nm, other))
                    continue
                for e in node_exprs(n):
                    for x in own_nodes(e, into_lambda=True):
                        if id(x) in own:
                            carriers.append((n,) + own[id(x)])
            if not carriers:
                raise AnalysisError("effects of DirectoryNode.%s not located in its CFG" % m.name)
            for (n, c, nm, other) in carriers:
                total += 1
                r.site(m, c, nm)
                if m.name in DELEGATES:
                    r.require(nm == DELEGATES[m.name], m, m.loc(c), "DirectoryNode.%s is listed as a pure delegation "
                              "to %s but now performs %s itself without the is_readonly() refusal" % (
                                  m.name, DELEGATES[m.name], nm))
                    continue
                gates = [NOT_RO] + ([("false", "%s.is_readonly()" % other, None)] if other else [])
                for g in gates:
                    bad = find_path_avoiding(cfg, lambda x, _n=n: x is _n,
                                             gate_edge=lambda x, lab, _g=g: fnorm.edge_fact(x, lab) == _g)
                    r.count(len(cfg.nodes))
                    for (t, w) in bad:
                        r.violation(m, m.loc(c), "DirectoryNode.%s reaches %s without the %s refusal "
                                    "(NotWriteableError) (path: %s)" % (m.name, nm, g[1], w.brief()), w)
        # the refusal really refuses: the read-only branch returns/raises NotWriteableError
        for m in ci.methods.values():
            cfg = m.cfg()
            fnorm = FlowNorm(m)
            for n in cfg.nodes:
                for (d, lab) in cfg.succ[n.id]:
                    if fnorm.edge_fact(n, lab) == ("truth", "self.is_readonly()", None) and m.name in DIR_MUTATORS:
                        visited, parent = explore(cfg, 0, lambda a, b, c, s: 0, start=cfg.nodes[d])
                        seen_nw = any(any(call_tail(c) == "NotWriteableError" for c in node_calls(cfg.nodes[i]))
                                      for (i, _s) in visited)
                        r.require(seen_nw, m, m.loc(n.ast), "the read-only branch of DirectoryNode.%s does not answer "
                                  "NotWriteableError" % m.name)

    # ------------------------------------------------------------------ C41.4
    with ctx.rule("C41.4", "R4", "web/*.py reaches write effects only through the gated public node API: no private "
                  "write internals, no Publish / write proxies / storage writes, no `._node` outside the cap "
                  "renderers of web/info.py", expected=19) as r:
        NODE_ATTR_OK = {"allmydata.web.info:MoreInfoElement." + x for x in ("file_writecap", "file_readcap",
                                                                       "file_verifycap", "raw_link")}
        FORBIDDEN = PRIV_WRITE | PROXIES | {"Publish", "slot_testv_and_readv_and_writev", "callRemote",
                                            "_pack_contents", "pack_children", "_do_serialized", "Retrieve",
                                            "ServermapUpdater", "_create_and_validate_node"}
        n_mut = 0
        n_funcs = 0
        for f in idx.funcs.values():
            if not f.module.name.startswith("allmydata.web."):
                continue
            n_funcs += 1
            for x in func_own_nodes(f, into_lambda=True):
                if isinstance(x, ast.Call):
                    t = call_tail(x)
                    if t in FORBIDDEN:
                        r.violation(f, f.loc(x), "web handler %s calls %s directly (below the gated node API)" % (
                            short(f), src(f, x.func)))
                    elif t in DIR_MUTATORS | FILE_MUTATORS and isinstance(x.func, ast.Attribute):
                        recv = attr_path(x.func.value) or ""
                        if recv.endswith("node") or recv in ("mv", "new_parent", "to_root"):
                            n_mut += 1
                            r.site(f, x, "%s.%s" % (recv, t))
                elif isinstance(x, ast.Attribute) and x.attr in PRIV_WRITE:
                    r.violation(f, f.loc(x), "web handler %s refers to the write internal %s" % (short(f), src(f, x)))
                elif isinstance(x, ast.Attribute) and x.attr == "_node" and not (
                        isinstance(x.value, ast.Name) and x.value.id == "self"):
                    top = f
                    while top.parent is not None:
                        top = top.parent
                    if top.qual not in NODE_ATTR_OK:
                        r.violation(f, f.loc(x), "web handler %s reaches the backing file node (%s) of a directory, "
                                    "below the directory's read-only refusal" % (short(f), src(f, x)))
                    else:
                        # the backing node is only asked for caps there
                        for c in calls_in_func(top, None, into_lambda=True):
                            if isinstance(c.func, ast.Attribute) and isinstance(c.func.value, ast.Name) \
                                    and c.func.value.id == "node" and call_tail(c) in DIR_MUTATORS | FILE_MUTATORS | {"upload"}:
                                r.violation(top, top.loc(c), "%s mutates through the backing node" % short(top))
        if n_funcs < 100 or n_mut < 1:
            raise AnchorVanished("web modules / node mutator calls not found")
        r.count(n_funcs)

    # ------------------------------------------------------------------ C41.5
    with ctx.rule("C41.5", "R7", "write-cap leakage: 'rw_uri' in JSON comes only from get_write_uri(); get_write_uri "
                  "answers a cap only behind not is_readonly(); child write caps are decrypted only for a writeable "
                  "directory; t=readonly-uri never returns get_uri() of a writeable node", expected=13) as r:
        # (a) JSON builders
        for f in idx.funcs.values():
            if not f.module.name.startswith("allmydata.web.") or "rw_uri" not in f.module.source:
                continue
            cfg = None
            for x in func_own_nodes(f, into_lambda=True):
                vals = []
                if isinstance(x, ast.Assign):
                    for t in x.targets:
                        if isinstance(t, ast.Subscript) and isinstance(t.slice, ast.Constant) and t.slice.value == "rw_uri":
                            vals.append(x.value)
                elif isinstance(x, ast.Dict):
                    for k, v in zip(x.keys, x.values):
                        if isinstance(k, ast.Constant) and k.value == "rw_uri":
                            vals.append(v)
                elif isinstance(x, ast.Call) and call_tail(x) in ("dict", "update"):
                    for k in x.keywords:
                        if k.arg == "rw_uri":
                            vals.append(k.value)
                for v in vals:
                    r.site(f, v, "rw_uri emitted")
                    cfg = cfg or f.cfg()
                    node = [n for n in cfg.nodes if n.ast is x or any(y is x for e in node_exprs(n) for y in own_nodes(e, into_lambda=True))]
                    fn_norm = FlowNorm(f)
                    val = fn_norm.resolve(node[0], v) if node else v
                    ok = isinstance(val, ast.Call) and call_tail(val) == "get_write_uri" and not val.args
                    r.require(ok, f, f.loc(v), "%s emits 'rw_uri' = %s, which is not the node's get_write_uri() (None "
                              "for read-only nodes)" % (short(f), src(f, val)))
        # (b) get_write_uri implementations
        TABLE = {"allmydata.unknown:UnknownNode.get_write_uri": "self.rw_uri"}  # opaque cap string kept as given
        impls = [f for f in idx.by_name.get("get_write_uri", []) if f.cls is not None
                 and not f.module.name.startswith("allmydata.interfaces")]
        for f in impls:
            r.site(f, None, "get_write_uri")
            cfg = f.cfg()
            fnorm = FlowNorm(f)

            def gives_cap(n, _f=f, _fn=fnorm):
                if not is_return(n):
                    return False
                v = n.ast.value
                if v is not None:
                    v = _fn.resolve(n, v)
                if v is None or (isinstance(v, ast.Constant) and v.value is None):
                    return False
                if isinstance(v, ast.Call) and call_tail(v) == "get_write_uri":
                    return False          # delegation to another node's get_write_uri
                if TABLE.get(_f.qual) == _fn.norm(n, v):
                    return False
                return True

            def not_ro(n, lab, _fn=fnorm):
                e = _fn.edge_fact(n, lab)
                return bool(e) and e[0] == "false" and re.match(r"^self(\._node|\._uri)?\.is_readonly\(\)$", e[1]) is not None
            for (n, w) in find_path_avoiding(cfg, gives_cap, gate_edge=not_ro):
                r.violation(f, f.loc(n.ast), "%s can answer a cap (%s) without having established that the node is "
                            "not read-only" % (short(f), src(f, n.ast.value)), w)
        if len(impls) < 6:
            raise AnchorVanished("get_write_uri implementations not found (%d)" % len(impls))
        # (c) decrypting child write caps
        up = idx.func(DIRN + "._unpack_contents")
        cfg = up.cfg()
        fnorm = FlowNorm(up)
        dec = has_call("_decrypt_rwcapdata")
        if not cfg.find(dec):
            raise AnchorVanished("_unpack_contents no longer calls _decrypt_rwcapdata")
        r.site(up, cfg.find(dec)[0].ast, "decrypt only when writeable")
        for (n, w) in find_path_avoiding(cfg, dec, gate_edge=lambda n, lab: fnorm.edge_fact(n, lab) == NOT_RO):
            r.violation(up, up.loc(n.ast), "child write caps are decrypted although the directory was opened "
                        "read-only (path: %s)" % w.brief(), w)
        bad, badrefs, total = _callers_outside(idx, "_decrypt_rwcapdata", [DIRN + "._unpack_contents"])
        for cs in bad:
            r.violation(cs.fn, cs.loc, "%s decrypts child write caps outside _unpack_contents" % short(cs.fn))
        # the value put into the child's write-cap slot is the one produced by that gated decryption
        for n in cfg.find(has_call("_create_and_validate_node")):
            c = calls_at(n, "_create_and_validate_node")[0]
            a0 = arg(c, 0)
            feeding = {call_tail(cc) for cc in calls_feeding(up, a0)} if a0 is not None else set()
            r.require("_decrypt_rwcapdata" in feeding, up, up.loc(c),
                      "the child's write-cap slot is filled from %s, not from the gated _decrypt_rwcapdata" % src(up, a0))
        # (d) t=readonly-uri
        for qual in ("web.filenode:_file_read_only_uri", "web.directory:_directory_readonly_uri"):
            f = idx.func(qual)
            r.site(f, None, "t=readonly-uri")
            cfg = f.cfg()
            fnorm = FlowNorm(f)
            uses_get_uri = lambda n: any(call_tail(c) == "get_uri" for c in node_calls(n))

            def is_ro(n, lab, _fn=fnorm):
                e = _fn.edge_fact(n, lab)
                return bool(e) and e[0] == "truth" and e[1].endswith(".is_readonly()")
            for (n, w) in find_path_avoiding(cfg, uses_get_uri, gate_edge=is_ro):
                r.violation(f, f.loc(n.ast), "t=readonly-uri serialises get_uri() of a node not known to be "
                            "read-only (a write cap for writeable nodes)", w)
            answers = [n for n in cfg.nodes if any(call_tail(c) in ("get_uri", "get_readonly_uri") for c in node_calls(n))]
            r.require(bool(answers), f, f.loc(), "t=readonly-uri no longer answers a cap of the node")

    # ------------------------------------------------------------------ C41.6
    with ctx.rule("C41.6", "R1/R4", "private area: requestAvatarId grants only on credentials.equals(get_auth_token()); "
                  "Token.equals is timing_safe_compare(valid, proposed) (salted-hash comparison); the private tree "
                  "is mounted only behind the HTTPAuthSessionWrapper", expected=5) as r:
        fn = idx.func("web.private:TokenChecker.requestAvatarId")
        cfg = fn.cfg()
        fnorm = FlowNorm(fn)
        cred = first_positional_params(fn)[0]

        def grants(n):
            if not is_return(n) or n.ast.value is None:
                return False
            v = fnorm.resolve(n, n.ast.value)      # `rv = fail(..); return rv` is still a refusal
            return not any(isinstance(x, ast.Call) and call_tail(x) in ("fail", "Failure", "UnauthorizedLogin")
                           for x in ast.walk(v))
        if not cfg.find(grants):
            raise AnchorVanished("requestAvatarId grants nothing")

        def token_ok(n, lab):
            e = fnorm.edge_fact(n, lab)
            return bool(e) and e == ("truth", "%s.equals(self.get_auth_token())" % cred, None)
        for n in cfg.find(grants):
            r.site(fn, n.ast, "grant")
        for (n, w) in find_path_avoiding(cfg, grants, gate_edge=token_ok):
            r.violation(fn, fn.loc(n.ast), "an avatar is granted without credentials.equals(<the node's auth token>) "
                        "(path: %s)" % w.brief(), w)
        # Token.equals
        eq = idx.func("web.private:Token.equals")
        vp = first_positional_params(eq)[0]
        rets = eq.cfg().find(is_return)
        if not rets:
            raise AnchorVanished("Token.equals has no return")
        r.site(eq, rets[0].ast, "timing-safe compare")
        en = FlowNorm(eq)
        for n in rets:
            v = en.resolve(n, n.ast.value) if n.ast.value is not None else None
            ok = isinstance(v, ast.Call) and call_tail(v) == "timing_safe_compare" and len(v.args) == 2 \
                and {en.norm(n, a) for a in v.args} == {vp, "self.proposed_token"}
            r.require(ok, eq, eq.loc(n.ast), "Token.equals answers %s, not timing_safe_compare(valid_token, "
                      "self.proposed_token)" % src(eq, n.ast.value))
        tsc_r = idx.resolve_name(eq.module, "timing_safe_compare")
        if not isinstance(tsc_r, FuncInfo):
            raise AnchorVanished("timing_safe_compare does not resolve to a package function")
        ps = first_positional_params(tsc_r)
        tn = FlowNorm(tsc_r)
        rets = tsc_r.cfg().find(is_return)
        r.site(tsc_r, rets[0].ast if rets else None, "salted-hash comparison")
        for n in rets:
            ok = False
            rv = tn.resolve(n, n.ast.value) if n.ast.value is not None else None
            for x in own_nodes(rv) if rv is not None else []:
                if isinstance(x, ast.Compare) and len(x.ops) == 1 and isinstance(x.ops[0], ast.Eq):
                    l, rr = x.left, x.comparators[0]
                    ls, rs = tn.norm(n, l), tn.norm(n, rr)
                    # both sides are hashes keyed with the same fresh random nonce, one per argument
                    m1 = re.match(r"^(\w+)\((\w+), (\w+)\)$", ls)
                    m2 = re.match(r"^(\w+)\((\w+), (\w+)\)$", rs)
                    if m1 and m2 and m1.group(1) == m2.group(1) and m1.group(2) == m2.group(2) \
                            and {m1.group(3), m2.group(3)} == set(ps[:2]):
                        kd = all_defs(tsc_r).get(m1.group(2), [])
                        ok = len(kd) == 1 and isinstance(kd[0], ast.Call) and call_tail(kd[0]) == "urandom"
            for x in own_nodes(rv) if rv is not None else []:
                if isinstance(x, ast.Compare):
                    for side in [x.left] + list(x.comparators):
                        if isinstance(side, ast.Name) and side.id in ps:
                            ok = False    # a direct comparison of the secrets
            r.require(ok, tsc_r, tsc_r.loc(n.ast), "timing_safe_compare answers %s: not an equality of hashes of both "
                      "arguments under one fresh random key" % src(tsc_r, n.ast.value))
        # the tree
        mk = idx.func("web.private:_create_private_tree")
        rets = mk.cfg().find(is_return)
        mn = FlowNorm(mk)
        r.site(mk, rets[0].ast if rets else None, "guarded tree")
        gp = first_positional_params(mk)
        for n in rets:
            s = mn.norm(n, n.ast.value)
            ok = re.match(r"^HTTPAuthSessionWrapper\(Portal\(PrivateRealm\(%s\), \[TokenChecker\(%s\)\]\), "
                          r"\[TokenCredentialFactory\(\)\]\)$" % (re.escape(gp[1]), re.escape(gp[0])), s) is not None
            r.require(ok, mk, mk.loc(n.ast), "_create_private_tree returns %s, not the vulnerable tree wrapped in "
                      "HTTPAuthSessionWrapper(Portal(PrivateRealm(tree), [TokenChecker(get_auth_token)]), ..)" % s)
        bad, badrefs, total = _callers_outside(idx, "_create_vulnerable_tree", ["web.private:create_private_tree"])
        r.site("callers of _create_vulnerable_tree: %d" % total)
        if total < 1:
            raise AnchorVanished("no caller of _create_vulnerable_tree")
        for cs in bad:
            r.violation(cs.fn, cs.loc, "%s obtains the unguarded private tree" % short(cs.fn))
        for (f, nd) in badrefs:
            r.violation(f, f.loc(nd), "%s takes _create_vulnerable_tree as a value" % short(f))
        cp = idx.func("web.private:create_private_tree")
        cpn = FlowNorm(cp)
        for n in cp.cfg().find(is_return):
            s = cpn.norm(n, n.ast.value)
            r.require(s == "_create_private_tree(%s, _create_vulnerable_tree())" % first_positional_params(cp)[0],
                      cp, cp.loc(n.ast), "create_private_tree returns %s" % s)
        bad, badrefs, total = _callers_outside(idx, "create_log_resources", ["web.private:_create_vulnerable_tree"])
        for cs in bad:
            r.violation(cs.fn, cs.loc, "%s mounts the log resources outside the token-guarded tree" % short(cs.fn))
        # realm hands out only the guarded root
        ra = idx.func("web.private:PrivateRealm.requestAvatar")
        ran = FlowNorm(ra)
        for n in ra.cfg().find(is_return):
            v = ran.resolve(n, n.ast.value) if n.ast.value is not None else None
            r.require(isinstance(v, ast.Tuple) and len(v.elts) == 3 and attr_path(v.elts[1]) == "self._root",
                      ra, ra.loc(n.ast), "PrivateRealm.requestAvatar returns %s" % (src(ra, v) if v is not None else "None"))

    # ------------------------------------------------------------------ C41.8
    with ctx.rule("C41.8", "R6/R7", "the read-only answers every gate and every listing rests on: DirectoryNode / "
                  "MutableFileNode.is_readonly() is the read-only flag of the cap the node was built from; every "
                  "get_readonly_uri() answers a diminished cap (<cap>.get_readonly().to_string(), a delegation, None, "
                  "or the node's own cap only in a class whose is_readonly() is constantly True)", expected=8) as r:
        RO_FLAG = re.compile(r"^self\.(_node|_uri|get_cap\(\))\.is_readonly\(\)$")

        def _always_returns(fn):
            cfg = fn.cfg()
            return not find_path_avoiding(cfg, lambda m: m.kind == "exit", gate_node=is_return)

        for qual in (DIRN + ".is_readonly", MFN + ".is_readonly"):
            fn = idx.func(qual)
            rets = fn.cfg().find(is_return)
            if not rets:
                raise AnchorVanished("%s has no return" % short(fn))
            r.site(fn, rets[0].ast, "is_readonly comes from the cap")
            fnorm = FlowNorm(fn)
            for n in rets:
                s = fnorm.norm(n, n.ast.value) if n.ast.value is not None else "None"
                r.require(RO_FLAG.match(s) is not None, fn, fn.loc(n.ast), "%s answers %s, not the read-only flag of "
                          "the cap the node was built from: the NotWriteableError refusals, get_write_uri() and the "
                          "child write-cap decryption all branch on it" % (short(fn), s))
            r.require(_always_returns(fn), fn, fn.loc(), "%s can fall off its end (None: 'not read-only')" % short(fn))

        def _const_true_readonly(ci):
            ro = ci.lookup("is_readonly")
            if ro is None:
                return False
            rets = ro.cfg().find(is_return)
            return bool(rets) and _always_returns(ro) and all(
                isinstance(n.ast.value, ast.Constant) and n.ast.value.value is True for n in rets)

        def _readcap_diminishes(ci):
            g = ci.lookup("get_readcap")
            if g is None:
                return False
            rets = g.cfg().find(is_return)
            gn = FlowNorm(g)
            return bool(rets) and _always_returns(g) and all(
                n.ast.value is not None and re.search(r"\.get_readonly\(\)$", gn.norm(n, n.ast.value)) is not None
                for n in rets)

        RO_TABLE = {"allmydata.unknown:UnknownNode.get_readonly_uri": "self.ro_uri"}   # opaque string kept as given
        impls = [f for f in idx.by_name.get("get_readonly_uri", []) if f.cls is not None
                 and not f.module.name.startswith("allmydata.interfaces")]
        for f in impls:
            r.site(f, None, "get_readonly_uri diminishes")
            fnorm = FlowNorm(f)
            for n in f.cfg().find(is_return):
                v = n.ast.value
                if v is None or (isinstance(v, ast.Constant) and v.value is None):
                    continue
                s = fnorm.norm(n, v)
                if re.search(r"\.get_readonly\(\)\.to_string\(\)$", s) or re.search(r"\.get_readonly_uri\(\)$", s):
                    continue
                if RO_TABLE.get(f.qual) == s:
                    continue
                if re.match(r"^self\.get_readcap\(\)\.to_string\(\)$", s) and _readcap_diminishes(f.cls):
                    continue
                if re.match(r"^self\.(get_uri\(\)|\w+\.to_string\(\)|get_cap\(\)\.to_string\(\))$", s):
                    if _const_true_readonly(f.cls):
                        continue
                    # the node's own cap is its read cap once the node is known to be read-only

                    def known_ro(m, lab, _fn=fnorm):
                        e = _fn.edge_fact(m, lab)
                        return bool(e) and e[0] == "truth" and re.match(
                            r"^self(\._node|\._uri|\.get_cap\(\))?\.is_readonly\(\)$", e[1]) is not None
                    if not find_path_avoiding(f.cfg(), lambda x, _n=n: x is _n, gate_edge=known_ro):
                        continue
                r.violation(f, f.loc(n.ast), "%s answers %s: not a cap diminished with get_readonly() (this string is "
                            "stored in clear in the parent directory's read-only slot and served by t=json / "
                            "t=readonly-uri to holders of a read cap)" % (short(f), s))
        if len(impls) < 6:
            raise AnchorVanished("get_readonly_uri implementations not found (%d)" % len(impls))


def nz_name(e):
    return attr_path(e) or ""


def _callers_outside(idx, tail, allowed):
    """callers_outside without the engine's duplicate attribution of calls inside top-level functions to the
    module pseudo-function."""
    bad, badrefs, total = callers_outside(idx, tail, allowed)
    cg = get_callgraph(idx)
    real = {id(cs.call) for cs in cg.calls_named(tail) if cs.fn.name != "<module>"}
    dup = [cs for cs in bad if cs.fn.name == "<module>" and id(cs.call) in real]
    n_dup = len([cs for cs in cg.calls_named(tail) if cs.fn.name == "<module>" and id(cs.call) in real])
    return [cs for cs in bad if cs not in dup], badrefs, total - n_dup


# -- node cache cannot hand a writeable node to a read-cap holder (shared with C18) ---------------------
# The gateway builds every node through NodeMaker.create_from_cap; if a node made from a write cap is cached
# under its read cap, a request carrying only the read cap gets the writeable node and every gate above
# (is_readonly -> NotWriteableError) answers for the wrong authority.
_run_web_and_node_gates = run


def run(ctx: Context):   # noqa: F811
    _run_web_and_node_gates(ctx)
    # C18.5: cache key.  C18.6: the node's `_writekey` (what Publish's assert in C41.1 tests, through get_writekey())
    # is non-None only for a cap shown to be writeable.  C18.2: the bytes of a directory readable with the read cap
    # carry a child's write authority only inside _encrypt_rw_uri (the clear read-only slot is get_readonly_uri(),
    # whose implementations C41.8 decides), so a listing made through a read cap cannot contain a child write cap.
    # C18.11: what DirectoryNode._unpack_contents (and the two child factories) hand out was made on that invocation
    # for that node, or remembered under a key that names the node's writeability (added after seeded change C41-H).
    ctx.include("C18", ["C18.5", "C18.6", "C18.2", "C18.11"], "C41.7")
    _rule_node_for_this_cap(ctx)


# -- C41.9: the node answered for a cap was made from that cap (added after seeded change C41-G) ----------------
# C18.5 decides what the existing cache `_node_cache` is keyed by.  That is worth nothing when create_from_cap (or
# the constructors below it) can answer with a node that came from somewhere else: a second index of live nodes, a
# memo in a helper, a memoising decorator.  Every gate of this property asks the *node* whether it is read-only, so a
# request carrying a read-only / verify cap must never be handed the node object somebody made from the write cap.
from . import C18 as _C18     # noqa: E402  (C41 adopts from C18; C18 never imports C41)

NM = "nodemaker:NodeMaker"
# <x>.m() tells x's full cap / writeability when x does
_CAP_KEEPING_METHODS = {"to_string", "encode", "decode", "digest", "hexdigest", "get_filenode_cap", "get_uri",
                        "get_cap", "is_readonly", "get_writekey", "init_from_cap"}
_CAP_KEEPING_ATTRS = {"writekey", "__class__"}
# f(.., x, ..) is one-to-one in x (parsers, conversions, collision-resistant hashes)
_CAP_KEEPING_FUNCS = {"from_string", "bytes", "str", "repr", "tuple", "type", "ensure_binary", "ensure_str",
                      "ensure_text", "to_bytes", "to_str", "tagged_hash", "tagged_pair_hash", "sha256", "sha256d",
                      "b2a", "join"}
_MEMO_DECORATORS = {"lru_cache", "cache", "cached", "memoize", "memoized", "cachedmethod", "cached_property"}
_NEUTRAL_DECORATORS = {"staticmethod", "classmethod", "implementer", "inlineCallbacks", "wraps"}
_STORE_CALLS = ("setdefault", "__setitem__", "set_with_aux", "update")


def _self_attr_uses(ci_list, attr):
    """(function, ast node, kind) for every touch of self.<attr> in the methods of the classes (nested defs and
    lambdas included); kind in 'bind' (self.attr = ..), 'fill' (self.attr[k] = .. / del / mutator call), 'read'"""
    out = []
    seen = set()
    for ci in ci_list:
        for m in ci.methods.values():
            for f in _all_funcs_of(m):
                if f.qual in seen:
                    continue
                seen.add(f.qual)
                for x in func_own_nodes(f, into_lambda=True):
                    if isinstance(x, ast.Attribute) and x.attr == attr and isinstance(x.value, ast.Name) \
                            and x.value.id == "self" and isinstance(x.ctx, (ast.Store, ast.Del)):
                        out.append((f, x, "bind"))
                    elif isinstance(x, ast.Subscript) and attr_path(x.value) == "self." + attr \
                            and isinstance(x.ctx, (ast.Store, ast.Del)):
                        out.append((f, x, "fill"))
                    elif isinstance(x, ast.Call) and isinstance(x.func, ast.Attribute) \
                            and attr_path(x.func.value) == "self." + attr and x.func.attr in _C18.Provenance.MUTATORS:
                        out.append((f, x, "fill"))
    return out


_PURE_BUILTINS = {"len", "dict", "list", "tuple", "set", "frozenset", "sorted", "enumerate", "zip", "iter", "reversed",
                  "any", "all", "max", "min", "sum", "map", "filter", "next", "isinstance", "issubclass", "bool"}
_READ_METHODS = {"get", "items", "keys", "values", "index", "count", "copy", "__contains__", "__getitem__", "__iter__",
                 "__len__"}


def _constant_table(idx, module, name):
    """The value expression of the module-level `name` when it is a constant: bound once at module level, to a
    tuple / list / set / dict display whose elements are literals, tuples of them, or references to classes / functions /
    module constants, and never re-bound or filled anywhere in the package (every reference to it is an iteration, a
    subscript read, a membership test, a reading method or an argument of a pure builtin).  None when it is state
    (re-bound, filled, or not such a display).  AnalysisError when a reference cannot be classified."""
    cache = idx.__dict__.setdefault("_c41_const_tables", {})
    key = (module.name, name)
    if key in cache:
        if isinstance(cache[key], AnalysisError):
            raise cache[key]
        return cache[key]
    try:
        cache[key] = _constant_table_0(idx, module, name)
    except AnalysisError as e:
        cache[key] = e
        raise
    return cache[key]


def _constant_table_0(idx, module, name):
    import builtins
    vals = module.assigns.get(name) or []
    if len(vals) != 1:
        return None
    val = vals[0]
    folder = get_folder(idx)

    def immut(e):
        if isinstance(e, ast.Constant):
            return True
        if isinstance(e, ast.Tuple):
            return all(immut(x) for x in e.elts)
        if isinstance(e, (ast.Name, ast.Attribute)) and attr_path(e) is not None:
            if isinstance(idx.resolve_expr(module, e), (ClassInfo, FuncInfo)):
                return True
            if isinstance(e, ast.Name) and e.id not in module.assigns and isinstance(getattr(builtins, e.id, None), type):
                return True
        if isinstance(e, (ast.Name, ast.Attribute, ast.BinOp, ast.UnaryOp)):
            try:
                v = folder.fold(e, module, None)
                return v is None or isinstance(v, (bool, int, float, str, bytes, tuple, frozenset))
            except NotConstant:
                return False
        return False
    if isinstance(val, (ast.Tuple, ast.List, ast.Set)):
        ok = all(immut(x) for x in val.elts)
    elif isinstance(val, ast.Dict):
        ok = all(k is not None and immut(k) for k in val.keys) and all(immut(v) for v in val.values)
    else:
        ok = False
    if not ok:
        return None
    kinds = []

    def classify(node, parent, grand, func, globs):
        if isinstance(node.ctx, (ast.Store, ast.Del)):
            if isinstance(node, ast.Attribute):
                return "mutate"
            if func is None:
                if isinstance(parent, ast.Assign) and len(parent.targets) == 1 and parent.targets[0] is node \
                        and parent.value is val:
                    return "def"
                return "mutate"
            return "mutate" if name in globs else "unknown"
        if isinstance(parent, ast.Subscript) and parent.value is node:
            return "mutate" if isinstance(parent.ctx, (ast.Store, ast.Del)) else "read"
        if isinstance(parent, ast.Attribute) and parent.value is node:
            if isinstance(grand, ast.Call) and grand.func is parent:
                if parent.attr in _C18.Provenance.MUTATORS | {"sort", "reverse"}:
                    return "mutate"
                if parent.attr in _READ_METHODS:
                    return "read"
            return "unknown"
        if isinstance(parent, (ast.For, ast.AsyncFor, ast.comprehension)) and parent.iter is node:
            return "read"
        if isinstance(parent, ast.Compare) and any(x is node for x in parent.comparators) \
                and all(isinstance(o, (ast.In, ast.NotIn)) for o in parent.ops):
            return "read"
        if isinstance(parent, ast.Call) and any(x is node for x in parent.args) and isinstance(parent.func, ast.Name) \
                and parent.func.id in _PURE_BUILTINS:
            return "read"
        return "unknown"

    def visit(node, parent, grand, func, globs, names_too):
        if isinstance(node, (ast.FunctionDef, ast.AsyncFunctionDef, ast.Lambda)):
            func = node
            globs = {g for x in ast.walk(node) if isinstance(x, ast.Global) for g in x.names}
        if (names_too and isinstance(node, ast.Name) and node.id == name) or \
                (isinstance(node, ast.Attribute) and node.attr == name):
            kinds.append((classify(node, parent, grand, func, globs), node))
        if isinstance(node, ast.ImportFrom) and any(a.name == name and a.asname not in (None, name) for a in node.names):
            kinds.append(("unknown", node))
        for ch in ast.iter_child_nodes(node):
            visit(ch, node, parent, func, globs, names_too)
    for m in idx.modules.values():
        if name not in m.source:                       # an identifier of the tree occurs in its text
            continue
        visit(m.tree, None, None, None, set(), m is module or name in m.imports)
    if any(k == "mutate" for (k, _x) in kinds):
        return None
    if sum(1 for (k, _x) in kinds if k == "def") != 1:
        return None
    bad = [x for (k, x) in kinds if k == "unknown"]
    if bad:
        raise AnalysisError("%s.%s looks like a constant table, but its use at line %s cannot be classified as a read" % (
            module.name, name, getattr(bad[0], "lineno", "?")))
    return val


class _CapProvenance(_C18.Provenance):
    """Provenance (see C18) of the node objects NodeMaker answers with, where the *context* is the cap of this call:
    a key `depends on the context` only if it keeps the cap apart from every other cap of the same object - the cap
    string / cap object itself, constant-prefixed or tupled, parsed, converted or hashed one-to-one, or the fields that
    tell the authority (cap class, is_readonly(), writekey).  The storage index, the verify cap, the read-only form
    do not: write, read and verify cap of one slot share them."""

    def __init__(self, idx, what, is_factory=None):
        super().__init__(idx, is_factory or (lambda env, c: False), what)
        self._config = {}
        self._sum_active = []
        self.built = []

    # -- does the value of e determine the cap of this call?
    # Facts about a value: "BIG" it determines the cap the node is made from; "W" / "R" it determines the string given
    # in the write / the read slot (entry points that take the two slots: the cap is `w or r`, so W and R together
    # determine it, either alone does not - `r or w` files the node made for (w, r) where (None, r) finds it).
    _ALL = frozenset(["BIG", "W", "R"])
    _NONE = frozenset()

    def ctxdep(self, env, e):
        return self.complete(self._facts(env, e, frozenset(), True))

    @staticmethod
    def complete(facts):
        return "BIG" in facts or ("W" in facts and "R" in facts)

    def flag_facts(self, env, name):
        k = getattr(env, "kinds", {}).get(name, "BIG")
        return frozenset([k]) if isinstance(k, str) else frozenset(k)

    def _facts(self, env, e, visiting, cyc):
        """cyc: whether a name that is defined in terms of itself (key += suffix) is granted everything on the way
        round: every definition of a name must keep the cap under that grant, and some definition without it"""
        F = lambda x: self._facts(env, x, visiting, cyc)      # noqa: E731

        def union(xs):
            out = self._NONE
            for x in xs:
                out = out | F(x)
            return out

        def inter(xs):
            out = None
            for x in xs:
                out = F(x) if out is None else out & F(x)
            return out or self._NONE
        if e is None or isinstance(e, ast.Constant):
            return self._NONE
        if isinstance(e, ast.Name):
            if e.id in env.flags:
                return self.flag_facts(env, e.id)
            if e.id in env.fn.params or e.id not in env.locals:
                return self._NONE
            if e.id in visiting:
                return self._ALL if cyc else self._NONE
            ds = env.defs.get(e.id, [])
            v2 = visiting | {e.id}
            out = None
            for d in ds:
                fd = self._facts(env, d, v2, cyc)
                out = fd if out is None else out & fd
            out = out or self._NONE
            if cyc and out:
                base = self._NONE
                for d in ds:
                    base = base | self._facts(env, d, v2, False)
                out = out & base
            return out
        if isinstance(e, ast.Attribute):
            return F(e.value) if e.attr in _CAP_KEEPING_ATTRS else self._NONE
        if isinstance(e, (ast.Tuple, ast.List)):
            return union(e.elts)
        if isinstance(e, ast.JoinedStr):
            return union(e.values)
        if isinstance(e, (ast.FormattedValue, ast.NamedExpr, ast.Starred)):
            return F(e.value)
        if isinstance(e, ast.BinOp) and isinstance(e.op, (ast.Add, ast.Mod)):
            return union([e.left, e.right])
        if isinstance(e, (ast.BoolOp, ast.IfExp)):
            big = getattr(env, "big_ok", ())
            if big and N(env.fn).norm(e) in big:
                return frozenset(["BIG"])
            return inter(e.values if isinstance(e, ast.BoolOp) else [e.body, e.orelse])
        if isinstance(e, ast.Call):
            f = e.func
            args = list(e.args) + [k.value for k in e.keywords]
            if isinstance(f, ast.Attribute):
                p = attr_path(f.value)
                if p == "self" and "self" in env.fn.params and env.fn.cls is not None:
                    g = env.fn.cls.lookup(f.attr)
                    return self.summary_facts(env, e, g, True, cyc) if g is not None else self._NONE
                root = p.split(".", 1)[0] if p else None
                if root is not None and root not in env.locals and root not in env.comp:
                    if f.attr in _CAP_KEEPING_FUNCS:
                        return union(args)
                    g = self.callee(env, e)
                    if g is not None:
                        return self.summary_facts(env, e, g, False, cyc)
                    return union(args) if isinstance(self.idx.resolve_expr(env.fn.module, f), ClassInfo) else self._NONE
                if f.attr == "join" and isinstance(f.value, ast.Constant):
                    return union(args)
                if f.attr in _CAP_KEEPING_METHODS:
                    return F(f.value) | (union(args) if f.attr == "init_from_cap" else self._NONE)
                return self._NONE
            if isinstance(f, ast.Name) and f.id not in env.locals:
                if f.id in _CAP_KEEPING_FUNCS:
                    return union(args)
                g = self.callee(env, e)
                if g is not None:
                    return self.summary_facts(env, e, g, False, cyc)
                return union(args) if isinstance(self.idx.resolve_expr(env.fn.module, f), ClassInfo) else self._NONE
        return self._NONE

    def summary_facts(self, env, c, g, method, cyc):
        """what every value the helper returns keeps, given what each of its arguments tells about the cap (the whole
        cap, or only the string of the write / the read slot: the distinction is carried into the helper)"""
        if env.depth >= 6 or isinstance(g.node, ast.Lambda) or g.qual in self._sum_active:
            return self._NONE
        b = self.bind(g, c, method)
        if b is None:
            return self._NONE
        kinds = {q: self._facts(env, x, frozenset(), cyc) for (q, x) in b.items()}
        kinds = {q: fx for (q, fx) in kinds.items() if fx}
        if not kinds:
            return self._NONE
        self._sum_active.append(g.qual)
        try:
            sub = _C18.Provenance.env(self, g, (), set(kinds), env.depth + 1, {})
            self._set_kinds(sub, kinds)
            rets = [n for n in sub.cfg.find(is_return) if n.id in sub.live]
            out = None
            for n in rets:
                fr = self._facts(sub, n.ast.value, frozenset(), cyc) if n.ast.value is not None else self._NONE
                out = fr if out is None else out & fr
            return out or self._NONE
        finally:
            self._sum_active.pop()

    @staticmethod
    def _set_kinds(env, kinds):
        """kinds: name -> 'W' / 'R' / set of facts.  When exactly one name carries the write slot and one the read
        slot, `w or r` (the cap create_from_cap builds the node from) is the whole cap."""
        env.kinds = {q: (frozenset([k]) if isinstance(k, str) else frozenset(k)) for (q, k) in kinds.items()}
        w = [q for (q, k) in env.kinds.items() if k == frozenset(["W"])]
        rd = [q for (q, k) in env.kinds.items() if k == frozenset(["R"])]
        if len(w) == 1 and len(rd) == 1:
            env.big_ok = {norm_src(t % {"w": w[0], "r": rd[0]}) for t in (
                "%(w)s or %(r)s", "%(w)s if %(w)s else %(r)s", "%(r)s if not %(w)s else %(w)s",
                "%(w)s if %(w)s is not None else %(r)s", "%(r)s if %(w)s is None else %(w)s")}

    def env(self, fn, roots=(), flags=(), depth=0, binding=None):
        """an activation reached by descent: what each argument tells about the cap (also a single slot) is carried
        into the helper, so that a helper handed (writecap, readcap) can key a memo by `writecap or readcap`"""
        flags = set(flags)
        kinds = {}
        for (q, src_) in (binding or {}).items():
            if src_ is None or q in flags:
                continue
            fx = self._facts(src_[0], src_[2], frozenset(), True)
            if fx:
                flags.add(q)
                kinds[q] = fx
        e = super().env(fn, roots, flags, depth, binding)
        if kinds:
            self._set_kinds(e, kinds)
        return e

    @staticmethod
    def bind(g, call, method=False):
        """a @staticmethod called on self has no receiver parameter to drop"""
        if method:
            for d in getattr(g.node, "decorator_list", []):
                if (attr_path(d) or "").rsplit(".", 1)[-1] == "staticmethod":
                    method = False
        return _C18.Provenance.bind(g, call, method)

    def top_env(self, f, flags, kinds=None):
        """activation of an analysed entry point; kinds: parameter -> 'W' / 'R' for the two cap slots"""
        env = self.env(f, (), flags)
        if kinds:
            self._set_kinds(env, kinds)
        return env

    # -- what outlives the call
    def is_config(self, ci, attr):
        """self.<attr> is bound only in a constructor, to a constructor parameter or a constant, and never filled:
        a collaborator handed in at construction, not a memory of earlier calls."""
        key = (ci.qual, attr)
        if key not in self._config:
            fam = [ci] + [c for c in ci.mro() if c is not ci] + self.idx.subclasses(ci)
            uses = _self_attr_uses(fam, attr)
            ok = bool(uses) and all(k == "bind" for (_f, _x, k) in uses)
            n_ok = 0
            if ok:
                for (f, x, _k) in uses:
                    if f.name != "__init__" or f.parent is not None:
                        ok = False
                        break
                    for st in func_own_nodes(f):
                        if isinstance(st, ast.Assign) and any(t is x for t in st.targets):
                            v = st.value
                            if (isinstance(v, ast.Name) and v.id in f.params) or isinstance(v, ast.Constant):
                                n_ok += 1
                ok = ok and n_ok == len(uses)
            self._config[key] = ok
        return self._config[key]

    def state_of(self, env, e):
        p = attr_path(e)
        if p is not None and "." in p:
            root, attr = p.split(".")[0], p.split(".")[1]
            if root == "self" and env.fn.cls is not None and "self" in env.locals and self.is_config(env.fn.cls, attr):
                return None
            if root not in env.locals and root not in env.comp:
                ci = self.idx.resolve_expr(env.fn.module, ast.Name(id=root, ctx=ast.Load()))
                if isinstance(ci, ClassInfo) and ci.lookup(attr) is None:
                    vals = ci.lookup_attr(attr) or []
                    if not isinstance(vals, (list, tuple)):
                        vals = [vals]
                    if any(not isinstance(v, ast.Constant) for v in vals):
                        return "%s (class-level state, shared by every instance)" % p
        if p is not None:
            root = p.split(".", 1)[0]
            m = env.fn.module
            if root not in env.locals and root not in env.comp and root in m.assigns \
                    and root not in m.funcs and root not in m.classes and _constant_table(self.idx, m, root) is not None:
                return None                            # a table of literals / code references nothing rebinds or fills
        return super().state_of(env, e)

    # -- the walk: remember which constructors make the answer, look at memoising decorators
    def method_names(self, env, n, e, depth=0):
        """the strings e can be: a literal, or what is read out of module-level constant tables (a superset: every
        string in the table).  AnalysisError when that cannot be told."""
        if depth > 12:
            raise AnalysisError("%s: cannot tell which method name %s is" % (env.fn.qual, src(env.fn, e)))
        R = lambda x, nn=n: self.method_names(env, nn, x, depth + 1)      # noqa: E731
        if isinstance(e, ast.Constant):
            return {e.value} if isinstance(e.value, str) else set()
        if isinstance(e, ast.Name):
            if e.id in env.locals:
                ds = env.fnorm.rd.get(n.id, {}).get(e.id, frozenset())
                out = set()
                if not ds:
                    raise AnalysisError("%s: no definition of %s reaches line %s" % (env.fn.qual, e.id, n.lineno))
                for d in sorted(ds):
                    if d == C.PARAM_DEF:
                        raise AnalysisError("%s: the method name %s is a parameter" % (env.fn.qual, e.id))
                    dn = env.cfg.nodes[d]
                    for dv in self.def_values(env, dn, e.id):
                        out |= self.method_names(env, dn, dv, depth + 1)
                return out
            m = env.fn.module
            tbl = _constant_table(self.idx, m, e.id) if e.id in m.assigns else None
            if tbl is None:
                raise AnalysisError("%s: the method name comes out of %s, which is not a constant table" % (env.fn.qual, e.id))
            return {x.value for x in ast.walk(tbl) if isinstance(x, ast.Constant) and isinstance(x.value, str)}
        if isinstance(e, (ast.Subscript, ast.Starred)):
            return R(e.value)
        if isinstance(e, (ast.Tuple, ast.List)):
            return set().union(*[R(x) for x in e.elts]) if e.elts else set()
        if isinstance(e, ast.IfExp):
            return R(e.body) | R(e.orelse)
        if isinstance(e, ast.BoolOp):
            return set().union(*[R(x) for x in e.values])
        if isinstance(e, ast.Call):
            if isinstance(e.func, ast.Attribute) and e.func.attr in ("get", "items", "values", "keys", "pop"):
                out = R(e.func.value)
                for x in e.args[1:]:
                    out |= R(x)
                return out
            if isinstance(e.func, ast.Name) and e.func.id not in env.locals and e.func.id in (
                    "enumerate", "sorted", "reversed", "list", "tuple", "iter", "zip", "next", "dict"):
                return set().union(*[R(x) for x in e.args]) if e.args else set()
        raise AnalysisError("%s: cannot tell which method name %s is" % (env.fn.qual, src(env.fn, e)))

    def call(self, env, n, c):
        f = c.func
        if isinstance(f, ast.Call) and isinstance(f.func, ast.Name) and f.func.id == "getattr" \
                and "getattr" not in env.locals and len(f.args) in (2, 3) and not f.keywords \
                and attr_path(f.args[0]) == "self" and "self" in env.fn.params and env.fn.cls is not None:
            # getattr(self, <name>)(..): dispatch through a table of method names - every method the name can be
            names = self.method_names(env, n, f.args[1])
            meths = sorted(x for x in names if isinstance(env.fn.cls.lookup(x), FuncInfo))
            if not meths:
                raise AnalysisError("%s calls getattr(self, %s)(..): no method of %s found under the names it can take" % (
                    env.fn.qual, src(env.fn, f.args[1]), env.fn.cls.name))
            if len(f.args) == 3:
                self.value(env, n, f.args[2])
            for nm in meths:
                syn = ast.Call(func=ast.Attribute(value=ast.Name(id="self", ctx=ast.Load()), attr=nm, ctx=ast.Load()),
                               args=list(c.args), keywords=list(c.keywords))
                for x in ast.walk(syn):
                    if not hasattr(x, "lineno"):
                        ast.copy_location(x, c)
                self._keep.append(syn)
                self.call(env, n, syn)
            return
        if isinstance(c.func, (ast.Name, ast.Attribute)) and attr_path(c.func) is not None \
                and attr_path(c.func).split(".", 1)[0] not in env.locals:
            tgt = self.idx.resolve_expr(env.fn.module, c.func)
            if isinstance(tgt, ClassInfo):
                self.built.append((env.fn, c, tgt))
        return super().call(env, n, c)

    def decorators(self, g):
        return [call_tail(d) if isinstance(d, ast.Call) else (attr_path(d) or "?").rsplit(".", 1)[-1]
                for d in getattr(g.node, "decorator_list", [])]

    def descend(self, env, n, c, g, method):
        decs = self.decorators(g)
        for d in decs:
            if d in _MEMO_DECORATORS:
                b = self.bind(g, c, method)
                if b is None or not any(self.ctxdep(env, x) for x in b.values()):
                    self.lose(env, c, "%s answers with what the memoising decorator @%s of %s remembers for the arguments "
                              "(%s), none of which includes %s" % (short(env.fn), d, short(g),
                                                                   ", ".join(src(env.fn, a) for a in c.args), self.what))
                    return
            elif d not in _NEUTRAL_DECORATORS:
                raise AnalysisError("%s is wrapped by @%s: cannot tell where the value it returns comes from" % (g.qual, d))
        return super().descend(env, n, c, g, method)


def _rule_node_for_this_cap(ctx: Context):
    idx = ctx.idx
    with ctx.rule("C41.9", "R3/R7", "NodeMaker.create_from_cap / _create_from_single_cap (and, by descent, the helpers "
                  "they call): every node answered is constructed from the given cap on this call, or comes out of "
                  "state that outlives the call only through a lookup whose key keeps the cap apart from the other "
                  "caps of the same object (full cap string / cap object / cap class / is_readonly() / writekey - "
                  "not storage index, verify cap or read-only form); whoever fills such a memo keys it likewise",
                  expected=8) as r:
        ci = idx.cls(NM)
        top = idx.func(NM + ".create_from_cap")
        single = idx.func(NM + "._create_from_single_cap")
        ps = first_positional_params(top)
        if ps[:2] != ["writecap", "readcap"]:
            raise AnchorVanished("create_from_cap(writecap, readcap, ..) signature changed")
        p1 = first_positional_params(single)
        if len(p1) != 1:
            raise AnchorVanished("_create_from_single_cap(cap) signature changed")
        # the gateway's own entry point (web handlers, SFTP): a delegation to the nodemaker, caps handed on in order
        entry = idx.func("client:_Client.create_node_from_uri")
        pe = first_positional_params(entry)
        if len(pe) < 2:
            raise AnchorVanished("create_node_from_uri(write_uri, read_uri, ..) signature changed")

        def to_nodemaker(env, c):
            return env.fn is entry and call_tail(c) == "create_from_cap" and isinstance(c.func, ast.Attribute)
        jobs = [(top, set(ps[:2]), "the cap string given (%s)" % " or ".join(ps[:2]), None),
                (single, set(p1), "the cap given (%s)" % p1[0], None),
                (entry, set(pe[:2]), "the cap string given (%s)" % " or ".join(pe[:2]), to_nodemaker)]
        top_flags = {f.qual: fl for (f, fl, _w, _fac) in jobs}
        top_kinds = {top.qual: {ps[0]: "W", ps[1]: "R"}, entry.qual: {pe[0]: "W", pe[1]: "R"}}
        memos = {}          # attribute of self -> [(function, reading expression)]
        for (f, flags, what, fac) in jobs:
            pv = _CapProvenance(idx, what, fac)
            for d in pv.decorators(f):
                if d not in _NEUTRAL_DECORATORS | _MEMO_DECORATORS:     # a memo over all arguments includes the cap
                    raise AnalysisError("%s is wrapped by @%s" % (f.qual, d))
            rets = pv.returns(pv.top_env(f, flags, top_kinds.get(f.qual)))
            if not rets:
                raise AnchorVanished("%s returns nothing" % short(f))
            made = [(g, x) for (g, x, k) in pv.leaves if k == "factory"]
            if not pv.built and not made and not pv.lost:
                raise AnchorVanished("no value returned by %s is constructed on the call" % short(f))
            for (g, c) in made:
                r.site(g, c, "delegates to the nodemaker")
                a0, a1 = arg(c, 0, ps[0]), arg(c, 1, ps[1])
                r.require(attr_path(a0) == pe[0] and attr_path(a1) == pe[1], g, g.loc(c),
                          "%s asks the nodemaker for (%s, %s) instead of the caps it was given (%s, %s)" % (
                              short(g), src(g, a0) if a0 is not None else "-", src(g, a1) if a1 is not None else "-",
                              pe[0], pe[1]))
            for n in rets:
                r.site(f, n.ast, "return")
            done = set()
            for (g, c, tgt) in pv.built:
                if id(c) not in done:
                    done.add(id(c))
                    r.site(g, c, "constructs %s" % tgt.name)
            for (g, x, k) in pv.leaves:
                if k == "memo keyed by the context":
                    r.site(g, x, "memo keyed by the cap")
                    path = attr_path(x.value) if isinstance(x, ast.Subscript) else attr_path(x.func.value) \
                        if isinstance(x, ast.Call) and isinstance(x.func, ast.Attribute) else None
                    if path is None or not path.startswith("self.") or path.count(".") != 1 or g.cls is not ci:
                        ctx.note("C41.9: %s reads a memo (%s) keyed by %s; who else fills it is not decided" % (
                            short(g), src(g, x), what))
                    else:
                        memos.setdefault(path.split(".")[1], []).append((g, x))
            r.count(pv.states)
            seen = set()
            for (g, x, msg) in pv.lost:
                k = (g.qual, getattr(x, "lineno", 0), msg)
                if k in seen:
                    continue
                seen.add(k)
                r.violation(g, g.loc(x), msg + ": a request that carries a read-only or verify cap can be answered with "
                            "the live node that was made from the write cap of the same object, and every write gate "
                            "asks that node")
        # who else fills the memos that create_from_cap answers from
        fam = [ci] + [c for c in ci.mro() if c is not ci] + idx.subclasses(ci)
        for attr in sorted(memos):
            readers = {g.qual for (g, _x) in memos[attr]}
            n_fill = 0
            for (f, x, kind) in _self_attr_uses(fam, attr):
                if kind != "fill":
                    continue
                n_fill += 1
                if f.qual in readers:
                    continue                    # judged by the walk (same key discipline as the lookup)
                _judge_fill(r, idx, f, x, attr, top_flags, top_kinds)
            r.site("fills of self.%s: %d" % (attr, n_fill))
            for g in idx.funcs.values():
                if g.cls is not None and g.cls in fam:
                    continue
                for x in func_own_nodes(g, into_lambda=True):
                    tgt = x.value if isinstance(x, ast.Subscript) and isinstance(x.ctx, (ast.Store, ast.Del)) else \
                        x.func.value if isinstance(x, ast.Call) and isinstance(x.func, ast.Attribute) \
                        and x.func.attr in _C18.Provenance.MUTATORS else None
                    if isinstance(tgt, ast.Attribute) and tgt.attr == attr:
                        r.violation(g, g.loc(x), "%s fills the node memo %s from outside %s: create_from_cap answers "
                                    "from it without knowing which cap the stored node was made from" % (
                                        short(g), src(g, tgt), ci.name))


def _judge_fill(r, idx, f, x, attr, top_flags, top_kinds, _depth=0):
    """A store into the node memo outside the function that reads it: the key must keep the cap of the call
    (when f is one of the analysed entry points), or the own cap of the node being stored (<node>.get_uri() /
    <node>.get_cap())."""
    pv = _CapProvenance(idx, "the cap the stored node was made from")
    if isinstance(x, ast.Subscript):
        if isinstance(x.ctx, ast.Del):
            return
        key = x.slice
        val = None
        for st in func_own_nodes(f, into_lambda=True):
            if isinstance(st, ast.Assign) and any(t is x for t in st.targets):
                val = st.value
    else:
        if x.func.attr not in _STORE_CALLS:
            return                              # pop / clear / move_to_end ..: forgets or reorders
        if x.func.attr == "update" or len(x.args) < 2:
            r.violation(f, f.loc(x), "%s fills the node memo self.%s in bulk (%s): the keys cannot be told" % (
                short(f), attr, src(f, x)))
            return
        key, val = x.args[0], x.args[1]
    flags = set(top_flags.get(f.qual, ()))
    if isinstance(val, ast.Name):
        flags.add(val.id)
    env = pv.top_env(f, flags, top_kinds.get(f.qual))
    if isinstance(key, ast.Name) and key.id in f.params and key.id not in env.defs and f.cls is not None \
            and f.parent is None and not isinstance(f.node, ast.Lambda) and _depth < 3:
        # a helper that files a node under the key it is handed: its callers (methods of the class, on self) answer
        sites = [(g, c) for m in f.cls.methods.values() for g in _all_funcs_of(m)
                 for c in calls_in_func(g, f.name, into_lambda=True)
                 if isinstance(c.func, ast.Attribute) and attr_path(c.func.value) == "self"]
        refs = [nd for (g, nd) in get_callgraph(idx).refs_named(f.name) if g.cls is f.cls]
        if sites and not refs:
            for (g, c) in sites:
                b = pv.bind(f, c, True)
                k2 = b.get(key.id) if b is not None else None
                v2 = b.get(val.id) if b is not None and isinstance(val, ast.Name) else None
                fl2 = set(top_flags.get(g.qual, ()))
                if isinstance(v2, ast.Name):
                    fl2.add(v2.id)
                if k2 is None or not pv.ctxdep(pv.top_env(g, fl2, top_kinds.get(g.qual)), k2):
                    r.violation(g, g.loc(c), "%s files a node in the memo self.%s (through %s), which create_from_cap "
                                "answers from, under the key %s: that key does not keep the cap the node was made from "
                                "apart from the other caps of the same object" % (
                                    short(g), attr, f.name, src(g, k2) if k2 is not None else "?"))
            return
    if not pv.ctxdep(env, key):
        r.violation(f, f.loc(x), "%s stores a node in the memo self.%s, which create_from_cap answers from, under the key "
                    "%s: that key does not keep the cap the node was made from apart from the other caps of the same "
                    "object" % (short(f), attr, src(f, key)))
