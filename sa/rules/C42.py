"""C42 Backup database reuses caps only for unchanged content.

Decided (DESIGN.md section 5 C42): the gate of check_file, the agreement of
every SQL statement's placeholders / selected columns with the values bound to
and unpacked from them (by provenance, not by name), the directory hash key and
the way tahoe_backup consumes the answers."""
from sa.h import *

EXPLANATION = (
    "Decided (structural, all paths): (1) check_file returns a FileResult carrying a cap only on paths that "
    "passed stored-size == stat-size, use_timestamps, stored-mtime == stat-mtime, stored-ctime == stat-ctime and a "
    "non-empty caps row; the stored values are columns of the local_files row selected WHERE path=<absolute path>, "
    "the cap is column filecap of the caps row selected by that row's fileid; (2) for every cursor.execute in "
    "backupdb.py the number of placeholders equals the number of bound values and each placeholder's column "
    "(explicit column list, SET/WHERE clause or schema order of CREATE TABLE) is bound to a value of that meaning, "
    "where the meaning of a value is its provenance: os.stat field, column of a fetched row (SELECT order <-> unpack "
    "index), absolute path, time.time(), directory hash, or - across FileResult/DirectoryResult constructors, their "
    "attributes and the did_* calls - the meaning of the argument at every call site; (3) check_directory's key "
    "is base32(backupdb_dirhash(join of netstring(name)+netstring(cap) over every entry of contents)): both "
    "components framed, every child included, the cap taken from contents[name]; (4) tahoe_backup skips an upload / "
    "mkdir only when was_uploaded()/was_created() is truthy, passes use_timestamps = not ignore-timestamps, records "
    "the cap the grid returned and reuses the cap the database returned; (5) every fileid written to local_files / "
    "last_upload is, on every path, the key of the caps row of the cap being recorded: column fileid fetched FROM caps "
    "WHERE filecap=<that cap>, or cursor.lastrowid read directly after an INSERT INTO caps of that cap that completed "
    "normally and is not OR IGNORE (after a swallowed error or an ignored duplicate lastrowid is the rowid of an "
    "earlier insert, i.e. another file's cap); (6) the size/mtime/ctime written to local_files originate, through every "
    "store of the FileResult attributes in any method, from an os.stat made outside the code reachable from "
    "FileResult.did_upload (the values check_file saw before the upload, not a re-stat when it has finished), and "
    "BackerUpper.upload calls check_backupdb_file before it reads the file and reports did_upload to the result it got "
    "before the PUT; (7) a cap is recorded only when the grid said the operation succeeded: every path to "
    "did_upload in BackerUpper.upload, and every path on which tahoe_backup.mkdir returns the response body that "
    "upload_directory hands to did_create, passed a test establishing that the status of the very response the cap is "
    "read from is a 2xx code (membership / equality with 2xx constants, or an upper bound below 300) - otherwise the "
    "body of an error response is stored as the cap of the unchanged file / directory and reused by every later run; "
    "(8) the directory key is an injective encoding of the contents on both sides: the hash check_directory looks a "
    "directory up by and the hash DirectoryResult.did_create stores it under are the same computation, and every child's "
    "name and cap reach its input through lossless steps only (abstract evaluation over reaching definitions: utf-8 "
    "encoding, netstring, list/tuple building, sorting, concatenation, joining, helpers of the module by their return "
    "values; any other call - Unicode normalisation, case folding, stripping - a slice, a comprehension filter, a "
    "truncating format, an element removed from the list or the mapping consumes the component and is reported); "
    "(9) likewise the key of a file's record: every value bound to column path of local_files, and the path given to "
    "FileResult, carries the method's path parameter through lossless steps only (abspath_expanduser_unicode counts as "
    "lossless: it maps spellings of one file to one key). "
    "Undecided: the t=check round trip of check_backupdb_file / check_backupdb_directory (should_check, HTTP status and "
    "'healthy' of the check, did_check_healthy: whether a recorded cap is still retrievable is not part of the property), "
    "durability (connection.commit() - an uncommitted record only causes a re-upload), whether a 2xx body really is a "
    "cap, whether the directory mkdir creates from create_contents has the children that compare_contents was hashed "
    "from (built by the caller, value-level), SQLite semantics, os.stat granularity (a change that preserves size, mtime and ctime), sorting of "
    "the directory entries (affects only how often a directory is re-created, not wrong reuse - planned clause "
    "dropped), probability arithmetic of should_check, whether a callee accepted as lossless by its name (netstring, to_bytes, "
    "abspath_expanduser_unicode, base32.b2a) really is.")
TECHNIQUE = "static analysis: CFG must-precede gates over provenance roles, SQL/schema table extraction, interprocedural role propagation, abstract evaluation of lossless value flow into the keys"

BDB = "scripts.backupdb"
TB = "scripts.tahoe_backup"
DB_CLS = BDB + ":BackupDB_v2"

# externally called entry points: (class.method, positional index after self) -> meaning
ENTRY = {
    ("FileResult.did_upload", 0): "filecap",
    ("DirectoryResult.did_create", 0): "dircap",
    ("BackupDB_v2.check_file", 0): "path as given by the caller (not made absolute)",
}
STAT_FIELDS = {"ST_SIZE": "size", "ST_MTIME": "mtime", "ST_CTIME": "ctime",
               "st_size": "size", "st_mtime": "mtime", "st_ctime": "ctime"}
STAT_GETTERS = {"os.path.getsize": "size", "os.path.getmtime": "mtime", "os.path.getctime": "ctime"}
TIMESTAMP_COLS = {"last_uploaded", "last_checked"}


# ----------------------------------------------------------------- SQL
def split_top(s):
    out, depth, cur = [], 0, ""
    for ch in s:
        if ch == "(":
            depth += 1
        elif ch == ")":
            depth -= 1
        if ch == "," and depth == 0:
            out.append(cur)
            cur = ""
        else:
            cur += ch
    if cur.strip():
        out.append(cur)
    return [x.strip() for x in out]


def parse_schema(text):
    text = "\n".join(ln.split("--")[0] for ln in text.splitlines())
    tables = {}
    for m in re.finditer(r"CREATE\s+TABLE\s+(\w+)\s*\((.*?)\)\s*;", text, re.S | re.I):
        cols = [c.split()[0] for c in split_top(m.group(2)) if c.split()]
        tables[m.group(1)] = cols
    return tables


def rowid_aliases(text):
    """{table: column} for the columns declared INTEGER PRIMARY KEY (SQLite: alias of the rowid, the value a
    successful INSERT leaves in cursor.lastrowid)."""
    text = "\n".join(ln.split("--")[0] for ln in text.splitlines())
    out = {}
    for m in re.finditer(r"CREATE\s+TABLE\s+(\w+)\s*\((.*?)\)\s*;", text, re.S | re.I):
        for c in split_top(m.group(2)):
            if re.match(r"^\w+\s+INTEGER\s+PRIMARY\s+KEY\b", c.strip(), re.I):
                out[m.group(1)] = c.split()[0]
    return out


def unq(col):
    return col.strip().split(".")[-1]


class Sql:
    def __init__(self, text, schema):
        self.text = " ".join(text.split())
        t = self.text
        self.kind = t.split()[0].upper()
        self.select = []         # selected columns (unqualified)
        self.select_q = []       # as written
        self.tables = []
        self.ph = []             # column of each '?' in order (unqualified)
        self.where = []           # columns compared with a placeholder
        self.joins = []           # other conditions
        self.conflict = None      # INSERT OR <x> / REPLACE
        nq = t.count("?")

        def where_cols(w):
            cols = []
            for cond in re.split(r"\s+AND\s+", w, flags=re.I):
                m = re.match(r"^\s*([\w.]+)\s*=\s*\?\s*$", cond)
                if m:
                    cols.append(unq(m.group(1)))
                elif "?" in cond:
                    raise AnalysisError("cannot attribute the placeholders of WHERE clause %r" % w)
                else:
                    self.joins.append(cond.strip())
            return cols
        m = re.match(r"^SELECT\s+(.*?)\s+FROM\s+(.*?)(?:\s+WHERE\s+(.*))?$", t, re.I)
        if m:
            self.select_q = [c.strip() for c in m.group(1).split(",")]
            self.select = [unq(c) for c in self.select_q]
            self.tables = [x.strip() for x in m.group(2).split(",")]
            if m.group(3):
                self.where = where_cols(m.group(3))
            self.ph = list(self.where)
        else:
            m = re.match(r"^(?:INSERT(?:\s+OR\s+\w+)?|REPLACE)\s+INTO\s+(\w+)\s*(?:\((.*?)\))?\s*VALUES\s*\((.*?)\)$", t, re.I)
            if m:
                self.kind = "INSERT"
                mc = re.match(r"^INSERT\s+OR\s+(\w+)", t, re.I)
                self.conflict = mc.group(1).upper() if mc else ("REPLACE" if t.upper().startswith("REPLACE") else None)
                self.tables = [m.group(1)]
                vals = [v.strip() for v in m.group(3).split(",")]
                if m.group(2):
                    cols = [unq(c) for c in m.group(2).split(",")]
                else:
                    if m.group(1) not in schema:
                        raise AnalysisError("INSERT into table %s which the schema does not declare" % m.group(1))
                    cols = list(schema[m.group(1)])
                if len(cols) != len(vals):
                    self.mismatch = "%d values for %d columns %s" % (len(vals), len(cols), cols)
                    cols = cols[:len(vals)]
                self.ph = [c for c, v in zip(cols, vals) if v == "?"]
            else:
                m = re.match(r"^UPDATE\s+(\w+)\s+SET\s+(.*?)(?:\s+WHERE\s+(.*))?$", t, re.I)
                if m:
                    self.tables = [m.group(1)]
                    for a in m.group(2).split(","):
                        mm = re.match(r"^\s*([\w.]+)\s*=\s*(.*?)\s*$", a)
                        if not mm:
                            raise AnalysisError("cannot parse SET clause %r" % a)
                        if mm.group(2) == "?":
                            self.ph.append(unq(mm.group(1)))
                    if m.group(3):
                        self.where = where_cols(m.group(3))
                        self.ph += self.where
                else:
                    m = re.match(r"^DELETE\s+FROM\s+(\w+)(?:\s+WHERE\s+(.*))?$", t, re.I)
                    if not m:
                        raise AnalysisError("SQL statement form not understood: %r" % t)
                    self.tables = [m.group(1)]
                    if m.group(2):
                        self.where = where_cols(m.group(2))
                    self.ph = list(self.where)
        if len(self.ph) != nq:
            raise AnalysisError("cannot attribute every placeholder of %r to a column" % t)
        for tb in self.tables:
            if tb not in schema:
                raise AnalysisError("statement %r uses table %s which the schema does not declare" % (t, tb))
        known = set()
        for tb in self.tables:
            known |= set(schema[tb])
        self.unknown_cols = sorted(c for c in set(self.ph) | set(self.select) if c not in known)


# --------------------------------------------------------------- roles
class Roles:
    """Meaning of values in backupdb.py by provenance.  A role is a tuple:
    ('stat', field) ('db', column, execute-call) ('row', execute-call) ('statres', role) ('now',) ('path',)
    ('rawpath',) ('dirhash',) ('rawdirhash',) ('sem', name[, parts]) ('const', value); a ('stat', field, os.stat call,
    function) remembers where the file was examined, ('sem', name, parts) the roles that were merged, and
    ('bad', message, function, node) is a value that provably does not mean what its use needs (e.g. cursor.lastrowid
    read where the governing INSERT may not have inserted a row)."""

    def __init__(self, idx):
        self.idx = idx
        self.folder = get_folder(idx)
        self.mod = idx.module("allmydata." + BDB)
        self.schema = parse_schema(self.folder.module_const(BDB, "SCHEMA_v2"))
        self.rowid = rowid_aliases(self.folder.module_const(BDB, "SCHEMA_v2"))
        self._attr = {}
        self._fn = {}
        self._sql = {}
        self._param = {}
        self._ret = {}
        self.funcs = [f for f in idx.funcs.values() if f.module is self.mod]
        self.states = 0

    def flow(self, fn):
        f = self._fn.get(fn.qual)
        if f is None:
            f = self._fn[fn.qual] = FlowNorm(fn)
        return f

    def node_of(self, fn, sub):
        for n in fn.cfg().nodes:
            for e in node_exprs(n):
                for x in own_nodes(e, into_lambda=True):
                    if x is sub:
                        return n
        raise AnalysisError("expression not found in the CFG of %s" % fn.qual)

    # -- SQL
    def sql_of(self, fn, call):
        s = self._sql.get(id(call))
        if s is None:
            a0 = arg(call, 0)
            try:
                text = self.folder.fold(a0, fn.module, fn.cls)
            except NotConstant as e:
                raise AnalysisError("SQL text of %s is not a constant: %s" % (src(fn, call)[:60], e))
            if not isinstance(text, str):
                raise AnalysisError("SQL text is not a string in %s" % fn.qual)
            s = self._sql[id(call)] = Sql(text, self.schema)
        return s

    def governing_execute(self, fn, node):
        """The execute() whose result the fetch at `node` reads: the unique nearest execute on every path back."""
        cfg = fn.cfg()
        seen, found, work = set(), [], [p for (p, lab) in cfg.predecessors(node) if lab != "exc"]
        while work:
            n = work.pop()
            if n.id in seen:
                continue
            seen.add(n.id)
            ex = calls_at(n, "execute")
            if ex:
                found.append(ex[-1])
                continue
            if n.kind == "entry":
                found.append(None)
                continue
            work.extend(p for (p, lab) in cfg.predecessors(n) if lab != "exc")
        self.states += len(seen)
        uniq = {id(x) for x in found}
        if len(uniq) != 1 or found[0] is None:
            raise AnalysisError("cannot tell which execute() feeds the fetch at %s" % fn.loc(node.ast))
        return found[0]

    def last_executes(self, fn, node):
        """[(execute call or None, failed)] - the nearest execute() on every path back from `node`, exceptional edges
        included; failed = the path leaves that execute by its exception edge (the statement did not complete)."""
        cfg = fn.cfg()
        seen, found = set(), []
        work = list(cfg.predecessors(node))
        while work:
            (n, lab) = work.pop()
            if (n.id, lab == "exc") in seen:
                continue
            seen.add((n.id, lab == "exc"))
            ex = calls_at(n, "execute")
            if ex:
                found.append((ex[-1], lab == "exc"))
                continue
            if n.kind == "entry":
                found.append((None, False))
                continue
            work.extend(cfg.predecessors(n))
        self.states += len(seen)
        return found

    def lastrowid_role(self, fn, node, e):
        """cursor.lastrowid identifies a row only directly after an INSERT that is known to have inserted one: SQLite
        leaves the value of the connection's previous successful insert in place when the statement raised or when
        INSERT OR IGNORE skipped a duplicate."""
        if isinstance(e.value, ast.Call) and call_tail(e.value) == "execute":
            found = [(e.value, False)]
        else:
            found = self.last_executes(fn, node)
        if not found:
            return None
        rs = []
        for (ex, failed) in found:
            if ex is None:
                return ("bad", "%s is read on a path on which no statement was executed" % src(fn, e), fn, e)
            sql = self.sql_of(fn, ex)
            if failed:
                return ("bad", "%s is read after %r raised (the handler continues): it still holds the rowid of the "
                        "last successful insert, which belongs to another row" % (src(fn, e), sql.text), fn, e)
            if sql.kind != "INSERT":
                return ("bad", "%s is read after %r, which inserts nothing" % (src(fn, e), sql.text), fn, e)
            if sql.conflict == "IGNORE":
                return ("bad", "%s is read after %r: when the row already exists nothing is inserted and lastrowid still "
                        "holds the rowid of the last successful insert, which belongs to another row" % (
                            src(fn, e), sql.text), fn, e)
            col = self.rowid.get(sql.tables[0])
            if col is None:
                return None
            rs.append(("db", col, ex, fn))
        return self.merge(rs)

    @staticmethod
    def parts(r):
        """The unmerged roles a role stands for."""
        if r is not None and r[0] == "sem" and len(r) > 2:
            out = []
            for x in r[2]:
                out.extend(Roles.parts(x))
            return out
        return [r]

    # -- semantic name of a role
    @staticmethod
    def sem(r):
        if r is None:
            return None
        k = r[0]
        if k in ("stat", "db", "sem"):
            return r[1]
        if k == "now":
            return "now"
        if k == "path":
            return "path"
        if k == "dirhash":
            return "dirhash"
        return None

    # -- roles
    def role(self, fn, node, e, depth=0):
        if depth > 12 or e is None:
            return None
        R = lambda x, n=node: self.role(fn, n, x, depth + 1)
        if isinstance(e, ast.Constant):
            return ("const", e.value)
        if isinstance(e, ast.Name):
            fl = self.flow(fn)
            ds = fl.rd.get(node.id, {}).get(e.id)
            if not ds:
                if fn.parent is not None and e.id not in fn.params:
                    # free variable of a nested function: its value where the function is defined
                    for pn in fn.parent.cfg().nodes:
                        if pn.kind == "stmt" and pn.ast is fn.node:
                            return self.role(fn.parent, pn, e, depth + 1)
                return None
            roles = []
            for d in sorted(ds):
                if d == C.PARAM_DEF:
                    roles.append(self.param_role(fn, e.id, depth + 1))
                else:
                    dn = fl.cfg.nodes[d]
                    v = fl._def_value(dn, e.id)
                    roles.append(self.role(fn, dn, v, depth + 1) if v is not None else None)
            return self.merge(roles)
        if isinstance(e, ast.Attribute):
            if e.attr == "lastrowid":
                return self.lastrowid_role(fn, node, e)
            if isinstance(e.value, ast.Name) and e.value.id == "self" and fn.cls is not None:
                return self.attr_role(fn.cls, e.attr, depth + 1)
            base = R(e.value)
            if base and base[0] == "statres" and e.attr in STAT_FIELDS:
                return ("stat", STAT_FIELDS[e.attr], base[2], base[3]) if self.sem(base[1]) == "path" else None
            return None
        if isinstance(e, ast.Subscript):
            base = R(e.value)
            if base is None:
                return None
            if base[0] == "row" and isinstance(e.slice, ast.Constant) and isinstance(e.slice.value, int):
                sql = self.sql_of(base[2], base[1])
                i = e.slice.value
                if 0 <= i < len(sql.select):
                    return ("db", sql.select[i], base[1], base[2])
                return None
            if base[0] == "statres":
                nm = e.slice.attr if isinstance(e.slice, ast.Attribute) else (e.slice.id if isinstance(e.slice, ast.Name) else None)
                if nm in STAT_FIELDS:
                    return ("stat", STAT_FIELDS[nm], base[2], base[3]) if self.sem(base[1]) == "path" else None
            return None
        if isinstance(e, ast.Call):
            tail, name = call_tail(e), call_name(e)
            if name in ("os.stat", "os.lstat") and len(e.args) == 1:
                return ("statres", R(e.args[0]), e, fn)
            if name in STAT_GETTERS and len(e.args) == 1:
                return ("stat", STAT_GETTERS[name], e, fn) if self.sem(R(e.args[0])) == "path" else None
            if name == "time.time" and not e.args:
                return ("now",)
            if tail == "fetchone":
                ex = self.governing_execute(fn, node)
                return ("row", ex, fn)
            if tail == "abspath_expanduser_unicode" and len(e.args) >= 1:
                return ("path",)
            if tail in ("to_bytes", "bytes", "str", "to_str", "unicode_to_argv") and len(e.args) == 1:
                return R(e.args[0])
            if tail == "backupdb_dirhash" and len(e.args) == 1:
                return ("rawdirhash", e, fn)
            if name == "base32.b2a" and len(e.args) == 1:
                b = R(e.args[0])
                return ("dirhash", b[1], b[2]) if b and b[0] == "rawdirhash" else None
            # a method of the database class: meaning of what it returns
            ci = self.idx.cls(DB_CLS)
            if isinstance(e.func, ast.Attribute) and tail in ci.methods and attr_path(e.func.value) in ("self", "self.bdb"):
                return self.return_role(ci.methods[tail], depth + 1)
            return None
        return None

    def merge(self, roles):
        roles = [r for r in roles if not (r is not None and r[0] == "const" and r[1] is None)]
        if not roles:
            return ("const", None)
        for r in roles:
            if r is not None and r[0] == "bad":
                return r
        if any(r is None for r in roles):
            return None
        if all(r == roles[0] for r in roles):
            return roles[0]
        sems = {self.sem(r) for r in roles}
        if len(sems) == 1 and None not in sems:
            return ("sem", sems.pop(), tuple(roles))
        if None not in sems:
            return ("conflict", tuple(sorted(sems)))
        return None

    def return_role(self, fn, depth=0):
        key = fn.qual
        if key in self._ret:
            return self._ret[key]
        self._ret[key] = None
        rs = [self.role(fn, n, n.ast.value, depth + 1) for n in fn.cfg().find(is_return)]
        self._ret[key] = self.merge(rs) if rs else None
        return self._ret[key]

    def attr_role(self, ci, attr, depth=0):
        """Meaning of self.<attr> in a method of `ci`: every store to the attribute - in the constructor, in any other
        method of the class (flow-insensitively: a method that refreshes the attribute changes what later readers see)
        and, as an unknown, any store through another name in backupdb.py / tahoe_backup.py."""
        key = (ci.qual, attr)
        if key in self._attr:
            return self._attr[key]
        self._attr[key] = None          # cycle guard
        if ci.lookup("__init__") is None:
            return None
        rs = []
        family = {c.qual for c in ci.mro()} | {c.qual for c in self.idx.subclasses(ci)}
        for m in self.idx.funcs.values():
            if m.cls is None or m.cls.qual not in family:
                continue
            for n in m.cfg().nodes:
                if n.kind in ("stmt", "iter", "with") and ("self." + attr) in node_stores(n):
                    v = assign_value(n, "self." + attr) if n.kind == "stmt" else None
                    rs.append(self.role(m, n, v, depth + 1) if v is not None else None)
        for modname in (BDB, TB):
            mod = self.idx.module("allmydata." + modname)
            for f in self.idx.funcs.values():
                if f.module is not mod:
                    continue
                for x in func_own_nodes(f):
                    if isinstance(x, ast.Attribute) and isinstance(x.ctx, (ast.Store, ast.Del)) and x.attr == attr \
                            and not (isinstance(x.value, ast.Name) and x.value.id == "self"):
                        rs.append(None)
            for x in ast.walk(mod.tree):
                if isinstance(x, ast.Call) and call_name(x) == "setattr":
                    rs.append(None)
        self._attr[key] = self.merge(rs) if rs else None
        return self._attr[key]

    def call_sites(self, fn):
        """[(caller, call)] inside backupdb.py of a method (by name) or of a class constructor."""
        name = fn.name
        out = []
        if name == "__init__" and fn.cls is not None:
            name = fn.cls.name
        for f in self.funcs:
            for c in calls_in_func(f, name, into_lambda=True):
                out.append((f, c))
        return out

    def param_role(self, fn, pname, depth=0):
        key = (fn.qual, pname)
        if key in self._param:
            return self._param[key]
        self._param[key] = None          # cycle guard
        ps = first_positional_params(fn)
        if pname not in ps:
            return None
        pos = ps.index(pname)
        sites = self.call_sites(fn)
        if not sites:
            ent = ENTRY.get((short(fn), pos))
            r = ("sem", ent) if ent else ("entry", short(fn), pos)
            self._param[key] = r
            return r
        rs = []
        for (caller, c) in sites:
            a = arg(c, pos, pname)
            if a is None:
                # default value of the parameter
                rs.append(("const", None))
                continue
            rs.append(self.role(caller, self.node_of(caller, c), a, depth + 1))
        r = self.merge(rs)
        self._param[key] = r
        return r


def compare_roles(roles, fn, n, lab):
    """For a branch edge: ('==', roleL, roleR) / ('truth', role, expr) / ('false', role, expr) or None."""
    if n.kind != "test" or not isinstance(lab, tuple):
        return None
    pol = lab[0] == "T"
    e = n.ast
    fl = roles.flow(fn)
    hops = 0
    while hops < 6:
        hops += 1
        if isinstance(e, ast.UnaryOp) and isinstance(e.op, ast.Not):
            e, pol = e.operand, not pol
            continue
        if isinstance(e, ast.Name):
            d = fl.resolve(n, e, depth=1)
            if d is not e and isinstance(d, (ast.Compare, ast.UnaryOp)):
                e = d
                continue
        break
    if isinstance(e, ast.Compare) and len(e.ops) == 1 and isinstance(e.ops[0], (ast.Eq, ast.NotEq)):
        eq = isinstance(e.ops[0], ast.Eq) == pol
        return ("==" if eq else "!=", roles.role(fn, n, e.left), roles.role(fn, n, e.comparators[0]))
    return ("truth" if pol else "false", roles.role(fn, n, e), e)


_MIRROR = {ast.Lt: ast.Gt, ast.LtE: ast.GtE, ast.Gt: ast.Lt, ast.GtE: ast.LtE}
_NEGATE = {ast.Lt: ast.GtE, ast.LtE: ast.Gt, ast.Gt: ast.LtE, ast.GtE: ast.Lt}


def http_success_edge(fl, folder, fn, n, lab, resp_call):
    """Does leaving test node `n` by edge `lab` establish that the status of the response produced by the call
    `resp_call` (identity of the AST node, through reaching definitions) is a 2xx code?  Accepted facts:
    status in <2xx constants>, status == <2xx constant>, status < k / status <= k with 200 <= bound <= 299 (error
    responses have status >= 300; the lower bound is not needed to exclude them)."""
    if n.kind != "test" or not isinstance(lab, tuple):
        return False

    def holds(e, pol, hops=0):
        """`e` evaluating to `pol` establishes the fact."""
        if hops > 8:
            return False
        if isinstance(e, ast.UnaryOp) and isinstance(e.op, ast.Not):
            return holds(e.operand, not pol, hops + 1)
        if isinstance(e, ast.Name):
            d = fl.resolve(n, e, depth=1)
            return d is not e and holds(d, pol, hops + 1)
        if isinstance(e, ast.BoolOp):
            # (a and b) true / (a or b) false: every operand has that value, one establishing operand suffices;
            # otherwise only one operand is known to have it: all of them must establish the fact
            conj = isinstance(e.op, ast.And) == pol
            return (any if conj else all)(holds(v, pol, hops + 1) for v in e.values)
        if isinstance(e, ast.Compare):
            return compare_holds(e, pol)
        return False

    def is_status(x):
        x = fl.resolve(n, x)
        return isinstance(x, ast.Attribute) and x.attr == "status" and fl.resolve(n, x.value) is resp_call

    def ints(x):
        try:
            v = folder.fold(fl.resolve(n, x), fn.module, fn.cls)
        except NotConstant:
            return None
        if isinstance(v, bool):
            return None
        if isinstance(v, int):
            return [v]
        if isinstance(v, (tuple, list, set, frozenset)) and v and all(isinstance(i, int) and not isinstance(i, bool) for i in v):
            return list(v)
        return None
    ok2xx = lambda k: 200 <= k <= 299

    def compare_holds(e, pol):
        operands = [e.left] + list(e.comparators)
        pairs = list(zip(operands[:-1], e.ops, operands[1:]))
        if len(pairs) > 1 and not pol:
            return False          # the negation of a chain is a disjunction: nothing is established
        for (lhs, op, rhs) in pairs:
            if is_status(lhs):
                other, opt = rhs, type(op)
            elif is_status(rhs) and type(op) in _MIRROR:
                other, opt = lhs, _MIRROR[type(op)]
            elif is_status(rhs) and isinstance(op, (ast.Eq, ast.NotEq)):
                other, opt = lhs, type(op)
            else:
                continue
            ks = ints(other)
            if ks is None:
                continue
            if opt in (ast.In, ast.NotIn):
                if (opt is ast.In) == pol and all(ok2xx(k) for k in ks):
                    return True
            elif len(ks) != 1:
                continue
            elif opt in (ast.Eq, ast.NotEq):
                if (opt is ast.Eq) == pol and ok2xx(ks[0]):
                    return True
            elif opt in _NEGATE:
                if not pol:
                    opt = _NEGATE[opt]
                bound = ks[0] - 1 if opt is ast.Lt else (ks[0] if opt is ast.LtE else None)
                if bound is not None and ok2xx(bound):
                    return True
        return False
    return holds(n.ast, lab[0] == "T")


# ------------------------------------------------- lossless value flow
# Abstract values of the "which components arrive intact" evaluation (rules C42.8 / C42.9):
#   TOP                       carries no component and constrains nothing (constants, empty literals, cycles)
#   ("flat", atoms)           one string/bytes value from which the components `atoms` can be recovered
#   ("seq", (v, ..))          a list/tuple literal of known length
#   ("coll", v)               a collection whose every element is v
#   ("dict", katoms, vatoms)  a mapping whose keys carry katoms and whose values carry vatoms
TOP = ("top",)
UTF8 = {"utf-8", "utf8", "utf_8", "u8", "utf"}
STRICT_ERRORS = {"strict", "surrogateescape", "surrogatepass", "backslashreplace", "xmlcharrefreplace", "namereplace"}
# one-argument callables that return an injective re-encoding of their argument (or the argument itself)
IDENTITY_CALLS = {"netstring", "to_bytes", "to_str", "bytes", "str", "unicode", "ensure_binary", "ensure_text", "ensure_str",
                  "b2a", "b2a_hex", "hexlify", "b64encode", "urlsafe_b64encode", "repr", "abspath_expanduser_unicode",
                  "unicode_to_argv", "argv_to_unicode", "memoryview", "bytearray"}
# callables that return the elements of their first argument (order / container type is irrelevant to the key)
SEQUENCE_CALLS = {"sorted", "list", "tuple", "iter", "reversed", "set", "frozenset"}
GROWING = {"append": 0, "add": 0, "insert": 1}
SHRINKING = {"pop", "remove", "clear", "popitem", "discard", "__delitem__"}
_PCT_PREC = re.compile(r"%(?:\([^)]*\))?[#0\- +]*(?:\*|\d+)?(?P<prec>\.(?:\*|\d+))?[hlL]?[diouxXeEfFgGcrsab%]")


def _flat(atoms=()):
    return ("flat", frozenset(atoms))


def _atoms(v):
    k = v[0]
    if k == "flat":
        return v[1]
    if k == "seq":
        out = frozenset()
        for x in v[1]:
            out |= _atoms(x)
        return out
    if k == "coll":
        return _atoms(v[1])
    if k == "dict":
        return v[1] | v[2]
    return frozenset()


def _meet(vals):
    """What is certain whichever of `vals` the value is (alternative definitions, elements appended at several sites)."""
    vals = [v for v in vals if v != TOP]
    if not vals:
        return TOP
    out = vals[0]
    for v in vals[1:]:
        if out[0] == v[0] == "seq" and len(out[1]) == len(v[1]):
            out = ("seq", tuple(_meet([a, b]) for a, b in zip(out[1], v[1])))
        elif out[0] == v[0] == "coll":
            out = ("coll", _meet([out[1], v[1]]))
        elif out[0] == v[0] == "dict":
            out = ("dict", out[1] & v[1], out[2] & v[2])
        elif out[0] == v[0] == "flat":
            out = _flat(out[1] & v[1])
        else:
            out = _flat(_atoms(out) & _atoms(v))
    return out


def _elem(v):
    """An element obtained by iterating over v."""
    if v[0] == "coll":
        return v[1]
    if v[0] == "dict":
        return _flat(v[1])
    if v[0] == "seq":
        return _meet(list(v[1])) if v[1] else TOP
    return v


def _destructure(target, v, out):
    if isinstance(target, ast.Name):
        out[target.id] = v
    elif isinstance(target, ast.Starred):
        _destructure(target.value, _flat(_atoms(v)) if v != TOP else TOP, out)
    elif isinstance(target, (ast.Tuple, ast.List)):
        plain = not any(isinstance(t, ast.Starred) for t in target.elts)
        for i, t in enumerate(target.elts):
            if v[0] == "seq" and plain and len(v[1]) == len(target.elts):
                _destructure(t, v[1][i], out)
            elif v[0] == "coll":
                _destructure(t, v[1], out)
            elif v == TOP:
                _destructure(t, TOP, out)
            else:
                _destructure(t, _flat(_atoms(v)), out)
    return out


class _Frame:
    def __init__(self, fn, fl, params, parent=None, at=None, depth=0):
        self.fn, self.fl, self.params, self.parent, self.at, self.depth = fn, fl, params, parent, at, depth
        self.cfg = fl.cfg


class Lossless:
    """Which components of a source value (the entries of check_directory's `contents`, the path of check_file) can
    still be recovered from an expression?  A component survives list/tuple construction, iteration, sorting, framing
    (netstring), concatenation, joining, utf-8 encoding and the like; any other call, a slice, a comprehension filter, a
    truncating format or a comparison consumes it, and the consuming construct is remembered as a culprit.  Locals are
    followed through their reaching definitions (alternatives are intersected), collections through every site that
    adds to / removes from them, helpers of the same module through their return values."""

    def __init__(self, roles, folder):
        self.roles, self.folder = roles, folder
        self.culprits = []       # (fn, node, what, atoms consumed)
        self.opaque = []         # (fn, node): values the evaluation cannot see into (attributes, foreign state)
        self._busy = set()
        self.steps = 0

    # -- bookkeeping
    def lose(self, fr, node, what, atoms):
        if atoms and not any(c[1] is node for c in self.culprits):
            self.culprits.append((fr.fn, node, what, frozenset(atoms)))
        return _flat()

    def unknown(self, fr, node):
        if not any(o[1] is node for o in self.opaque):
            self.opaque.append((fr.fn, node))
        return _flat()

    def root(self, fn, params):
        return _Frame(fn, self.roles.flow(fn), params)

    # -- names
    def name(self, fr, node, e, env):
        if e.id in env:
            return env[e.id]
        ds = fr.fl.rd.get(node.id, {}).get(e.id)
        if not ds:
            if fr.parent is not None and fr.at is not None and e.id not in fr.fn.params:
                return self.name(fr.parent, fr.at, e, {})
            return self.unknown(fr, e)
        vals = []
        for d in sorted(ds):
            key = (id(fr), d, e.id)
            if key in self._busy:
                vals.append(TOP)
                continue
            self._busy.add(key)
            try:
                if d == C.PARAM_DEF:
                    v = fr.params.get(e.id)
                    if v is None:
                        v = self.unknown(fr, e)
                    elif v[0] == "dict":
                        v = self.unmodified(fr, e.id, v)
                else:
                    v = self.definition(fr, fr.cfg.nodes[d], e.id)
            finally:
                self._busy.discard(key)
            vals.append(v)
        v = _meet(vals)
        if v[0] == "coll":
            v = self.mutations(fr, e.id, v)
        return v

    def definition(self, fr, dn, name):
        a = dn.ast
        if dn.kind == "iter":
            got = _destructure(a.target, _elem(self.ev(fr, dn, a.iter, {})), {})
            return got.get(name, TOP)
        if dn.kind == "stmt" and isinstance(a, (ast.Assign, ast.AnnAssign)) and a.value is not None:
            v = self.ev(fr, dn, a.value, {})
            for t in (a.targets if isinstance(a, ast.Assign) else [a.target]):
                got = _destructure(t, v, {})
                if name in got:
                    return got[name]
        if dn.kind == "stmt" and isinstance(a, ast.AugAssign) and isinstance(a.target, ast.Name) and a.target.id == name:
            old = self.name(fr, dn, a.target, {})
            new = self.ev(fr, dn, a.value, {})
            if isinstance(a.op, ast.Add):
                return self.concat(old, new)
            return self.lose(fr, a, "the augmented assignment %s" % src(fr.fn, a), _atoms(old) | _atoms(new))
        for x in (y for ex in node_exprs(dn) for y in own_nodes(ex)):
            if isinstance(x, ast.NamedExpr) and isinstance(x.target, ast.Name) and x.target.id == name:
                return self.ev(fr, dn, x.value, {})
        return self.unknown(fr, a)

    def unmodified(self, fr, pname, v):
        """The mapping handed in is hashed as given: nothing removes, adds or replaces entries first."""
        for x in func_own_nodes(fr.fn):
            hit = None
            if isinstance(x, ast.Call) and isinstance(x.func, ast.Attribute) and attr_path(x.func.value) == pname \
                    and x.func.attr in (SHRINKING | {"update", "setdefault"}):
                hit = x
            elif isinstance(x, ast.Subscript) and isinstance(x.ctx, (ast.Store, ast.Del)) and attr_path(x.value) == pname:
                hit = x
            if hit is not None:
                return self.lose(fr, hit, "%s, which changes %s before it is examined" % (src(fr.fn, hit), pname), _atoms(v))
        return v

    def mutations(self, fr, name, v):
        key = (id(fr), "mut", name)
        if key in self._busy:
            return v
        self._busy.add(key)
        try:
            elems = [v[1]]
            for n in fr.cfg.nodes:
                for x in (y for ex in node_exprs(n) for y in own_nodes(ex)):
                    if isinstance(x, ast.Call) and isinstance(x.func, ast.Attribute) and attr_path(x.func.value) == name:
                        t = x.func.attr
                        if t in GROWING and len(x.args) > GROWING[t]:
                            elems.append(self.ev(fr, n, x.args[GROWING[t]], {}))
                        elif t == "extend" and x.args:
                            elems.append(_elem(self.ev(fr, n, x.args[0], {})))
                        elif t in SHRINKING:
                            return ("coll", self.lose(fr, x, "%s, which removes entries" % src(fr.fn, x), _atoms(_meet(elems))))
                    elif isinstance(x, ast.Subscript) and isinstance(x.ctx, ast.Del) and attr_path(x.value) == name:
                        return ("coll", self.lose(fr, x, "del %s, which removes entries" % src(fr.fn, x), _atoms(_meet(elems))))
            return ("coll", _meet(elems))
        finally:
            self._busy.discard(key)

    @staticmethod
    def concat(a, b):
        if a == TOP:
            return b
        if b == TOP:
            return a
        if a[0] == b[0] == "coll":
            return ("coll", _meet([a[1], b[1]]))
        if a[0] == b[0] == "seq":
            return ("seq", a[1] + b[1])
        return _flat(_atoms(a) | _atoms(b))

    # -- expressions
    def ev(self, fr, node, e, env):
        self.steps += 1
        if self.steps > 20000:
            raise AnalysisError("lossless-flow evaluation does not terminate in %s" % fr.fn.qual)
        if e is None or isinstance(e, ast.Constant):
            return TOP
        if isinstance(e, ast.Name):
            return self.name(fr, node, e, env)
        if isinstance(e, (ast.List, ast.Tuple)):
            if not e.elts:
                return ("coll", TOP)
            if any(isinstance(x, ast.Starred) for x in e.elts):
                return ("coll", _meet([_elem(self.ev(fr, node, x.value, env)) if isinstance(x, ast.Starred)
                                       else self.ev(fr, node, x, env) for x in e.elts]))
            return ("seq", tuple(self.ev(fr, node, x, env) for x in e.elts))
        if isinstance(e, ast.Set):
            return ("coll", _meet([self.ev(fr, node, x, env) for x in e.elts]))
        if isinstance(e, (ast.ListComp, ast.GeneratorExp, ast.SetComp, ast.DictComp)):
            env2 = dict(env)
            filters = []
            for g in e.generators:
                _destructure(g.target, _elem(self.ev(fr, node, g.iter, env2)), env2)
                filters.extend(g.ifs)
            if isinstance(e, ast.DictComp):
                k, v = self.ev(fr, node, e.key, env2), self.ev(fr, node, e.value, env2)
                out = ("dict", _atoms(k), _atoms(v))
            else:
                out = ("coll", self.ev(fr, node, e.elt, env2))
            if filters:
                self.lose(fr, filters[0], "the filter `if %s`, which leaves entries out" % src(fr.fn, filters[0]), _atoms(out))
                return ("coll", _flat())
            return out
        if isinstance(e, ast.Starred):
            return self.ev(fr, node, e.value, env)
        if isinstance(e, ast.NamedExpr):
            return self.ev(fr, node, e.value, env)
        if isinstance(e, ast.IfExp):
            return _meet([self.ev(fr, node, e.body, env), self.ev(fr, node, e.orelse, env)])
        if isinstance(e, ast.BoolOp):
            return _meet([self.ev(fr, node, x, env) for x in e.values])
        if isinstance(e, ast.BinOp):
            return self.binop(fr, node, e, env)
        if isinstance(e, ast.JoinedStr):
            out = frozenset()
            for x in e.values:
                if isinstance(x, ast.FormattedValue):
                    v = self.ev(fr, node, x.value, env)
                    if x.format_spec is not None:
                        self.lose(fr, x, "the format specification in %s" % src(fr.fn, e), _atoms(v))
                    else:
                        out |= _atoms(v)
            return _flat(out)
        if isinstance(e, ast.Subscript):
            return self.subscript(fr, node, e, env)
        if isinstance(e, ast.Call):
            return self.call(fr, node, e, env)
        if isinstance(e, (ast.Compare, ast.UnaryOp)):
            got = frozenset()
            for x in ast.iter_child_nodes(e):
                if isinstance(x, ast.expr):
                    got |= _atoms(self.ev(fr, node, x, env))
            return self.lose(fr, e, "%s, of which only the outcome is kept" % src(fr.fn, e), got) if got else TOP
        if isinstance(e, ast.Attribute):
            base = self.quiet(fr, node, e.value, env)
            if _atoms(base):
                return self.lose(fr, e, "the attribute %s" % src(fr.fn, e), _atoms(base))
            return self.unknown(fr, e)
        return self.unknown(fr, e)

    def quiet(self, fr, node, e, env):
        """Evaluate without remembering what could not be seen into (receivers such as modules, self, constants)."""
        keep = list(self.opaque)
        try:
            return self.ev(fr, node, e, env)
        finally:
            self.opaque = keep

    def binop(self, fr, node, e, env):
        lhs, rhs = self.ev(fr, node, e.left, env), self.ev(fr, node, e.right, env)
        if isinstance(e.op, ast.Add):
            return self.concat(lhs, rhs)
        if isinstance(e.op, ast.Mod) and not _atoms(lhs):
            try:
                tpl = self.folder.fold(fr.fl.resolve(node, e.left), fr.fn.module, fr.fn.cls)
            except NotConstant:
                tpl = None
            if isinstance(tpl, bytes):
                tpl = tpl.decode("latin-1")
            if not isinstance(tpl, str):
                return self.lose(fr, e, "the formatting %s (template not constant)" % src(fr.fn, e), _atoms(rhs))
            if any(m.group("prec") for m in _PCT_PREC.finditer(tpl)):
                return self.lose(fr, e, "the truncating format %r" % tpl, _atoms(rhs))
            return _flat(_atoms(rhs))
        if isinstance(e.op, ast.Mult):
            return _flat(_atoms(lhs) | _atoms(rhs))
        got = _atoms(lhs) | _atoms(rhs)
        return self.lose(fr, e, "the arithmetic %s" % src(fr.fn, e), got) if got else TOP

    def subscript(self, fr, node, e, env):
        base = self.ev(fr, node, e.value, env)
        if isinstance(e.slice, ast.Slice):
            return self.lose(fr, e, "the slice %s, which truncates" % src(fr.fn, e), _atoms(base))
        if base[0] == "dict":
            k = self.ev(fr, node, e.slice, env)
            if k[0] == "flat" and base[1] and base[1] <= k[1]:
                return _flat(base[2])
            return self.lose(fr, e, "%s, which is not the value stored for the entry's own key" % src(fr.fn, e), base[2])
        const = isinstance(e.slice, ast.Constant) and isinstance(e.slice.value, int)
        if base == TOP:
            return TOP
        if base[0] == "seq":
            if const and -len(base[1]) <= e.slice.value < len(base[1]):
                return base[1][e.slice.value]
            return _elem(base)
        if base[0] == "coll":
            if const:
                return self.lose(fr, e, "%s, which picks one element" % src(fr.fn, e), _atoms(base))
            return base[1]
        # component i of a value whose structure was not followed: lenient, the whole value
        return base

    @staticmethod
    def codec_ok(call):
        enc = arg(call, 0, "encoding")
        err = arg(call, 1, "errors")
        if enc is not None and not (isinstance(enc, ast.Constant) and isinstance(enc.value, str)
                                    and enc.value.lower() in UTF8):
            return False
        return err is None or (isinstance(err, ast.Constant) and err.value in STRICT_ERRORS)

    def callee(self, fr, e):
        f = e.func
        if isinstance(f, ast.Name):
            x = fr
            while x is not None:
                if f.id in x.fn.nested:
                    return x.fn.nested[f.id], x
                x = x.parent
            g = fr.fn.module.funcs.get(f.id)
            return (g, None) if g is not None and g.cls is None and g.parent is None else (None, None)
        if isinstance(f, ast.Attribute) and isinstance(f.value, ast.Name) and f.value.id == "self" and fr.fn.cls is not None:
            g = fr.fn.cls.lookup(f.attr)
            return (g, None) if g is not None and g.module is fr.fn.module else (None, None)
        return None, None

    def call(self, fr, node, e, env):
        tail = call_tail(e)
        args = [self.ev(fr, node, a, env) for a in e.args] + [self.ev(fr, node, k.value, env) for k in e.keywords
                                                            if k.arg not in ("key", "reverse")]
        got = frozenset()
        for a in args:
            got |= _atoms(a)
        recv = None
        if isinstance(e.func, ast.Attribute):
            recv = self.quiet(fr, node, e.func.value, env)
        what = "the call %s" % src(fr.fn, e)
        if recv is not None and (recv[0] in ("dict", "coll", "seq") or _atoms(recv)):
            # a method of the data itself
            if recv[0] == "dict":
                if tail in ("keys", "iterkeys", "viewkeys", "__iter__"):
                    return ("coll", _flat(recv[1]))
                if tail in ("values", "itervalues", "viewvalues"):
                    return ("coll", _flat(recv[2]))
                if tail in ("items", "iteritems", "viewitems"):
                    return ("coll", ("seq", (_flat(recv[1]), _flat(recv[2]))))
                if tail == "copy":
                    return recv
                if tail == "get" and len(e.args) == 1 and args[0][0] == "flat" and recv[1] and recv[1] <= args[0][1]:
                    return _flat(recv[2])
                return self.lose(fr, e, what, _atoms(recv) | got)
            if recv[0] in ("coll", "seq"):
                if tail in ("copy", "__iter__"):
                    return recv
                return self.lose(fr, e, what, _atoms(recv) | got)
            if tail in ("encode", "decode") and self.codec_ok(e):
                return recv
            if tail == "hex" and not e.args:
                return recv
            if tail == "join" and len(e.args) == 1:
                return _flat(_atoms(recv) | got)
            if tail == "format":
                return _flat(_atoms(recv) | got)
            return self.lose(fr, e, what + ", which is not a lossless re-encoding", _atoms(recv) | got)
        # a function (or a method of something that is not the data)
        if tail == "join" and len(e.args) == 1 and isinstance(e.func, ast.Attribute):
            return _flat(got)
        if tail == "format" and isinstance(e.func, ast.Attribute):
            try:
                tpl = self.folder.fold(fr.fl.resolve(node, e.func.value), fr.fn.module, fr.fn.cls)
            except NotConstant:
                tpl = None
            if isinstance(tpl, (str, bytes)) and ":" not in (tpl if isinstance(tpl, str) else tpl.decode("latin-1")):
                return _flat(got)
            return self.lose(fr, e, what, got)
        if tail in IDENTITY_CALLS and len(e.args) >= 1:
            if tail in ("str", "bytes", "unicode", "bytearray") and (len(e.args) > 1 or e.keywords) and not self.codec_ok(
                    ast.Call(func=e.func, args=e.args[1:], keywords=e.keywords)):
                return self.lose(fr, e, what, got)
            return _flat(_atoms(args[0]))
        if tail in SEQUENCE_CALLS and len(e.args) == 1:
            a = args[0]
            if a[0] == "dict":
                return ("coll", _flat(a[1]))
            if a[0] == "seq":
                return a if tail in ("list", "tuple") else ("coll", _elem(a))
            return a
        if tail == "dict" and len(e.args) == 1 and not e.keywords:
            a = args[0]
            if a[0] == "dict":
                return a
            el = _elem(a)
            if el[0] == "seq" and len(el[1]) == 2:
                return ("dict", _atoms(el[1][0]), _atoms(el[1][1]))
            return self.lose(fr, e, what, got)
        if tail == "enumerate" and e.args:
            return ("coll", ("seq", (TOP, _elem(args[0]))))
        if tail == "zip" and e.args and not e.keywords:
            return ("coll", ("seq", tuple(_elem(a) for a in args)))
        g, owner = self.callee(fr, e)
        if g is not None and fr.depth < 3 and not isinstance(g.node, ast.Lambda):
            key = ("call", g.qual)
            if key not in self._busy:
                ps = first_positional_params(g)
                params = {}
                for i, p in enumerate(ps):
                    a = arg(e, i, p)
                    params[p] = self.ev(fr, node, a, env) if a is not None else TOP
                at = None
                if owner is not None:
                    for pn in owner.cfg.nodes:
                        if pn.kind == "stmt" and pn.ast is g.node:
                            at = pn
                sub = _Frame(g, self.roles.flow(g), params, parent=owner, at=at, depth=fr.depth + 1)
                rets = [n for n in sub.cfg.find(is_return) if n.ast.value is not None]
                if rets:
                    self._busy.add(key)
                    try:
                        return _meet([self.ev(sub, n, n.ast.value, {}) for n in rets])
                    finally:
                        self._busy.discard(key)
        if got:
            return self.lose(fr, e, what + ", which is not a lossless re-encoding", got)
        return self.unknown(fr, e)

    def verdicts(self, value, want):
        """[(component, [culprit, ..])] for the components of `want` that `value` no longer carries; raises when the
        loss cannot be attributed and part of the flow could not be seen into."""
        out = []
        for a in sorted(set(want) - set(_atoms(value))):
            cs = [c for c in self.culprits if a in c[3]]
            if not cs and self.opaque:
                fn, x = self.opaque[0]
                raise AnalysisError("cannot tell whether component %r reaches the key: the value of %s at %s is not followed" % (
                    a, src(fn, x), fn.loc(x)))
            out.append((a, cs))
        return out


def _with_nested(f):
    yield f
    for g in f.nested.values():
        for x in _with_nested(g):
            yield x


def run(ctx: Context):
    idx = ctx.idx
    roles = Roles(idx)
    dbc = idx.cls(DB_CLS)

    # -- 1. the gate of check_file ------------------------------------------
    with ctx.rule("C42.1", "R1", "check_file: a FileResult carrying a cap is returned only after stored size/mtime/ctime "
                  "== os.stat size/mtime/ctime, use_timestamps and a non-empty caps row; the stored values come from "
                  "the local_files row of the absolute path, the cap from the caps row of that row's fileid", expected=6) as r:
        fn = idx.func(DB_CLS + ".check_file")
        cfg = fn.cfg()
        ps = first_positional_params(fn)
        if len(ps) < 2:
            raise AnchorVanished("check_file(path, use_timestamps) signature")
        ts_param = ps[1]
        fr_init = idx.func(BDB + ":FileResult.__init__")
        fr_params = first_positional_params(fr_init)
        if "filecap" not in fr_params:
            raise AnchorVanished("FileResult.__init__(.., filecap, ..)")
        cap_pos = fr_params.index("filecap")

        def cap_arg(n):
            for c in node_calls(n):
                if call_tail(c) == "FileResult":
                    a = arg(c, cap_pos, "filecap")
                    if a is not None and not (isinstance(a, ast.Constant) and a.value is None):
                        return (c, a)
            return None
        targets = [n for n in cfg.find(is_return) if cap_arg(n)]
        if not targets:
            raise AnchorVanished("check_file never returns a FileResult with a cap")
        is_target = lambda n: any(n is t for t in targets)
        cache = {}

        def fact(n, lab):
            k = (n.id, lab[0] if isinstance(lab, tuple) else lab)
            if k not in cache:
                cache[k] = compare_roles(roles, fn, n, lab)
            return cache[k]

        def same(field):
            def g(n, lab):
                f = fact(n, lab)
                if not f or f[0] != "==" or f[1] is None or f[2] is None:
                    return False
                kinds = {f[1][0], f[2][0]}
                return kinds == {"db", "stat"} and f[1][1] == field and f[2][1] == field
            return g
        for field in ("size", "mtime", "ctime"):
            r.site(fn, None, "gate stored %s == current %s" % (field, field))
            bad = find_path_avoiding(cfg, is_target, gate_edge=same(field))
            r.count(len(cfg.nodes))
            for (n, w) in bad:
                r.violation(fn, fn.loc(n.ast), "a previously uploaded cap is reused on a path that never compared the stored "
                            "%s with the file's current %s (path: %s)" % (field, field, w.brief()), w)
        r.site(fn, None, "gate use_timestamps")

        def trusted(n, lab):
            f = fact(n, lab)
            return bool(f) and f[0] == "truth" and isinstance(f[2], ast.Name) and f[2].id == ts_param \
                and C.PARAM_DEF in roles.flow(fn).rd.get(n.id, {}).get(ts_param, ())
        for (n, w) in find_path_avoiding(cfg, is_target, gate_edge=trusted, kill=stores(ts_param)):
            r.violation(fn, fn.loc(n.ast), "a cap is reused although %s may be false (timestamps not trusted) (path: %s)" % (
                ts_param, w.brief()), w)
        r.site(fn, None, "gate caps row present")

        def have_row(n, lab):
            f = fact(n, lab)
            return bool(f) and f[0] == "truth" and f[1] is not None and f[1][0] == "row" \
                and "caps" in roles.sql_of(f[1][2], f[1][1]).tables
        for (n, w) in find_path_avoiding(cfg, is_target, gate_edge=have_row):
            r.violation(fn, fn.loc(n.ast), "the caps row is used on a path that did not check it was found (path: %s)" % w.brief(), w)
        # provenance of the compared values and of the cap
        r.site(fn, None, "provenance")
        for t in targets:
            c, a = cap_arg(t)
            cr = roles.role(fn, t, a)
            if not (cr and cr[0] == "db" and cr[1] == "filecap"):
                r.violation(fn, fn.loc(c), "the reused cap %s is not the filecap column of a fetched row" % src(fn, a))
                continue
            sql2 = roles.sql_of(cr[3], cr[2])
            r.require("caps" in sql2.tables and sql2.where and set(sql2.where) == {"fileid"}, fn, fn.loc(cr[2]),
                      "the cap is selected by %r, not by the fileid of the file's record" % sql2.text)
            # the fileid bound there is column fileid of the local_files row selected by path
            binds = arg(cr[2], 1)
            bnode = roles.node_of(fn, cr[2])
            binds = roles.flow(fn).resolve(bnode, binds)
            for b in (binds.elts if isinstance(binds, (ast.Tuple, ast.List)) else []):
                br = roles.role(fn, bnode, b)
                ok = bool(br) and br[0] == "db" and br[1] == "fileid"
                if ok:
                    sql1 = roles.sql_of(br[3], br[2])
                    ok = sql1.tables == ["local_files"] and sql1.where == ["path"]
                r.require(ok, fn, fn.loc(cr[2]), "the caps row is looked up with %s, which is not the fileid of the "
                          "local_files row selected WHERE path=?" % src(fn, b))
        for n in cfg.nodes:
            for lab in (("T", None), ("F", None)):
                f = fact(n, lab) if n.kind == "test" else None
                if f and f[0] in ("==", "!=") and f[1] and f[2]:
                    for x in (f[1], f[2]):
                        if x[0] == "db" and x[1] in ("size", "mtime", "ctime"):
                            sql1 = roles.sql_of(x[3], x[2])
                            r.require(sql1.tables == ["local_files"] and sql1.where == ["path"], fn, fn.loc(x[2]),
                                      "the stored %s compared in check_file comes from %r, not from the local_files row "
                                      "selected WHERE path=?" % (x[1], sql1.text))
        r.count(roles.states)

    # -- 2. SQL placeholders <-> bound values --------------------------------
    with ctx.rule("C42.2", "R5", "every execute() in backupdb.py binds as many values as it has placeholders, and each "
                  "placeholder's column receives a value of that meaning (by provenance through SELECT order, unpacking, "
                  "constructor arguments, attributes and did_* calls)", expected=13) as r:
        # values handed back to the caller: DirectoryResult / FileResult constructor arguments
        for cname, want in (("FileResult", {"filecap": "filecap", "path": "path", "mtime": "mtime", "ctime": "ctime", "size": "size"}),
                            ("DirectoryResult", {"dirhash": "dirhash", "dircap": "dircap"})):
            init = idx.func(BDB + ":%s.__init__" % cname)
            for pname, meaning in want.items():
                if pname not in first_positional_params(init):
                    raise AnchorVanished("%s.__init__ parameter %s" % (cname, pname))
                for (caller, c) in roles.call_sites(init):
                    a = arg(c, first_positional_params(init).index(pname), pname)
                    if a is None or (isinstance(a, ast.Constant) and a.value is None):
                        continue
                    ro = roles.role(caller, roles.node_of(caller, c), a)
                    r.require(roles.sem(ro) == meaning, caller, caller.loc(c), "%s(%s=%s): the value is %s, not the %s" % (
                        cname, pname, src(caller, a), roles.sem(ro) or "of unknown meaning", meaning))
        def with_nested(f):
            yield f
            for g in f.nested.values():
                for h in with_nested(g):
                    yield h
        for fn in sorted((g for f in dbc.methods.values() for g in with_nested(f)), key=lambda f: f.lineno):
            for n in fn.cfg().nodes:
                for c in calls_at(n, "execute"):
                    sql = roles.sql_of(fn, c)
                    r.site(fn, c, sql.text[:50])
                    if getattr(sql, "mismatch", None):
                        r.violation(fn, fn.loc(c), "%r: %s" % (sql.text, sql.mismatch))
                    if sql.unknown_cols:
                        r.violation(fn, fn.loc(c), "%r names column(s) %s that the schema of %s does not declare" % (
                            sql.text, sql.unknown_cols, sql.tables))
                    binds = arg(c, 1)
                    if binds is None:
                        r.require(not sql.ph, fn, fn.loc(c), "%r has %d placeholder(s) but no values are bound" % (sql.text, len(sql.ph)))
                        continue
                    binds = roles.flow(fn).resolve(n, binds)
                    if not isinstance(binds, (ast.Tuple, ast.List)):
                        raise AnalysisError("values bound to %r are not a literal tuple" % sql.text)
                    if len(binds.elts) != len(sql.ph):
                        r.violation(fn, fn.loc(c), "%r has %d placeholder(s) but %d value(s) are bound" % (
                            sql.text, len(sql.ph), len(binds.elts)))
                        continue
                    for i, (col, b) in enumerate(zip(sql.ph, binds.elts)):
                        ro = roles.role(fn, n, b)
                        s = roles.sem(ro)
                        if ro is not None and ro[0] == "conflict":
                            r.violation(fn, fn.loc(c), "%r: the value %s bound to column %r means different things at "
                                        "different call sites: %s" % (sql.text, src(fn, b), col, " / ".join(ro[1])))
                            continue
                        if ro is not None and ro[0] == "bad":
                            r.violation(ro[2], ro[2].loc(ro[3]), "%r: the value %s bound to column %r is not the %s of the "
                                        "row it is meant to identify: %s" % (sql.text, src(fn, b), col, col, ro[1]))
                            continue
                        if s is None:
                            raise AnalysisError("cannot determine the meaning of value %s bound to column %s in %r (%s)" % (
                                src(fn, b), col, sql.text, ro))
                        ok = s == col or (col in TIMESTAMP_COLS and s == "now")
                        r.require(ok, fn, fn.loc(c), "%r: placeholder %d is column %r but the value %s bound to it is the %s%s" % (
                            sql.text, i + 1, col, src(fn, b), s,
                            " of os.stat" if ro[0] == "stat" else (" column of a fetched row" if ro[0] == "db" else "")))
        r.count(roles.states)

    # -- 3. directory hash key ----------------------------------------------
    with ctx.rule("C42.3", "R2", "check_directory: the lookup key is base32(backupdb_dirhash(join(netstring(name) + "
                  "netstring(cap) for every entry of contents)))", expected=3) as r:
        fn = idx.func(DB_CLS + ".check_directory")
        cparam = first_positional_params(fn)[0]
        cfg = fn.cfg()
        fl = roles.flow(fn)
        # the key used in the SELECT and handed to DirectoryResult
        keys = []
        for n in cfg.nodes:
            for c in calls_at(n, "execute"):
                sql = roles.sql_of(fn, c)
                if sql.kind == "SELECT" and "directories" in sql.tables:
                    b = fl.resolve(n, arg(c, 1))
                    r.require(sql.where == ["dirhash"], fn, fn.loc(c), "directories are looked up by %s, not by dirhash" % sql.where)
                    if isinstance(b, (ast.Tuple, ast.List)) and len(b.elts) == 1:
                        keys.append((n, b.elts[0]))
        if not keys:
            raise AnchorVanished("check_directory no longer SELECTs from directories")
        hashed = None
        for (n, k) in keys:
            ro = roles.role(fn, n, k)
            r.site(fn, k, "lookup key")
            if not (ro and ro[0] == "dirhash"):
                r.violation(fn, fn.loc(k), "the directory lookup key %s is not base32.b2a(backupdb_dirhash(..))" % src(fn, k))
            else:
                hashed = ro[1]
        if hashed is not None:
            hnode = roles.node_of(fn, hashed)
            data = fl.resolve(hnode, hashed.args[0])
            r.site(fn, hashed, "hash input")
            comp = None
            if isinstance(data, ast.Call) and call_tail(data) == "join" and len(data.args) == 1 \
                    and isinstance(data.args[0], (ast.ListComp, ast.GeneratorExp)):
                comp = data.args[0]
            if comp is None or len(comp.generators) != 1:
                raise AnalysisError("the hash input %s is not a join over one comprehension" % src(fn, data))
            g = comp.generators[0]
            r.require(not g.ifs, fn, fn.loc(comp), "the directory hash skips entries (%s): directories that differ in the "
                      "skipped children share a key" % src(fn, comp))
            tvars = [x.id for x in ast.walk(g.target) if isinstance(x, ast.Name)]
            framed = {}
            for x in ast.walk(comp.elt):
                if isinstance(x, ast.Call) and call_tail(x) == "netstring" and len(x.args) == 1 and isinstance(x.args[0], ast.Name):
                    framed[x.args[0].id] = framed.get(x.args[0].id, 0) + 1
            used = [x.id for x in ast.walk(comp.elt) if isinstance(x, ast.Name) and x.id in tvars]
            for v in tvars:
                r.require(v in used, fn, fn.loc(comp), "component %r of an entry is not part of the directory hash: directories "
                          "that differ only in it share a key and the old dircap is reused" % v)
                r.require(used.count(v) == framed.get(v, 0), fn, fn.loc(comp), "component %r is hashed without netstring "
                          "framing: different (name, cap) lists can concatenate to the same bytes" % v)
            r.require(len(tvars) == 2, fn, fn.loc(comp), "an entry is unpacked into %d component(s), expected (name, cap)" % len(tvars))
            # the entries: one [name, contents[name]] per key of contents
            ent = g.iter
            if not isinstance(ent, ast.Name):
                raise AnalysisError("the comprehension iterates over %s" % src(fn, ent))
            apps = [(n, c) for n in cfg.nodes for c in calls_at(n, "append") if attr_path(c.func.value) == ent.id]
            r.site(fn, None, "entries")
            if len(apps) != 1:
                raise AnalysisError("expected one %s.append in check_directory, found %d" % (ent.id, len(apps)))
            an, ac = apps[0]
            loops = [n for n in cfg.nodes if n.kind == "iter"]
            loop = [n for n in loops if attr_path(n.ast.iter) == cparam or
                    (isinstance(n.ast.iter, ast.Call) and call_tail(n.ast.iter) in ("keys", "items", "sorted", "list")
                     and cparam in names_in(n.ast.iter))]
            if len(loop) != 1:
                raise AnalysisError("no single loop over %s in check_directory" % cparam)
            loop = loop[0]
            # every iteration appends: from the 'iter' edge no path returns to the loop head or leaves without the append
            def tr(n, lab, nxt, st):
                if lab == "exc":
                    return None
                if n is loop:
                    return 1 if (st == 0 and lab == "iter") else None
                if n is an:
                    return None
                return st
            visited, parent = explore(cfg, 0, tr, start=loop)
            r.count(len(visited))
            for (nid, st) in sorted(visited):
                if st == 1 and (nid == loop.id or cfg.nodes[nid].kind == "exit"):
                    w = witness(cfg, parent, (nid, st))
                    r.violation(fn, fn.loc(loop.ast), "some children of the directory are left out of the hash (path: %s)" % w.brief(), w)
                    break
            el = ac.args[0] if ac.args else None
            lvars = [x.id for x in ast.walk(loop.ast.target) if isinstance(x, ast.Name)]
            ok = isinstance(el, (ast.List, ast.Tuple)) and len(el.elts) == 2
            if ok:
                # the two components are the child's name and its cap, however they are spelled (temporaries, .items());
                # a lossy step applied to one of them is reported, with the step, by C42.8
                L3 = Lossless(roles, get_folder(idx))
                v3 = L3.ev(L3.root(fn, {cparam: ("dict", frozenset(["name"]), frozenset(["cap"]))}), an, el, {})
                ok = {"name", "cap"} <= set(_atoms(v3)) or bool(L3.culprits)
            r.require(ok, fn, fn.loc(ac), "the entry appended for a child is %s, not [name, %s[name]]" % (
                src(fn, el) if el is not None else "?", cparam))
            # nothing else feeds the list between the loop and the join (no truncation)
            for n in cfg.nodes:
                val = n.ast.value if n.kind == "stmt" and isinstance(n.ast, ast.Assign) else None
                if isinstance(val, ast.Call) and call_tail(val) in SEQUENCE_CALLS and len(val.args) == 1 \
                        and isinstance(val.args[0], ast.Name) and val.args[0].id == ent.id:
                    continue          # entries = sorted(entries): the same elements
                if n.kind == "stmt" and ent.id in node_stores(n) and not isinstance(val, ast.List):
                    r.violation(fn, fn.loc(n.ast), "%s is rebound by %r before it is hashed" % (ent.id, n))
                for c in node_calls(n):
                    if attr_path(getattr(c.func, "value", None)) == ent.id and call_tail(c) in ("pop", "remove", "clear", "insert", "extend"):
                        r.violation(fn, fn.loc(c), "%s.%s() changes the entries that are hashed" % (ent.id, call_tail(c)))

    # -- 4. tahoe_backup consumes the answers --------------------------------
    with ctx.rule("C42.4", "R1", "tahoe_backup: an upload / mkdir is skipped only when was_uploaded() / was_created() is "
                  "truthy; use_timestamps = not ignore-timestamps; the grid's cap is recorded, the database's cap reused",
                  expected=5) as r:
        for meth, probe, q in (("check_backupdb_file", "was_uploaded", "check_file"),
                               ("check_backupdb_directory", "was_created", "check_directory")):
            fn = idx.func(TB + ":BackerUpper." + meth)
            cfg = fn.cfg()
            fnorm = FlowNorm(fn)
            skip = [n for n in cfg.find(is_return) if isinstance(n.ast.value, ast.Tuple) and n.ast.value.elts
                    and isinstance(n.ast.value.elts[0], ast.Constant) and n.ast.value.elts[0].value is False]
            if not skip:
                raise AnchorVanished("%s never answers (False, r)" % meth)
            pat = re.compile(r"^self\.backupdb\.%s\(.*\)\.%s\(\)$" % (q, probe))

            def has_cap(n, lab):
                f = fnorm.edge_fact(n, lab)
                return bool(f) and f[0] == "truth" and pat.match(f[1]) is not None
            r.site(fn, None, "skip only with a recorded cap")
            r.count(len(cfg.nodes))
            for (n, w) in find_path_avoiding(cfg, lambda x: any(x is s for s in skip), gate_edge=has_cap):
                r.violation(fn, fn.loc(n.ast), "%s answers 'no upload needed' on a path where %s() was not truthy (path: %s)" % (
                    meth, probe, w.brief()), w)
            for n in skip:
                v = n.ast.value
                r.require(len(v.elts) == 2 and pat.match(fnorm.norm(n, v.elts[1]) + ".%s()" % probe) is not None, fn, fn.loc(n.ast),
                          "%s returns %s, not the database's answer" % (meth, src(fn, v)))
        fn = idx.func(TB + ":BackerUpper.check_backupdb_file")
        fnorm = FlowNorm(fn)
        want = norm_src("not self.options['ignore-timestamps']")
        cs = [(n, c) for n in fn.cfg().nodes for c in calls_at(n, "check_file")]
        if len(cs) != 1:
            raise AnchorVanished("check_backupdb_file no longer calls check_file once")
        n, c = cs[0]
        r.site(fn, c, "use_timestamps")
        a = arg(c, 1, "use_timestamps")
        r.require(a is not None and fnorm.norm(n, a) == want, fn, fn.loc(c), "check_file is given use_timestamps=%s, expected %s"
                  % (fnorm.norm(n, a) if a is not None else "<default True>", want))
        r.require(fnorm.norm(n, arg(c, 0)) == first_positional_params(fn)[0], fn, fn.loc(c), "check_file is asked about %s, not "
                  "about the file being backed up" % src(fn, arg(c, 0)))
        # upload(): record the grid's answer, reuse the database's
        for meth, checker, rec, probe, made in (("upload", "check_backupdb_file", "did_upload", "was_uploaded", "read"),
                                                ("upload_directory", "check_backupdb_directory", "did_create", "was_created", "mkdir")):
            fn = idx.func(TB + ":BackerUpper." + meth)
            cfg = fn.cfg()
            fnorm = FlowNorm(fn)
            r.site(fn, None, "record / reuse")
            recs = [(n, c) for n in cfg.nodes for c in calls_at(n, rec)]
            if not recs:
                raise AnchorVanished("%s no longer calls %s" % (meth, rec))
            for (n, c) in recs:
                feed = {call_tail(x) for x in calls_feeding(fn, c.args[0])} if c.args else set()
                r.require(made in feed and probe not in feed, fn, fn.loc(c), "%s(%s) does not record the cap returned by the "
                          "grid (%s)" % (rec, src(fn, c.args[0]) if c.args else "", made))
                rn = fnorm.norm(n, c.func.value)
                r.require(re.match(r"^self\.%s\(.*\)\[1\]$" % checker, rn) is not None, fn, fn.loc(c),
                          "%s is reported to %s, not to the result object of %s" % (rec, rn, checker))
            # the probe calls whose answer is returned (directly, or through temporaries), each at the node that makes it
            reuse, seen_probe = [], set()
            for n in cfg.find(is_return):
                if n.ast.value is None:
                    continue
                for c in calls_feeding(fn, n.ast.value):
                    if call_tail(c) == probe and isinstance(c.func, ast.Attribute) and id(c) not in seen_probe:
                        seen_probe.add(id(c))
                        reuse.append((roles.node_of(fn, c), c))
            r.require(bool(reuse), fn, fn.loc(), "%s never returns the cap recorded in the database" % meth)
            # the branch: reuse only when the checker said so
            def must(n, lab):
                f = fnorm.edge_fact(n, lab)
                return bool(f) and f[0] == "false" and re.match(r"^self\.%s\(.*\)\[0\]$" % checker, f[1]) is not None
            for (n, w) in find_path_avoiding(cfg, lambda x: any(x is rn_ for (rn_, _c) in reuse), gate_edge=must):
                r.violation(fn, fn.loc(n.ast), "%s reuses the recorded cap although %s did not say the %s may be skipped (path: %s)"
                            % (meth, checker, "upload" if meth == "upload" else "mkdir", w.brief()), w)
            for (n, c) in reuse:
                rn = fnorm.norm(n, c.func.value)
                r.require(re.match(r"^self\.%s\(.*\)\[1\]$" % checker, rn) is not None, fn, fn.loc(c),
                          "%s returns %s.%s(), not the answer for this %s" % (meth, rn, probe, "file" if meth == "upload" else "directory"))

    # -- 5. the fileid that links a path to its cap ---------------------------
    with ctx.rule("C42.5", "R5", "the fileid written to local_files / last_upload is the key of the caps row that holds "
                  "the cap being recorded: column fileid fetched FROM caps WHERE filecap=<that cap>, or lastrowid "
                  "directly after an INSERT INTO caps of that cap that is known to have inserted a row", expected=5) as r:
        def caps_key(fn, c, sql, b, ro):
            """Is role `ro` (one unmerged part) the key of the caps row of the recorded cap?  Reports otherwise."""
            where = "%r: the value %s bound to column 'fileid'" % (sql.text, src(fn, b))
            if ro is None:
                raise AnalysisError("cannot determine where the value %s bound to fileid in %r comes from" % (src(fn, b), sql.text))
            if ro[0] == "bad":
                r.violation(ro[2], ro[2].loc(ro[3]), "%s does not identify the caps row of the recorded cap, so the path "
                            "is linked to another file's cap: %s" % (where, ro[1]))
                return
            if not (ro[0] == "db" and ro[1] == "fileid"):
                r.violation(fn, fn.loc(c), "%s is %s, not the fileid of the caps row of the recorded cap" % (
                    where, roles.sem(ro) or ro[0]))
                return
            ex, xfn = ro[2], ro[3]
            sql2 = roles.sql_of(xfn, ex)
            if sql2.tables != ["caps"]:
                r.violation(xfn, xfn.loc(ex), "%s comes from %r, not from the caps table" % (where, sql2.text))
                return
            if sql2.kind == "SELECT":
                ok = sql2.where == ["filecap"]
            else:
                ok = sql2.kind == "INSERT" and sql2.ph == ["filecap"]
            if not ok:
                r.violation(xfn, xfn.loc(ex), "%s comes from %r, which does not select the caps row by its filecap: the "
                            "fileid of some other cap is recorded for the path" % (where, sql2.text))
                return
            xn = roles.node_of(xfn, ex)
            xb = roles.flow(xfn).resolve(xn, arg(ex, 1))
            if not (isinstance(xb, (ast.Tuple, ast.List)) and len(xb.elts) == 1):
                raise AnalysisError("values bound to %r are not a literal 1-tuple" % sql2.text)
            cr = roles.role(xfn, xn, xb.elts[0])
            r.require(roles.sem(cr) == "filecap", xfn, xfn.loc(ex), "%r looks the caps row up with %s, which is %s, not the "
                      "cap being recorded" % (sql2.text, src(xfn, xb.elts[0]), roles.sem(cr) or "of unknown meaning"))

        for fn in sorted(dbc.methods.values(), key=lambda f: f.lineno):
            for n in fn.cfg().nodes:
                for c in calls_at(n, "execute"):
                    sql = roles.sql_of(fn, c)
                    if sql.kind == "SELECT" or "caps" in sql.tables or "fileid" not in sql.ph:
                        continue
                    r.site(fn, c, sql.text[:50])
                    binds = roles.flow(fn).resolve(n, arg(c, 1))
                    if not isinstance(binds, (ast.Tuple, ast.List)) or len(binds.elts) != len(sql.ph):
                        raise AnalysisError("values bound to %r are not a literal tuple of %d" % (sql.text, len(sql.ph)))
                    for col, b in zip(sql.ph, binds.elts):
                        if col != "fileid":
                            continue
                        before = len(r.violations)
                        for part in roles.parts(roles.role(fn, n, b)):
                            if len(r.violations) == before:
                                caps_key(fn, c, sql, b, part)
        r.count(roles.states)

    # -- 6. the recorded metadata was observed before the content was read ---
    with ctx.rule("C42.6", "R1", "the size/mtime/ctime stored with an uploaded cap are the os.stat values check_file observed "
                  "before the upload read the file (never a stat made in code reachable from FileResult.did_upload), and "
                  "tahoe_backup.upload consults the database before it reads the file and reports the upload to that result",
                  expected=4) as r:
        root = idx.func(BDB + ":FileResult.did_upload")
        by_name = {}
        for f in roles.funcs:
            by_name.setdefault(f.cls.name if (f.name == "__init__" and f.cls is not None) else f.name, []).append(f)
        post, work = {}, [root]
        while work:
            f = work.pop()
            if f.qual in post:
                continue
            post[f.qual] = f
            work.extend(f.nested.values())
            for x in ast.walk(f.node):
                if isinstance(x, ast.Call):
                    work.extend(by_name.get(call_tail(x), []))
        r.count(len(post))
        for fn in sorted(dbc.methods.values(), key=lambda f: f.lineno):
            for n in fn.cfg().nodes:
                for c in calls_at(n, "execute"):
                    sql = roles.sql_of(fn, c)
                    if sql.kind not in ("INSERT", "UPDATE") or sql.tables != ["local_files"]:
                        continue
                    written = sql.ph[:len(sql.ph) - len(sql.where)] if sql.kind == "UPDATE" else sql.ph
                    if not ({"size", "mtime", "ctime"} & set(written)):
                        continue
                    r.site(fn, c, sql.text[:50])
                    binds = roles.flow(fn).resolve(n, arg(c, 1))
                    if not isinstance(binds, (ast.Tuple, ast.List)) or len(binds.elts) != len(sql.ph):
                        raise AnalysisError("values bound to %r are not a literal tuple of %d" % (sql.text, len(sql.ph)))
                    for col, b in zip(written, binds.elts):
                        if col not in ("size", "mtime", "ctime"):
                            continue
                        for part in roles.parts(roles.role(fn, n, b)):
                            if part is None:
                                raise AnalysisError("cannot determine where the %s recorded by %r comes from" % (col, sql.text))
                            if part[0] == "bad":
                                r.violation(part[2], part[2].loc(part[3]), "%r: the %s recorded is %s" % (sql.text, col, part[1]))
                            elif part[0] != "stat":
                                r.violation(fn, fn.loc(c), "%r: the %s recorded with the cap (%s) is %s, not a value os.stat "
                                            "returned for the file" % (sql.text, col, src(fn, b), roles.sem(part) or part[0]))
                            elif part[3].qual in post:
                                r.violation(part[3], part[3].loc(part[2]), "the %s recorded with the uploaded cap by %r is read "
                                            "by %s in %s, which runs when the upload has finished: a file modified while it "
                                            "was being uploaded is recorded as unchanged and the cap of its old content is "
                                            "reused; the values check_file observed before the upload must be stored" % (
                                                col, sql.text, src(part[3], part[2]), short(part[3])))
        # tahoe_backup.upload: database first, then the content, then the report
        fn = idx.func(TB + ":BackerUpper.upload")
        cfg = fn.cfg()
        fnorm = FlowNorm(fn)
        folder = get_folder(idx)

        def is_put(c):
            if call_tail(c) != "do_http" or not c.args:
                return False
            try:
                return folder.fold(c.args[0], fn.module, fn.cls) == "PUT"
            except NotConstant:
                return False

        def reads(n):
            for c in node_calls(n):
                if is_put(c):
                    return True
                if call_tail(c) in ("read", "readlines", "readinto") and isinstance(c.func, ast.Attribute):
                    d = fnorm.resolve(n, c.func.value)
                    if isinstance(d, ast.Call) and call_tail(d) == "open":
                        return True
            return False
        puts = [n for n in cfg.nodes if any(is_put(c) for c in node_calls(n))]
        checks = [n for n in cfg.nodes if calls_at(n, "check_backupdb_file")]
        dids = [(n, c) for n in cfg.nodes for c in calls_at(n, "did_upload")]
        if not puts or not checks or not dids:
            raise AnchorVanished("BackerUpper.upload no longer has check_backupdb_file / do_http('PUT') / did_upload")
        is_check = lambda n: any(n is k for k in checks)
        r.site(fn, checks[0].ast, "database consulted before the content is read")
        for (n, w) in find_path_avoiding(cfg, reads, gate_node=is_check):
            r.violation(fn, fn.loc(n.ast), "upload reads the file's content before check_backupdb_file examined the file: the "
                        "size/mtime/ctime recorded with the cap are then observed after the content, and a file modified in "
                        "between is recorded as unchanged (path: %s)" % w.brief(), w)
        r.site(fn, dids[0][1], "did_upload goes to the result obtained before the upload")
        r.count(len(cfg.nodes))
        for (dn, dc) in dids:
            if is_check(dn):
                r.violation(fn, fn.loc(dc), "did_upload is reported to a result obtained after the upload")
                continue
            recv = dc.func.value
            rname = recv.id if isinstance(recv, ast.Name) else None
            redo = lambda n, rname=rname: is_check(n) and (rname is None or rname in node_stores(n))
            for (n, w) in find_path_avoiding(cfg, lambda x, dn=dn: x is dn, gate_node=lambda x: any(x is p for p in puts), kill=redo):
                r.violation(fn, fn.loc(dc), "did_upload is reached without the upload, or on a result that check_backupdb_file "
                            "produced after the content was sent: its size/mtime/ctime were observed after the upload "
                            "(path: %s)" % w.brief(), w)

    # -- 7. only the body of a successful response is recorded as a cap -------
    with ctx.rule("C42.7", "R1", "a cap is recorded in the database only when the grid reported success: every path to "
                  "did_upload (BackerUpper.upload) and every path on which mkdir returns the response body that "
                  "upload_directory reports to did_create passed a test establishing that the status of the response the cap "
                  "is read from is a 2xx code", expected=3) as r:
        folder = get_folder(idx)

        def body_sources(fn, fl, e):
            """The do_http(..) calls whose response body (a .read() of the response) feeds expression `e`."""
            out = []
            for rc in calls_feeding(fn, e):
                if call_tail(rc) != "read" or not isinstance(rc.func, ast.Attribute):
                    continue
                rn = roles.node_of(fn, rc)
                d = fl.resolve(rn, rc.func.value)
                if isinstance(d, ast.Call) and call_tail(d) == "do_http":
                    if not any(d is x for x in out):
                        out.append(d)
                elif isinstance(d, ast.Name) and len(fl.rd.get(rn.id, {}).get(d.id, ())) > 1:
                    raise AnalysisError("cannot tell which response %s is at %s" % (src(fn, rc), fn.loc(rc)))
            return out

        def ungated(fn, fl, target, sources):
            cfg = fn.cfg()
            r.count(len(cfg.nodes))
            gate = lambda n, lab: any(http_success_edge(fl, folder, fn, n, lab, d) for d in sources)
            return find_path_avoiding(cfg, lambda x: x is target, gate_edge=gate)

        fn = idx.func(TB + ":BackerUpper.upload")
        fl = FlowNorm(fn)
        dids = [(n, c) for n in fn.cfg().nodes for c in calls_at(n, "did_upload")]
        if not dids:
            raise AnchorVanished("BackerUpper.upload no longer calls did_upload")
        for (dn, dc) in dids:
            r.site(fn, dc, "did_upload only after a successful PUT")
            if not dc.args:
                raise AnalysisError("did_upload() is called without a cap at %s" % fn.loc(dc))
            sources = body_sources(fn, fl, dc.args[0])
            if not sources:
                raise AnalysisError("cannot tell which HTTP response the cap recorded by %s was read from" % src(fn, dc))
            for (n, w) in ungated(fn, fl, dn, sources):
                r.violation(fn, fn.loc(dc), "%s records the body of the PUT response as the file's cap on a path that never "
                            "established that the response's status is a success (2xx) code: after a failed upload the error "
                            "text is stored for the unchanged file and every later backup reuses it instead of uploading "
                            "(path: %s)" % (src(fn, dc), w.brief()), w)

        mk = idx.func(TB + ":mkdir")
        ud = idx.func(TB + ":BackerUpper.upload_directory")
        creates = [c for n in ud.cfg().nodes for c in calls_at(n, "did_create")]
        if not creates:
            raise AnchorVanished("BackerUpper.upload_directory no longer calls did_create")
        for c in creates:
            r.site(ud, c, "did_create records what mkdir returned")
            feed = [x for x in (calls_feeding(ud, c.args[0]) if c.args else []) if isinstance(x.func, ast.Name) and x.func.id == mk.name]
            if not feed:
                raise AnalysisError("cannot tell which call produced the cap recorded by %s" % src(ud, c))
        fl = FlowNorm(mk)
        rets = []
        for n in mk.cfg().find(is_return):
            v = n.ast.value
            if v is None or (isinstance(v, ast.Constant) and v.value is None):
                continue
            sources = body_sources(mk, fl, v)
            if sources:
                rets.append((n, sources))
        if not rets:
            raise AnchorVanished("mkdir no longer returns the body of a do_http response")
        # (named by its module: the bare name "mkdir" is also a function of three unrelated script modules)
        r.site("%s %s" % (mk.qual, mk.loc(rets[0][0].ast)), None, "mkdir returns a cap only after a successful POST")
        for (rn, sources) in rets:
            for (n, w) in ungated(mk, fl, rn, sources):
                r.violation(mk, mk.loc(rn.ast), "mkdir returns the body of the POST response as the new directory's cap on a "
                            "path that never established that the response's status is a success (2xx) code: upload_directory "
                            "records the error text for the directory's contents and every later backup reuses it instead "
                            "of creating the directory (path: %s)" % w.brief(), w)

    # -- 8. the directory key is an injective encoding of the contents, on both sides ----
    with ctx.rule("C42.8", "R2", "the key check_directory looks a directory up by - and the key did_create stores it under - "
                  "is one and the same hash, whose input every child's name and cap reach through lossless steps only "
                  "(utf-8 encoding, netstring framing, list/tuple building, sorting, concatenation, joining): a "
                  "normalisation, case folding, stripping, slicing, filter, truncating format or any other call on the way "
                  "makes different name-to-cap contents share a key", expected=3) as r:
        fn = idx.func(DB_CLS + ".check_directory")
        cparam = first_positional_params(fn)[0]
        fl = roles.flow(fn)
        folder = get_folder(idx)
        lookups = []
        for n in fn.cfg().nodes:
            for c in calls_at(n, "execute"):
                sql = roles.sql_of(fn, c)
                if sql.kind != "SELECT" or "directories" not in sql.tables or "dirhash" not in sql.where:
                    continue
                b = fl.resolve(n, arg(c, 1))
                if not (isinstance(b, (ast.Tuple, ast.List)) and len(b.elts) == len(sql.ph)):
                    raise AnalysisError("values bound to %r are not a literal tuple" % sql.text)
                k = b.elts[sql.ph.index("dirhash")]
                r.site(fn, c, "lookup key")
                for part in roles.parts(roles.role(fn, n, k)):
                    if part is not None and part[0] == "dirhash":
                        if not any(part[1] is h for (h, _f) in lookups):
                            lookups.append((part[1], part[2]))
                    else:
                        raise AnalysisError("the directory lookup key %s is not a directory hash (see C42.3)" % src(fn, k))
        if not lookups:
            raise AnchorVanished("check_directory no longer SELECTs FROM directories WHERE dirhash=?")
        hashes = list(lookups)

        def norm_of(h, hf):
            return roles.flow(hf).norm(roles.node_of(hf, h), h)
        for m in sorted((g for f in dbc.methods.values() for g in _with_nested(f)), key=lambda f: f.lineno):
            for n in m.cfg().nodes:
                for c in calls_at(n, "execute"):
                    sql = roles.sql_of(m, c)
                    written = sql.ph[:len(sql.ph) - len(sql.where)] if sql.kind == "UPDATE" else sql.ph
                    if sql.kind not in ("INSERT", "UPDATE") or sql.tables != ["directories"] or "dirhash" not in written:
                        continue
                    r.site(m, c, "stored key")
                    binds = roles.flow(m).resolve(n, arg(c, 1))
                    if not isinstance(binds, (ast.Tuple, ast.List)) or len(binds.elts) != len(sql.ph):
                        raise AnalysisError("values bound to %r are not a literal tuple of %d" % (sql.text, len(sql.ph)))
                    b = binds.elts[written.index("dirhash")]
                    for part in roles.parts(roles.role(m, n, b)):
                        if part is None:
                            raise AnalysisError("cannot determine where the key %s stored by %r comes from" % (src(m, b), sql.text))
                        if part[0] == "bad":
                            r.violation(part[2], part[2].loc(part[3]), "%r: the key stored is %s" % (sql.text, part[1]))
                        elif part[0] != "dirhash":
                            r.violation(m, m.loc(c), "%r stores the directory under %s, which is %s and not the hash of its "
                                        "contents that check_directory looks it up by" % (sql.text, src(m, b), roles.sem(part) or part[0]))
                        elif not any(part[1] is h for (h, _f) in hashes):
                            same = [h for (h, hf) in lookups if norm_of(h, hf) == norm_of(part[1], part[2])]
                            hashes.append((part[1], part[2]))
                            r.require(bool(same), part[2], part[2].loc(part[1]), "the directory record is stored under %s but "
                                      "looked up by %s: the two keys are computed differently, so a directory can be found "
                                      "under the key of different contents" % (src(part[2], part[1]), src(lookups[0][1], lookups[0][0])))
        for (h, hf) in hashes:
            if hf is not fn or not h.args:
                raise AnalysisError("the directory hash %s is not computed in check_directory" % src(hf, h))
            r.site(fn, h, "hash input")
            L = Lossless(roles, folder)
            fr = L.root(fn, {cparam: ("dict", frozenset(["name"]), frozenset(["cap"]))})
            v = L.ev(fr, roles.node_of(fn, h), h.args[0], {})
            r.count(L.steps)
            for (comp, culprits) in L.verdicts(v, ("name", "cap")):
                for (cfn, x, what, eaten) in culprits:
                    r.violation(cfn, cfn.loc(x), "each child's %s reaches the directory hash %s only through %s: contents that "
                                "differ only in what that step discards get the same key, and the dircap recorded for one is "
                                "reused for the other" % (comp, src(fn, h), what))
                if not culprits:
                    r.violation(fn, fn.loc(h), "the %s of the children of %s never reaches the input of the directory hash %s: "
                                "directories that differ only in it share a key and the old dircap is reused" % (comp, cparam, src(fn, h)))

    # -- 9. the file key is the path itself -----------------------------------
    with ctx.rule("C42.9", "R1", "the key a file's record is stored under and looked up by (column path of local_files, and "
                  "the path handed to FileResult) carries the method's path parameter through lossless steps only "
                  "(abspath_expanduser_unicode, encoding): a case fold, normalisation, basename or slice makes different "
                  "files share a record, and the cap of one is reused for the other", expected=7) as r:
        folder = get_folder(idx)
        RAW = ENTRY[("BackupDB_v2.check_file", 0)]

        def carried(m, n, e, what):
            chain, f = [], m
            while f is not None:
                chain.append(f)
                f = f.parent
            L = Lossless(roles, folder)
            fr, srcs = None, []
            for f in reversed(chain):         # a nested function reads the path of the method it is defined in
                mine = [p for p in first_positional_params(f) if roles.sem(roles.param_role(f, p)) in ("path", RAW)]
                srcs += mine
                at = None
                if fr is not None:
                    at = next((pn for pn in fr.cfg.nodes if pn.kind == "stmt" and pn.ast is f.node), None)
                fr = _Frame(f, roles.flow(f), {p: _flat(["path"]) for p in mine}, parent=fr, at=at)
            if not srcs:
                raise AnalysisError("%s binds a path but none of its parameters is a path" % m.qual)
            v = L.ev(fr, n, e, {})
            r.count(L.steps)
            for (_comp, culprits) in L.verdicts(v, ("path",)):
                for (cfn, x, how, eaten) in culprits:
                    r.violation(cfn, cfn.loc(x), "%s is derived from the file's path only through %s: two different files "
                                "whose paths differ only in what that step discards share one record, and a file is told to "
                                "reuse the cap uploaded for the other" % (what, how))
                if not culprits:
                    r.violation(m, m.loc(e), "%s (%s) does not carry the path of the file (%s)" % (what, src(m, e), ", ".join(srcs)))
        for m in sorted((g for f in dbc.methods.values() for g in _with_nested(f)), key=lambda f: f.lineno):
            for n in m.cfg().nodes:
                for c in calls_at(n, "execute"):
                    sql = roles.sql_of(m, c)
                    if "local_files" not in sql.tables or "path" not in sql.ph:
                        continue
                    r.site(m, c, sql.text[:40])
                    binds = roles.flow(m).resolve(n, arg(c, 1))
                    if not isinstance(binds, (ast.Tuple, ast.List)) or len(binds.elts) != len(sql.ph):
                        raise AnalysisError("values bound to %r are not a literal tuple of %d" % (sql.text, len(sql.ph)))
                    for col, b in zip(sql.ph, binds.elts):
                        if col == "path":
                            carried(m, n, b, "the value bound to column path of %r" % sql.text)
        fn = idx.func(DB_CLS + ".check_file")
        fr_init = idx.func(BDB + ":FileResult.__init__")
        ppos = first_positional_params(fr_init).index("path")
        for m in _with_nested(fn):
            for n in m.cfg().nodes:
                for c in calls_at(n, "FileResult"):
                    a = arg(c, ppos, "path")
                    if a is None:
                        raise AnalysisError("FileResult(..) without a path at %s" % m.loc(c))
                    r.site(m, c, "path of the result")
                    carried(m, n, a, "the path the FileResult records the upload under")
