"""C43 Node and capability identity is consistent.

Decided (R6, DESIGN.md section 5 C43): for every class of the package that
defines __eq__/__ne__, and for every node / capability class, the shape of the
identity trio (__eq__, __ne__, __hash__)."""
from sa.h import *
import copy

EXPLANATION = (
    "Decided (structural, every class in the package): (1) __ne__ is the path-wise negation of the __eq__ it is "
    "paired with by the MRO (decision trees compared leaf by leaf under compatible branch facts: X==Y <-> X!=Y, "
    "True <-> False, or the delegation `not self == other`; a class that inherits a non-delegating __ne__ past its "
    "own __eq__ is rejected); (2) every class whose body defines __eq__ also defines __hash__ in that body (Python "
    "sets __hash__ = None otherwise) and the hash reads only fields of self that __eq__ compares (plus the class "
    "when __eq__ demands type equality); (3) every return of __eq__ is False/NotImplemented or a symmetric "
    "comparison self.F == other.F - never a constant True; (4) coverage: every class implementing an "
    "IFilesystemNode-family interface and every class of allmydata.uri with to_string() resolves __eq__ and "
    "__hash__ inside the package, node classes compare every field of self that get_uri() reads, capability "
    "classes compare self.to_string(); (5) reflexivity / direction of the type guard: on every path of __eq__ that is "
    "feasible when the operand is the object itself (isinstance(other, K) evaluated against the MRO of every class "
    "using that __eq__, type(other) == type(self), other is self, other is None) the result is a comparison, never "
    "False / NotImplemented / None; a returned comparison that reads other.F lies on a path that took an isinstance / "
    "type-equality test positively (or inside a try); the operand never stands in the class position of isinstance; "
    "(6) for every node / capability class the first provider of "
    "__eq__, __ne__ and __hash__ along the MRO is a def of the package (which rules 1-5 read): a class decorator of the attrs / "
    "dataclasses families (attr.s, attrs.define/frozen/mutable, dataclass; eq/cmp/auto_detect/frozen/hash/unsafe_hash and per-field "
    "eq/compare keywords evaluated) that writes __eq__/__ne__/__hash__ over such a class is rejected unless the compared fields are "
    "exactly the fields of self that to_string() / get_uri() is computed from and __hash__ is not set to None; a class-body assignment "
    "to one of the three names is rejected unless it re-exports the def of a base class; any other class decorator on these classes "
    "is an analysis error. "
    "Undecided: the values of the compared fields (that self.u really is the cap the node was made from), "
    "equality across different node classes for one cap, zope-interface adaptation, tests of __eq__ other than "
    "isinstance / type equality / identity / None (paths through them are not judged for reflexivity); for an accepted generated "
    "__eq__/__hash__ (fields exactly those of the cap string) hash equality with an equal object of ANOTHER cap class; methods "
    "installed by metaclasses, setattr or decorators outside the attrs / dataclasses families.")
TECHNIQUE = "static analysis: CFG path enumeration of __eq__/__ne__/__hash__ with normalised branch facts, MRO pairing, field-set inclusion, abstract evaluation of the type guard for other=self"

NODE_IFACE_ROOT = "IFilesystemNode"
_NEG = {"==": "!=", "!=": "==", "is": "is not", "is not": "is", "in": "not in", "not in": "in",
        "truth": "false", "false": "truth"}


class _Dunder(ast.NodeTransformer):
    """a.__eq__(b) -> a == b ; a.__ne__(b) -> a != b ; type(x) -> x.__class__"""

    def visit_Call(self, node):
        self.generic_visit(node)
        f = node.func
        if isinstance(f, ast.Attribute) and f.attr in ("__eq__", "__ne__") and len(node.args) == 1 and not node.keywords:
            return ast.Compare(left=f.value, ops=[ast.Eq() if f.attr == "__eq__" else ast.NotEq()],
                               comparators=[node.args[0]])
        if isinstance(f, ast.Name) and f.id == "type" and len(node.args) == 1 and not node.keywords:
            return ast.Attribute(value=node.args[0], attr="__class__", ctx=ast.Load())
        return node


def canon(e):
    if e is None:
        return None
    return ast.fix_missing_locations(_Dunder().visit(copy.deepcopy(e)))


def other_param(fn):
    ps = first_positional_params(fn)
    if len(ps) != 1:
        raise AnalysisError("%s does not take exactly one operand" % fn.qual)
    return ps[0]


def paths(fn, rename):
    """[(facts frozenset, return expr AST or None, return node)] for every path entry -> normal exit."""
    cfg = fn.cfg()
    nrm = N(fn, rename=rename)
    flow = FlowNorm(fn)
    out = []
    seen = set()

    def transfer(n, lab, nxt, st):
        if lab == "exc" or nxt.kind == "raise":
            return None
        if n.kind == "test" and isinstance(lab, tuple):
            f = nrm.cmp(canon(n.ast), lab[0] == "T")
            if (_NEG.get(f[0]), f[1], f[2]) in st:
                return None          # infeasible: contradicts a fact already on the path
            st = st | frozenset([f])
        if nxt.kind == "exit":
            v = n.ast.value if is_return(n) else None
            if v is not None:
                v = flow.resolve(n, v)       # `rv = E; return rv` is `return E`
            key = (st, n.id)
            if key not in seen:
                seen.add(key)
                out.append((st, v, n))
        return st
    visited, _ = explore(cfg, frozenset(), transfer)
    return out, nrm, len(visited)


def compatible(a, b):
    return not any((_NEG.get(op), l, r) in b for (op, l, r) in a)


def is_const(e, *vals):
    if e is None:
        return None in vals
    if isinstance(e, ast.Constant):
        return any(e.value is v for v in vals)
    return isinstance(e, ast.Name) and e.id in [str(v) for v in vals]


def is_notimpl(e):
    return isinstance(e, ast.Name) and e.id == "NotImplemented"


def delegates(nrm, e):
    """`not self == other` / `not self.__eq__(other)` / `not (other == self)`"""
    if e is None or isinstance(e, ast.Constant):
        return False
    return nrm.cmp(canon(e), False) == ("==", "$o", "self")


def self_terms(e):
    """First-level fields of self an expression reads: 'self.u', 'self.to_string()', 'CLASS', bare 'self'."""
    out = set()
    if e is None:
        return out
    e = canon(e)
    parent = {}
    for n in ast.walk(e):
        for c in ast.iter_child_nodes(n):
            parent[c] = n
    for n in ast.walk(e):
        if isinstance(n, ast.Name) and n.id == "self":
            p = parent.get(n)
            if isinstance(p, ast.Attribute) and p.value is n:
                if p.attr == "__class__":
                    out.add("CLASS")
                    continue
                pp = parent.get(p)
                if isinstance(pp, ast.Call) and pp.func is p:
                    if p.attr in ("__hash__",):
                        out.add("self")
                    else:
                        out.add("self.%s()" % p.attr)
                else:
                    out.add("self." + p.attr)
            else:
                out.add("self")
    return out


def eq_profile(fn):
    """(compared self-terms, has type-equality guard, [(facts, ret, node)], normaliser, states)"""
    o = other_param(fn)
    ps, nrm, states = paths(fn, {o: "$o"})
    terms = set()
    type_eq = False
    for n in fn.cfg().nodes:
        if n.kind == "test":
            f = nrm.cmp(canon(n.ast), True)
            if f[0] in ("==", "!=", "is", "is not") and {f[1], f[2]} == {"$o.__class__", "self.__class__"}:
                type_eq = True
    flow = FlowNorm(fn)
    for (_f, v, n) in ps:
        if isinstance(v, ast.AST) and not isinstance(v, ast.Constant):
            terms |= terms_through_locals(flow, n, v)
    return terms, type_eq, ps, nrm, states


def terms_through_locals(flow, node, e, depth=3):
    """self_terms of e, following locals with a unique reaching definition."""
    out = self_terms(e)
    if depth <= 0:
        return out
    for nm in own_nodes(e):
        if isinstance(nm, ast.Name) and nm.id != "self":
            d = flow.resolve(node, nm, depth=1)
            if d is not nm:
                out |= terms_through_locals(flow, node, d, depth - 1)
    return out


def symmetric(fn, v):
    """v is (an and-chain of) comparisons self.F == other.F with the same F on both sides."""
    o = other_param(fn)
    v = canon(v)
    parts = v.values if isinstance(v, ast.BoolOp) and isinstance(v.op, ast.And) else [v]
    sw = N(fn, rename={o: "self"})
    plain = N(fn, rename={o: "$o"})
    for p in parts:
        if not (isinstance(p, ast.Compare) and len(p.ops) == 1 and isinstance(p.ops[0], ast.Eq)):
            return False
        l, r = p.left, p.comparators[0]
        ls, rs = plain.norm(l), plain.norm(r)
        if ("self" in ls) == ("self" in rs) or ("$o" in ls) == ("$o" in rs):
            return False            # each side must mention exactly one operand
        if sw.norm(l) != sw.norm(r):
            return False
    return True


_NOT_A_NODE = {"str", "bytes", "bytearray", "int", "float", "bool", "complex", "dict", "list", "tuple", "set",
               "frozenset", "type", "NoneType"}


def mentions(e, name):
    return any(isinstance(x, ast.Name) and x.id == name for x in ast.walk(e))


def reads_operand_field(e, o):
    """the expression reads an attribute of the operand: `other.F` / `other.meth()`"""
    return any(isinstance(x, ast.Attribute) and isinstance(x.value, ast.Name) and x.value.id == o
               for x in ast.walk(e))


def reflexive_test(idx, fn, ci, o, test):
    """Value of one atomic test of fn when the operand `o` IS self, an instance of class ci.

    Returns (value, typed): value True / False / None (not decided statically); typed is True when the test,
    taken with the value True, establishes the operand's type (isinstance(o, K)  or  type(o) == type(self))
    and False when it establishes it with the value False (type(o) != type(self)); None otherwise."""
    t = canon(test)
    neg = False
    while isinstance(t, ast.UnaryOp) and isinstance(t.op, ast.Not):
        t, neg = t.operand, not neg

    def out(val, typed=None):
        if neg:
            val = None if val is None else not val
            typed = None if typed is None else not typed
        return val, typed

    if isinstance(t, ast.Call) and isinstance(t.func, ast.Name) and t.func.id == "isinstance" \
            and len(t.args) == 2 and not t.keywords:
        a, k = t.args
        if not (isinstance(a, ast.Name) and a.id in (o, "self")):
            return out(None)
        vals = []
        for kk in (k.elts if isinstance(k, ast.Tuple) else [k]):
            c = idx.resolve_expr(fn.module, kk)
            if isinstance(c, ClassInfo):
                vals.append(c in ci.mro())
            elif isinstance(kk, ast.Name) and kk.id == "object":
                vals.append(True)
            elif isinstance(kk, ast.Name) and kk.id in _NOT_A_NODE and kk.id not in fn.module.assigns:
                vals.append(False)
            else:
                vals.append(None)
        val = True if any(v is True for v in vals) else (False if all(v is False for v in vals) else None)
        return out(val, True if a.id == o else None)
    if isinstance(t, ast.Compare) and len(t.ops) == 1 and isinstance(t.ops[0], (ast.Eq, ast.NotEq, ast.Is, ast.IsNot)):
        eqlike = isinstance(t.ops[0], (ast.Eq, ast.Is))
        l, r = t.left, t.comparators[0]
        plain = N(fn, rename={o: "$o"})
        typed = None
        if {plain.norm(l), plain.norm(r)} == {"$o.__class__", "self.__class__"}:
            typed = eqlike
        sw = N(fn, rename={o: "self"})
        if sw.norm(l) == sw.norm(r):
            return out(eqlike, typed)
        for x, y in ((l, r), (r, l)):
            if isinstance(x, ast.Name) and x.id in (o, "self") and isinstance(y, ast.Constant) and y.value is None:
                return out(not eqlike)
        return out(None, typed)
    return out(None)


def defined_in_body(ci, name):
    return name in ci.methods or name in ci.attrs


def node_classes(idx):
    root = idx.cls("interfaces:" + NODE_IFACE_ROOT)
    out = []
    for ci in idx.classes.values():
        for d in ci.node.decorator_list:
            if isinstance(d, ast.Call) and call_tail(d) == "implementer":
                for a in d.args:
                    t = idx.resolve_expr(ci.module, a)
                    if isinstance(t, ClassInfo) and (t is root or root in t.mro()):
                        out.append(ci)
                        break
    return sorted(set(out), key=lambda c: c.qual)


def cap_classes(idx):
    m = idx.module("allmydata.uri")
    return sorted((ci for ci in m.classes.values() if ci.lookup("to_string") is not None), key=lambda c: c.qual)


# ---------------------------------------------------------------- comparison methods made by class decorators
_ATTRS_CLASSIC = {"attr.s", "attr.attrs", "attr.attributes", "attr.dataclass"}      # write __eq__/__ne__ over the class's own
_ATTRS_DEFINE = {"attr.define", "attr.frozen", "attr.mutable", "attrs.define", "attrs.frozen", "attrs.mutable"}   # auto_detect
_DATACLASS = {"dataclasses.dataclass"}
_ATTRS_FIELD = {"attr.ib", "attr.attrib", "attr.attr", "attr.field", "attrs.field"}
_DC_FIELD = {"dataclasses.field"}
# class decorators known not to touch __eq__ / __ne__ / __hash__
_HARMLESS_DECORATORS = {"zope.interface.implementer", "zope.interface.declarations.implementer", "zope.interface.provider",
                        "zope.interface.implementer_only", "functools.total_ordering"}
TRIO = ("__eq__", "__ne__", "__hash__")


def dotted_in_module(m, e):
    """Dotted name an expression denotes at module scope, the first component taken through the module's imports
    (`attr.s`, `dataclasses.dataclass`, `zope.interface.implementer`); a module-local name stays bare; else None."""
    p = attr_path(e)
    if not p:
        return None
    head, _, rest = p.partition(".")
    if head in m.imports:
        head = m.imports[head]
    return head + ("." + rest if rest else "")


def const_kw(call, *names):
    """(found, value) of the first keyword among `names` of a decorator / field call; the value must be a constant."""
    if not isinstance(call, ast.Call):
        return (False, None)
    for k in call.keywords:
        if k.arg is None:
            raise AnalysisError("**kwargs in `%s`: what the decorator generates cannot be decided" % ast.unparse(call))
        if k.arg in names:
            if not isinstance(k.value, ast.Constant):
                raise AnalysisError("`%s=%s` in `%s` is not a constant: what the decorator generates cannot be decided"
                                    % (k.arg, ast.unparse(k.value), ast.unparse(call)))
            return (True, k.value.value)
    return (False, None)


class Generated:
    """What a class decorator of the attrs / dataclasses families writes into the class."""

    def __init__(self, ci, dec, family, eq, hash_, fields):
        self.ci, self.dec, self.family = ci, dec, family
        self.eq = eq            # __eq__ written (attrs: together with __ne__)
        self.ne = eq and family != "dataclass"
        self.hash = hash_       # 'gen' (over the fields), 'none' (__hash__ = None) or 'keep'
        self.fields = fields    # {'self.<name>'} the generated methods compare / hash

    def what(self):
        made = [n for n, on in (("__eq__", self.eq), ("__ne__", self.ne), ("__hash__", self.hash == "gen")) if on]
        return "/".join(made) + (" (and __hash__ = None)" if self.hash == "none" else "")


def generated_fields(idx, ci, family, auto_attribs):
    """'self.<name>' for the fields of class ci (own body and decorated bases) that generated comparison methods use."""
    out = set()
    for k in reversed(ci.mro()):
        if k is not ci and not any(g is not None for g in (generated_by(idx, k, d) for d in k.node.decorator_list)):
            continue
        for st in k.node.body:
            name, val, ann = None, None, None
            if isinstance(st, ast.Assign) and len(st.targets) == 1 and isinstance(st.targets[0], ast.Name):
                name, val = st.targets[0].id, st.value
            elif isinstance(st, ast.AnnAssign) and isinstance(st.target, ast.Name):
                name, val, ann = st.target.id, st.value, st.annotation
            if name is None:
                continue
            fcall = val if isinstance(val, ast.Call) else None
            fkind = dotted_in_module(k.module, fcall.func) if fcall is not None else None
            is_field_call = fkind in (_ATTRS_FIELD if family != "dataclass" else _DC_FIELD)
            if ann is not None and "ClassVar" in ast.unparse(ann):
                continue
            if family == "dataclass":
                if ann is None:
                    continue
            elif not (is_field_call or (auto_attribs and ann is not None)):
                continue
            if is_field_call:
                found, v = const_kw(fcall, *(("eq", "cmp") if family != "dataclass" else ("compare",)))
                if found and v is False:
                    out.discard("self." + name)
                    continue
                if found and v is not True and v is not None:
                    raise AnalysisError("field %s.%s has a custom comparison key; cannot be decided" % (k.name, name))
            out.add("self." + name)
    return out


def generated_by(idx, ci, dec):
    """Generated(..) when decorator `dec` of class ci belongs to the attrs / dataclasses families, None when it is known
    not to touch the identity trio; AnalysisError for any other class decorator."""
    call = dec if isinstance(dec, ast.Call) else None
    name = dotted_in_module(ci.module, call.func if call is not None else dec)
    if name in _HARMLESS_DECORATORS:
        return None
    family = "classic" if name in _ATTRS_CLASSIC else "define" if name in _ATTRS_DEFINE else "dataclass" if name in _DATACLASS else None
    if family is None:
        raise AnalysisError("class decorator `%s` on %s (a class of the node / capability families) is not known: whether it "
                            "replaces __eq__/__ne__/__hash__ cannot be decided" % (ast.unparse(dec), ci.qual))
    if call is not None and call.args:
        raise AnalysisError("positional arguments in `%s` on %s: what the decorator generates cannot be decided" % (ast.unparse(dec), ci.qual))
    found_eq, eq = const_kw(call, "eq")
    if family != "dataclass" and not (found_eq and eq is not None):
        found_cmp, cmp_ = const_kw(call, "cmp")
        if found_cmp and cmp_ is not None:
            found_eq, eq = True, cmp_
    own = lambda n: n in ci.methods or n in ci.attrs
    auto_detect = family == "define"
    if family == "classic":
        auto_detect = bool(const_kw(call, "auto_detect")[1])
    elif family == "define":
        fa, av = const_kw(call, "auto_detect")
        auto_detect = av if fa else True
    if not found_eq or eq is None:
        eq = True
        if family != "dataclass" and auto_detect and (own("__eq__") or own("__ne__")):
            eq = False
    eq = bool(eq)
    writes_eq = eq and not (family == "dataclass" and own("__eq__"))
    frozen = name.endswith(".frozen") or bool(const_kw(call, "frozen")[1])
    fh, hv = const_kw(call, "unsafe_hash")
    if family != "dataclass" and not (fh and hv is not None):
        fh2, hv2 = const_kw(call, "hash")
        if fh2:
            fh, hv = fh2, hv2
    if family == "dataclass":
        if own("__hash__"):
            hash_ = "keep"
        elif hv:
            hash_ = "gen"
        else:
            hash_ = ("gen" if frozen else "none") if eq else "keep"
    else:
        if hv is True:
            hash_ = "gen"
        elif fh and hv is False:
            hash_ = "keep"
        elif auto_detect and own("__hash__"):
            hash_ = "keep"
        else:
            hash_ = ("gen" if frozen else "none") if eq else "keep"
    if family == "dataclass":
        auto_attribs = True
    else:
        fa, av = const_kw(call, "auto_attribs")
        auto_attribs = bool(av) if fa and av is not None else (family == "define" or name == "attr.dataclass")
    g = Generated(ci, dec, family, writes_eq, hash_, None)
    g.auto_attribs = auto_attribs
    return g


def class_generated(idx, ci):
    """The Generated(..) of class ci's decorators (None when no decorator writes comparison methods)."""
    gens = [g for g in (generated_by(idx, ci, d) for d in ci.node.decorator_list) if g is not None]
    if not gens:
        return None
    if len(gens) > 1:
        raise AnalysisError("%s carries several attrs / dataclass decorators" % ci.qual)
    g = gens[0]
    if g.fields is None:
        g.fields = generated_fields(idx, ci, g.family, g.auto_attribs)
    return g


def identity_fields(fn):
    """'self.<x>' terms the value returned by the identity function (to_string / get_uri) is computed from."""
    flow = FlowNorm(fn)
    used = set()
    for n in fn.cfg().find(is_return):
        if n.ast.value is not None:
            used |= terms_through_locals(flow, n, n.ast.value)
    used.discard("CLASS")
    return used


def run(ctx: Context):
    idx = ctx.idx
    definers = sorted((ci for ci in idx.classes.values()
                       if "__eq__" in ci.methods or "__ne__" in ci.methods), key=lambda c: c.qual)

    # -- 1. __ne__ is the negation of __eq__ ---------------------------------
    with ctx.rule("C43.1", "R6", "__ne__ is the path-wise negation of the __eq__ it is paired with (every class "
                  "of the package whose MRO reaches a package-defined __eq__ or __ne__)", expected=5) as r:
        pairs = {}
        for ci in sorted(idx.classes.values(), key=lambda c: c.qual):
            eq, ne = ci.lookup("__eq__"), ci.lookup("__ne__")
            if eq is None and ne is None:
                continue
            if ne is None:
                continue        # Python 3 derives != from __eq__
            if eq is None:
                r.site(ne, None, "no __eq__")
                r.violation(ne, ne.loc(), "%s defines __ne__ but no __eq__ is defined for %s: != is then unrelated "
                            "to the identity ==" % (short(ne), ci.name))
                continue
            pairs.setdefault((eq.qual, ne.qual), (eq, ne, ci))
        for (eq, ne, ci) in pairs.values():
            r.site(ne, None, "paired with " + short(eq))
            o = other_param(ne)
            nps, nnrm, nst = paths(ne, {o: "$o"})
            _t, _g, eps, enrm, est = eq_profile(eq)
            r.count(nst + est)
            if all(delegates(nnrm, v) for (_f, v, _n) in nps):
                continue
            if eq.cls is not ne.cls:
                r.violation(ne, ne.loc(), "%s inherits the non-delegating %s but takes == from %s: the two can disagree"
                            % (ci.name, short(ne), short(eq)))
                continue
            for (nf, nv, nn) in nps:
                if delegates(nnrm, nv):
                    continue
                for (ef, ev, en) in eps:
                    if not compatible(ef, nf):
                        continue
                    if is_notimpl(ev) or is_notimpl(nv):
                        ok = is_notimpl(ev) and is_notimpl(nv)
                    elif is_const(ev, True, False) or is_const(nv, True, False):
                        ok = (is_const(ev, True) and is_const(nv, False)) or (is_const(ev, False) and is_const(nv, True))
                    elif ev is None or nv is None:
                        ok = False
                    else:
                        ok = enrm.cmp(canon(ev), True) == nnrm.cmp(canon(nv), False)
                    if not ok:
                        r.violation(ne, ne.loc(nn.ast), "%s returns `%s` where %s returns `%s` under the same branch facts "
                                    "%s: != is not the negation of ==" % (
                                        short(ne), src(ne, nv) if nv is not None else "None", short(eq),
                                        src(eq, ev) if ev is not None else "None",
                                        sorted("%s %s %s" % (l, op, rr) if rr is not None else "%s(%s)" % (op, l)
                                               for (op, l, rr) in (ef | nf))))
                        break

    # -- 2. __hash__ present and consistent ----------------------------------
    with ctx.rule("C43.2", "R6", "a class body defining __eq__ also defines __hash__ (else instances are unhashable); "
                  "__hash__ reads only fields that __eq__ compares", expected=5) as r:
        for ci in definers:
            if "__eq__" not in ci.methods:
                continue
            eq = ci.methods["__eq__"]
            r.site(eq, None, "hash of " + ci.name)
            if not defined_in_body(ci, "__hash__"):
                r.violation(ci.qual + ".__hash__", eq.loc(), "%s defines __eq__ without __hash__ in the class body: Python "
                            "sets __hash__ = None, instances cannot be dict keys / set members" % ci.name)
                continue
            h = ci.methods.get("__hash__")
            if h is None:
                v = ci.attrs["__hash__"][-1]
                r.require(not (isinstance(v, ast.Constant) and v.value is None), ci.qual + ".__hash__", eq.loc(),
                          "%s sets __hash__ = None" % ci.name)
                continue
            terms, type_eq, _ps, _n, st = eq_profile(eq)
            r.count(st)
            allowed = set(terms) | ({"CLASS"} if type_eq else set())
            rets = [n for n in h.cfg().find(is_return)]
            r.require(bool(rets), h, h.loc(), "%s never returns a value" % short(h))
            fn_h = FlowNorm(h)
            for n in rets:
                used = terms_through_locals(fn_h, n, n.ast.value)
                extra = used - allowed
                r.require(not extra, h, h.loc(n.ast), "%s depends on %s which %s does not compare (compares %s): equal "
                          "objects can hash differently" % (short(h), sorted(extra), short(eq), sorted(terms)))
                r.require(bool(used), h, h.loc(n.ast), "%s does not depend on any compared field" % short(h))

    # -- 3. shape of __eq__ ---------------------------------------------------
    with ctx.rule("C43.3", "R6", "every return of __eq__ is False / NotImplemented or a symmetric comparison "
                  "self.F == other.F", expected=5) as r:
        for ci in definers:
            if "__eq__" not in ci.methods:
                continue
            eq = ci.methods["__eq__"]
            r.site(eq, None)
            terms, _g, ps, nrm, st = eq_profile(eq)
            r.count(st)
            ncmp = 0
            fn_e = FlowNorm(eq)
            for (_f, v, n) in ps:
                if v is not None:
                    v = fn_e.resolve(n, v)
                if is_const(v, False) or is_notimpl(v):
                    continue
                if v is None or is_const(v, True, None):
                    r.violation(eq, eq.loc(n.ast), "%s returns %s on some path: objects with different caps compare equal "
                                "(or == yields None)" % (short(eq), src(eq, v) if v is not None else "None"))
                    continue
                ncmp += 1
                r.require(symmetric(eq, v), eq, eq.loc(n.ast), "%s returns `%s`, which is not a comparison of the same "
                          "field(s) of both operands" % (short(eq), src(eq, v)))
            r.require(ncmp > 0, eq, eq.loc(), "%s never compares anything" % short(eq))

    # -- 4. coverage: node and capability classes -----------------------------
    with ctx.rule("C43.4", "R6", "every IFilesystemNode-family implementer and every allmydata.uri class with "
                  "to_string() resolves __eq__ and __hash__ in the package; nodes compare the fields get_uri() reads, "
                  "caps compare self.to_string()", expected=28) as r:
        nodes = node_classes(idx)
        caps = cap_classes(idx)
        if len(nodes) < 5:
            raise AnchorVanished("only %d implementers of the %s family found" % (len(nodes), NODE_IFACE_ROOT))
        if len(caps) < 20:
            raise AnchorVanished("only %d capability classes found in allmydata.uri" % len(caps))
        for ci, kind in [(c, "node") for c in nodes] + [(c, "cap") for c in caps]:
            r.site("%s %s" % (kind, ci.qual))
            eq = ci.lookup("__eq__")
            loc = "%s:%s" % (ci.module.relpath, ci.node.lineno)
            if eq is None:
                r.violation(ci.qual, loc, "%s class %s defines/inherits no __eq__: two objects for the same capability "
                            "string compare unequal (identity semantics)" % (kind, ci.name))
                continue
            # (a missing __hash__ is reported once, on the class whose body defines __eq__, by C43.2)
            terms, _g, _ps, _n, st = eq_profile(eq)
            r.count(st)
            if kind == "cap":
                r.require("self.to_string()" in terms, ci.qual, loc, "capability class %s: %s compares %s, not "
                          "self.to_string()" % (ci.name, short(eq), sorted(terms)))
            else:
                gu = ci.lookup("get_uri")
                if gu is None:
                    raise AnchorVanished("%s has no get_uri" % ci.qual)
                used = set()
                for n in gu.cfg().find(is_return):
                    used |= self_terms(n.ast.value)
                used.discard("CLASS")
                missing = used - terms
                r.require(bool(used) and not missing, ci.qual, loc, "node class %s: get_uri() reads %s but %s compares %s"
                          % (ci.name, sorted(used), short(eq), sorted(terms)))

    # -- 5. the type guard of __eq__ points the right way ----------------------
    with ctx.rule("C43.5", "R6", "x == x is True: on every path of __eq__ that is feasible when the operand is the "
                  "object itself (isinstance(other, K) with K in the MRO, type(other) == type(self)) the result is a "
                  "comparison, never False; a comparison that reads other.F is guarded by a positive type test; the "
                  "operand never stands in the class position of isinstance", expected=5) as r:
        for ci in definers:
            if "__eq__" not in ci.methods:
                continue
            eq = ci.methods["__eq__"]
            r.site(eq, None, "reflexivity")
            o = other_param(eq)
            cfg = eq.cfg()
            flow = FlowNorm(eq)
            for c in func_own_nodes(eq):
                if isinstance(c, ast.Call) and isinstance(c.func, ast.Name) and c.func.id in ("isinstance", "issubclass") \
                        and len(c.args) == 2 and mentions(c.args[1], o):
                    r.violation(eq, eq.loc(c), "%s tests `%s`: the operand stands in the class position, which raises "
                                "TypeError for every node / cap operand" % (short(eq), src(eq, c)))
            users = sorted((c for c in idx.classes.values() if c.lookup("__eq__") is eq), key=lambda c: c.qual)
            reported = set()
            for uc in users:
                ends = []

                def transfer(n, lab, nxt, st, uc=uc, ends=ends):
                    if lab == "exc" or nxt.kind == "raise":
                        return None
                    unknown, typed = st
                    if n.kind == "test" and isinstance(lab, tuple):
                        holds = lab[0] == "T"
                        val, ty = reflexive_test(idx, eq, uc, o, n.ast)
                        if val is None:
                            unknown = True
                        elif val != holds:
                            return None
                        if ty is not None and ty == holds:
                            typed = True
                    if nxt.kind == "exit":
                        v = n.ast.value if is_return(n) else None
                        if v is not None:
                            v = flow.resolve(n, v)
                        ends.append((n, v, st, (unknown, typed)))
                    return (unknown, typed)
                visited, parent = explore(cfg, (False, False), transfer)
                r.count(len(visited))
                some_cmp = False
                for (n, v, st_in, (unknown, typed)) in ends:
                    negative = v is None or is_const(v, False, None) or is_notimpl(v)
                    if not negative:
                        some_cmp = True
                        guarded = typed or any(lab == "exc" for (_d, lab) in cfg.succ[n.id])
                        if not is_const(v, True) and reads_operand_field(v, o) and not guarded \
                                and (n.id, "unguarded") not in reported:
                            reported.add((n.id, "unguarded"))
                            r.violation(eq, eq.loc(n.ast), "%s returns `%s` on a path that never established the type of "
                                        "`%s` (no isinstance / type equality taken positively): comparing with an object "
                                        "of another node / cap class raises AttributeError or compares unrelated fields"
                                        % (short(eq), src(eq, v), o), witness(cfg, parent, (n.id, st_in)))
                    elif not unknown and (n.id, "reflexive") not in reported:
                        reported.add((n.id, "reflexive"))
                        r.violation(eq, eq.loc(n.ast), "%s returns %s when the operand is the %s object itself: the type "
                                    "guard points the wrong way, objects with equal capability strings compare unequal"
                                    % (short(eq), src(eq, v) if v is not None else "None", uc.name),
                                    witness(cfg, parent, (n.id, st_in)))
                if not some_cmp and (None, uc.qual) not in reported and not any(k[1] == "reflexive" for k in reported):
                    reported.add((None, uc.qual))
                    r.violation(eq, eq.loc(), "%s has no path that returns a comparison when the operand is the %s object "
                                "itself" % (short(eq), uc.name))

    # -- 6. nothing but the package's own defs provides the identity trio -------
    with ctx.rule("C43.6", "R6", "for every node / capability class, the first provider of __eq__, __ne__ and __hash__ along the MRO is "
                  "a def of the package: no class decorator of the attrs / dataclasses families writes field-wise comparison "
                  "methods over it (unless the compared fields are exactly those the cap string is computed from, and the class stays "
                  "hashable), and no class-body assignment re-binds one of the three", expected=25) as r:
        nodes, caps = node_classes(idx), cap_classes(idx)
        if len(nodes) < 5 or len(caps) < 20:
            raise AnchorVanished("only %d node and %d capability classes found" % (len(nodes), len(caps)))
        fam = [(c, "node") for c in nodes] + [(c, "cap") for c in caps]
        reported = set()
        gen_cache = {}

        def gen_of(k):
            if k.qual not in gen_cache:
                gen_cache[k.qual] = class_generated(idx, k)
            return gen_cache[k.qual]
        for ci, kind in fam:
            r.site("%s %s" % (kind, ci.qual))
            ident = ci.lookup("to_string" if kind == "cap" else "get_uri")
            iname = "to_string()" if kind == "cap" else "get_uri()"
            for meth in TRIO:
                for k in ci.mro():
                    g = gen_of(k)
                    r.count(1)
                    loc = "%s:%s" % (k.module.relpath, k.node.lineno)
                    provides = g is not None and ((meth == "__eq__" and g.eq) or (meth == "__ne__" and g.ne)
                                                  or (meth == "__hash__" and g.hash in ("gen", "none")))
                    if provides:
                        key = (k.qual, ci.qual, "unhashable" if (g.hash == "none" and meth == "__hash__") else "fields")
                        if key in reported:
                            break
                        reported.add(key)
                        if g.hash == "none" and meth == "__hash__":
                            r.violation(k.qual, loc, "`@%s` on %s sets __hash__ = None (generated __eq__ without frozen / hash=True): "
                                        "%s objects cannot be dict keys or set members" % (ast.unparse(g.dec), k.name, ci.name))
                            break
                        if ident is None:
                            raise AnchorVanished("%s has no %s" % (ci.qual, iname))
                        want = identity_fields(ident)
                        if g.fields != want or not want:
                            r.violation(k.qual, loc, "`@%s` on %s generates %s over the fields %s, which replace the string-based "
                                        "methods %s would inherit; the cap string of %s (%s) is computed from %s: two %s objects for the "
                                        "same cap string that differ in %s compare unequal / hash differently%s"
                                        % (ast.unparse(g.dec), k.name, g.what(), sorted(g.fields), ci.name, ci.name, short(ident),
                                           sorted(want), ci.name, sorted(g.fields - want) or "nothing",
                                           ("; objects that differ only in %s compare equal" % sorted(want - g.fields)) if want - g.fields else ""))
                        break
                    if meth in k.methods:
                        break
                    if meth in k.attrs:
                        v = k.attrs[meth][-1]
                        t = idx.resolve_expr(k.module, v) if isinstance(v, (ast.Name, ast.Attribute)) else None
                        if isinstance(t, FuncInfo) and t.name == meth and t.cls is not None and t.cls in k.mro():
                            break       # `__hash__ = Base.__hash__`: the def of a base class, re-exported
                        if (k.qual, meth) not in reported:
                            reported.add((k.qual, meth))
                            r.violation(k.qual + "." + meth, loc, "%s re-binds %s in its class body to `%s`: %s objects no longer use the "
                                        "package's cap-string based %s (the rules above read the def this assignment hides)"
                                        % (k.name, meth, ast.unparse(v), ci.name, meth))
                        break
